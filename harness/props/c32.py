"""C32 — scope provider selection follows the documented precedence.

Tie T: `translate` reads the list expression `attr_refs = [...]` in
textx/model.py (tree under test) with Python's `ast` and writes
lean/TextxVerif/Gen/ProviderOrder.lean; `Props/C32.lean` is re-checked against it.

Tie X (kind "select"): a grammar with pools `pa pb pe pc pd` of equally named objects
and up to three reference rules (single / list attributes, several assignments
of the same attribute, optional grammar RREL per assignment); a registration
dictionary over the key universe with distinguishable values (custom provider
`n` logs its calls and answers from pool `pc`; RREL strings `pa`, `pb`, `pe`, … answer
from their pool; the default provider can only answer for a name that is unique,
which the harness arranges in pool `pd` after it saw the reference being handed
to the default provider).  Observation per reference: which provider was called.

Kind "rrelsame": a package / class model loaded twice — RREL expression written
in the grammar vs. the same string registered under one of the four keys — the
two outcomes must be equal.

Kind "multi" (tie X, op `calls`): ONE provider serves MANY references.  Pools `pa pb pe pc`
hold the same package tree, `pd` uniquely named items.  Reference rules assign t / ts(list) / u,
every assignment with its own match rule (`FQN`, `DOT[split='.']`, `PATH[split='/']`, `CPP[split='::']`,
`RAW` = '/'-separated without split parameter, `MIX[split='/']` written with '.'), names have several parts.  A history of one meta-model:
steps of `register_scope_providers` (RREL strings, RREL provider *objects* built once with
`create_rrel_scope_provider` — with / without `split_string` — and callables, one object possibly bound to
several keys) and model loads.  Observation per reference: pool and path of the target (= which provider,
how the name was split).  Compared with (a) the documented precedence + delimiter rule (oracle), (b) the
Lean model's call list, (c) the same history with the selected expressions written in the grammar.

`env` of a select / multi case (tie X, op `resolve`): the configuration of the meta-model around the provider call —
`builtins=` (names the model defines as well, names it does not, conforming / non-conforming classes),
`textx_tools_support`, user classes, `auto_init_attributes`, custom providers that answer `Postponed()` first, names no
provider finds.  The selected provider must be asked (first, and only it, in every pass), its answer binds the reference,
builtins are the fall-back, without one the load fails with "Unknown object" at that reference.
"""
import ast
import os
import re
import shutil
import tempfile

from harness.core import LEAN_DIR, REPO, Check, use_repo

SCRATCH = "/dev/shm" if os.path.isdir("/dev/shm") and os.access("/dev/shm", os.W_OK) else None
POOLS = ["pa", "pb", "pe", "pc", "pd"]
NAMES = ["x", "y", "z"]
# names no pool holds: a provider asked for them finds nothing (-> builtins fall-back / "Unknown object")
GHOSTS = ["w", "v"]
RRELS = ["pa", "pb", "pe", "^pa", "^pb", "^pe", "pa,pb", "pb,pa", "pe,pa"]
ATTRS = ["t", "ts", "u"]
GEN_PATH = os.path.join(LEAN_DIR, "TextxVerif", "Gen", "ProviderOrder.lean")


def pool_of(expr):
    return expr.replace("^", "")[:2]


# --------------------------------------------------------------------------
# translator: textx/model.py  attr_refs = [...]  ->  Gen/ProviderOrder.lean
# --------------------------------------------------------------------------
class TranslationError(Exception):
    pass


def _is_cls_name(e):
    # obj.__class__.__name__   |   type(obj).__name__
    if not (isinstance(e, ast.Attribute) and e.attr == "__name__"):
        return False
    v = e.value
    if isinstance(v, ast.Attribute) and v.attr == "__class__" and isinstance(v.value, ast.Name) and v.value.id == "obj":
        return True
    return (isinstance(v, ast.Call) and isinstance(v.func, ast.Name) and v.func.id == "type" and len(v.args) == 1
            and not v.keywords and isinstance(v.args[0], ast.Name) and v.args[0].id == "obj")


def _pieces(e):
    if isinstance(e, ast.Constant) and isinstance(e.value, str):
        return [("lit", e.value)]
    if isinstance(e, ast.BinOp) and isinstance(e.op, ast.Add):
        return _pieces(e.left) + _pieces(e.right)
    if isinstance(e, ast.JoinedStr):
        out = []
        for v in e.values:
            if isinstance(v, ast.FormattedValue):
                if v.conversion != -1 or v.format_spec is not None:
                    raise TranslationError("f-string conversion / format spec in attr_refs: " + ast.dump(v))
                out += _pieces(v.value)
            else:
                out += _pieces(v)
        return out
    if _is_cls_name(e):
        return [("cls", None)]
    if isinstance(e, ast.Attribute) and e.attr == "name" and isinstance(e.value, ast.Name) and e.value.id == "attr":
        return [("attr", None)]
    raise TranslationError("expression outside the translated subset in attr_refs: " + ast.dump(e))


def _normalise(ps):
    out = []
    for k, v in ps:
        if k == "lit":
            if v == "":
                continue
            if out and out[-1][0] == "lit":
                out[-1] = ("lit", out[-1][1] + v)
                continue
        out.append((k, v))
    return out


def lean_str(s):
    out = '"'
    for ch in s:
        if ch == '"' or ch == "\\":
            out += "\\" + ch
        elif ch == "\n":
            out += "\\n"
        elif 32 <= ord(ch) < 127:
            out += ch
        else:
            out += "\\u{%x}" % ord(ch)
    return out + '"'


def read_provider_order(repo=None):
    """[[('cls'|'attr'|'lit', text)…]…] from the tree under test."""
    path = os.path.join(repo or REPO, "textx", "model.py")
    tree = ast.parse(open(path, encoding="utf-8").read())
    found = []
    for fn in ast.walk(tree):
        if isinstance(fn, ast.FunctionDef) and fn.name == "resolve_one_step":
            for node in ast.walk(fn):
                if (isinstance(node, ast.Assign) and len(node.targets) == 1 and isinstance(node.targets[0], ast.Name)
                        and node.targets[0].id == "attr_refs"):
                    found.append(node)
    if len(found) != 1:
        raise TranslationError(f"expected exactly one `attr_refs = [...]` in resolve_one_step, found {len(found)}")
    val = found[0].value
    if not isinstance(val, (ast.List, ast.Tuple)):
        raise TranslationError("attr_refs is not a list / tuple display: " + ast.dump(val)[:200])
    return [_normalise(_pieces(e)) for e in val.elts]


def render_gen(order):
    def piece(p):
        return {"cls": ".cls", "attr": ".attr"}.get(p[0]) or f".lit {lean_str(p[1])}"

    body = ", ".join("[" + ", ".join(piece(p) for p in e) + "]" for e in order)
    return (
        "import TextxVerif.Select\n"
        "/-! GENERATED on every run by harness/props/c32.py (`translate`) from the list\n"
        "expression `attr_refs = [...]` in textx/model.py — never edit by hand. -/\n"
        "namespace Gen\nopen Select\n\n"
        "def providerOrder : List KeyExpr :=\n  [" + body + "]\n\nend Gen\n"
    )


def translate():
    text = render_gen(read_provider_order())
    old = open(GEN_PATH, encoding="utf-8").read() if os.path.exists(GEN_PATH) else None
    if old != text:
        os.makedirs(os.path.dirname(GEN_PATH), exist_ok=True)
        with open(GEN_PATH, "w", encoding="utf-8") as f:
            f.write(text)


# --------------------------------------------------------------------------
# kind "select"
# --------------------------------------------------------------------------
def rule_occs(rule):
    """flat list of the assignments of a rule in grammar order: (alt index, attr, rrel)"""
    out = []
    for k, alt in enumerate(rule["alts"]):
        for a in ATTRS:
            if a in alt:
                out.append((k, a, alt[a]))
    return out


def grammar_select(case):
    def ref(rrel):
        return "[A:ID" + ("|" + rrel if rrel else "") + "]"

    lines = ["Model: 'pa' pa*=A 'pb' pb*=A 'pe' pe*=A 'pc' pc*=A 'pd' pd*=A 'refs' refs*=R;", "A: 'a' name=ID;",
             "R: " + " | ".join(r["name"] for r in case["rules"]) + ";"]
    for r in case["rules"]:
        alts = []
        for k, alt in enumerate(r["alts"]):
            s = f"'{r['name'].lower()}k{k}' t={ref(alt['t'])}"
            if "ts" in alt:
                s += f" ('+' ts+={ref(alt['ts'])}['&'])?"
            if "u" in alt:
                s += f" ('@' u={ref(alt['u'])})?"
            alts.append(s + " ';'")
        lines.append(f"{r['name']}: " + " | ".join(alts) + ";")
    return "\n".join(lines) + "\n"


def render_select(case, rename):
    """model text + reference table [(obj, attr, j, pos, name)]; `rename` maps a
    reference index to a unique name that only pool pd holds"""
    text = ""
    for p in ("pa", "pb", "pe", "pc"):
        text += p + " " + " ".join("a " + n for n in NAMES) + "\n"
    text += "pd " + " ".join("a " + n for n in rename.values()) + "\nrefs\n"
    table = []

    def put(oi, attr, j, name):
        nonlocal text
        name = rename.get(len(table), name)
        table.append((oi, attr, j, len(text), name))
        text += name

    for oi, o in enumerate(case["objs"]):
        r = case["rules"][o["rule"]]
        text += f"{r['name'].lower()}k{o['alt']} "
        put(oi, "t", 0, o["t"])
        if o.get("ts"):
            text += " + "
            for j, n in enumerate(o["ts"]):
                if j:
                    text += " & "
                put(oi, "ts", j, n)
        if o.get("u"):
            text += " @ "
            put(oi, "u", 0, o["u"])
        text += " ;\n"
    return text, table


def linecol(text, pos):
    line = text.count("\n", 0, pos) + 1
    return line, pos - (text.rfind("\n", 0, pos) + 1) + 1


def env_of(case):
    """the configuration of the meta-model around the provider call (absent in cases of earlier rounds):
    builtins = [[name, kind]] (kind "A": an object of the referenced class, "R": an object of another rule's class,
    "py": a foreign Python object), tools = textx_tools_support, classes = user classes for the target rule and / or
    the referring rules, postpone = tags of custom providers that answer Postponed() when first asked for a reference"""
    e = case.get("env") or {}
    return {"builtins": e.get("builtins") or [], "tools": bool(e.get("tools")), "classes": e.get("classes") or "none",
            "postpone": e.get("postpone") or [], "auto_init": e.get("auto_init", True)}


def conforming(case, name):
    """key of the builtin the fall-back block may use for `name`"""
    for k, kind in env_of(case)["builtins"]:
        if k == name:
            return kind == "A"
    return False


class _Foreign:
    def __init__(self, name):
        self.name = name


def mm_kwargs(env, target, referring):
    """keyword arguments of the meta-model constructor for an environment; the builtins dictionary is filled by
    `fill_builtins` once the classes exist"""
    kw = {}
    if env["builtins"]:
        kw["builtins"] = {}
    if env["tools"]:
        kw["textx_tools_support"] = True
    if not env["auto_init"]:
        kw["auto_init_attributes"] = False
    names = ([target] if env["classes"] in ("target", "both") else []) + (
        list(referring) if env["classes"] in ("refs", "both") else [])
    if names:
        def user_class(n):
            def __init__(self, **kwargs):
                for k, v in kwargs.items():
                    setattr(self, k, v)

            return type(n, (), {"__init__": __init__})

        kw["classes"] = [user_class(n) for n in names]
    return kw


def fill_builtins(mm, env, target, other):
    for key, kind in env["builtins"]:
        if kind == "py":
            o = _Foreign(key)
        else:
            cls = mm[target if kind == "A" else other]
            o = cls.__new__(cls)
            o.name = key
        mm.builtins[key] = o


def impl_select(case):
    use_repo()
    from textx import get_model, metamodel_from_str
    from textx.exceptions import TextXError, TextXSemanticError
    from textx.scoping import Postponed

    try:
        from textx.const import UNKNOWN_OBJ_ERROR
    except ImportError:
        UNKNOWN_OBJ_ERROR = "Unknown object"

    env = env_of(case)
    log = []
    asked = set()
    last_pos = [None]

    def mk(tag):
        def provider(obj, attr, obj_ref):
            log.append((tag, obj_ref.position, type(obj).__name__, attr.name))
            for a in get_model(obj).pc:
                if a.name == obj_ref.obj_name:
                    # (the last reference of a model is never postponed: textX demands progress in every pass)
                    if (tag in env["postpone"] and (tag, obj_ref.position) not in asked
                            and obj_ref.position != last_pos[0]):
                        asked.add((tag, obj_ref.position))
                        return Postponed()
                    return a
            return None

        return provider

    try:
        mm = metamodel_from_str(grammar_select(case), **mm_kwargs(env, "A", [r["name"] for r in case["rules"]]))
        fill_builtins(mm, env, "A", case["rules"][0]["name"])
        mm.register_scope_providers({k: (mk(v["p"]) if "p" in v else v["s"]) for k, v in case["reg"]})
    except TextXError as e:
        return {"outcome": "mm-error", "cls": type(e).__name__, "msg": str(e)[:200]}
    except Exception as e:
        return {"outcome": "mm-other", "cls": type(e).__name__, "msg": str(e)[:200]}

    rename = {}
    loads = 0
    while True:
        text, table = render_select(case, rename)
        del log[:]
        asked.clear()
        last_pos[0] = table[-1][3]
        loads += 1
        try:
            model = mm.model_from_str(text)
            break
        except TextXSemanticError as e:
            # the default provider (plain name over the whole model) cannot decide between the equally named
            # objects of the pools: that error identifies the reference as handed to the default provider
            hit = [i for i, (_, _, _, pos, _) in enumerate(table) if linecol(text, pos) == (e.line, e.col)]
            if hit and hit[0] not in rename and getattr(e, "err_type", None) is None and loads <= len(table) + 1:
                rename[hit[0]] = f"n{len(rename)}"
                continue
            at = table[hit[0]][3] if hit else None
            return {"outcome": "error", "cls": type(e).__name__, "err_type": getattr(e, "err_type", None),
                    "unknown": getattr(e, "err_type", None) == UNKNOWN_OBJ_ERROR,
                    "ref": hit[0] if hit else None, "msg": str(e)[:200], "loads": loads,
                    "custom": [t for (t, p, _, _) in log if p == at],
                    "renamed": sorted(rename)}
        except TextXError as e:
            return {"outcome": "error", "cls": type(e).__name__, "err_type": getattr(e, "err_type", None), "ref": None,
                    "msg": str(e)[:200], "loads": loads, "renamed": sorted(rename)}
        except Exception as e:
            return {"outcome": "other", "cls": type(e).__name__, "msg": str(e)[:200], "loads": loads}

    def pool(o):
        for key, b in (mm.builtins or {}).items():
            if o is b:
                return "builtin:" + key
        for p in POOLS:
            if any(o is q for q in getattr(model, p)):
                return p
        return None

    refs = []
    for i, (oi, attr, j, pos, name) in enumerate(table):
        obj = model.refs[oi]
        v = getattr(obj, attr, None)
        if attr == "ts":
            tgt = v[j] if isinstance(v, list) and j < len(v) else None
        else:
            tgt = v
        calls = [t for (t, p, _, _) in log if p == pos]
        refs.append({"obj": oi, "cls": type(obj).__name__, "attr": attr, "j": j, "pool": pool(tgt),
                     "name_ok": getattr(tgt, "name", None) == name, "custom": calls,
                     "as_default": i in rename})
    return {"outcome": "ok", "loads": loads, "refs": refs, "extra_calls": len(log) - sum(len(r["custom"]) for r in refs)}


def expected_select(case):
    """The property statement, reference by reference: ('rrel', expr) | ('custom', n) | ('default',)"""
    reg = dict((k, v) for k, v in case["reg"])
    out = []
    for o in case["objs"]:
        r = case["rules"][o["rule"]]
        alt = r["alts"][o["alt"]]
        for attr in ATTRS:
            n = 1 if attr != "ts" else len(o.get("ts") or [])
            if attr == "u" and not o.get("u"):
                n = 0
            for _ in range(n):
                if alt[attr]:
                    out.append(("rrel", alt[attr]))
                    continue
                for key in (f"{r['name']}.{attr}", f"*.{attr}", f"{r['name']}.*", "*.*"):
                    if key in reg:
                        v = reg[key]
                        out.append(("custom", v["p"]) if "p" in v else ("rrel", v["s"]))
                        break
                else:
                    out.append(("default",))
    return out


def select_names(case):
    """the name written at every reference, in text order (as `expected_select`)"""
    out = []
    for o in case["objs"]:
        out.append(o["t"])
        out += list(o.get("ts") or [])
        if o.get("u"):
            out.append(o["u"])
    return out


def demanded(case, exp, name, last=False):
    """what the property statement demands for one reference: (calls of custom providers, result);
    result = ("bound", pool, handed to the default provider) | ("unknown",).  The selected provider is asked — once, or
    once per pass while it postpones —, its answer binds the reference; only when it finds nothing the builtin of that
    name (of a conforming class) is used, and without one the load fails at this reference."""
    found = name in NAMES
    if exp[0] == "custom":
        calls = [exp[1]] * (2 if found and exp[1] in env_of(case)["postpone"] and not last else 1)
    else:
        calls = []
    if found:
        pool = "pc" if exp[0] == "custom" else pool_of(exp[1]) if exp[0] == "rrel" else "pd"
        return calls, ("bound", pool, exp[0] == "default")
    if conforming(case, name):
        return calls, ("bound", "builtin:" + name, False)
    return calls, ("unknown",)


def shown(dem, ref):
    """does the observation of one (resolved) reference show what `dem` = (custom calls, result) says?"""
    calls, res = dem
    return (res[0] == "bound" and ref["name_ok"] and ref["custom"] == calls and ref["pool"] == res[1]
            and ref["as_default"] == res[2])


def check_select(case, obs, dems, who):
    """compare a whole observation with the demands for all references (text order = resolution order)"""
    bad = [k for k, d in enumerate(dems) if d[1][0] == "unknown"]
    if bad:
        k = bad[0]
        if obs["outcome"] != "error" or not obs.get("unknown") or obs.get("ref") != k:
            return (f"reference #{k} `{select_names(case)[k]}`: {who} its provider finds nothing and there is no "
                    f"conforming builtin, 'Unknown object' expected there; implementation: {obs}")
        if obs.get("custom") != dems[k][0]:
            return (f"reference #{k} `{select_names(case)[k]}` (not resolvable): {who} custom providers {dems[k][0]} "
                    f"are asked, the implementation asked {obs.get('custom')}")
        want = [i for i, d in enumerate(dems[:k]) if d[1][0] == "bound" and d[1][2]]
        if obs.get("renamed") != want:
            return f"references handed to the default provider before #{k}: {obs.get('renamed')}, {who} {want}"
        return None
    if obs["outcome"] != "ok":
        return f"model does not load: {obs}"
    if len(dems) != len(obs["refs"]):
        return f"{len(obs['refs'])} references observed, {len(dems)} written"
    for k, (d, ref) in enumerate(zip(dems, obs["refs"])):
        if not shown(d, ref):
            return (f"reference #{k} ({ref['cls']}.{ref['attr']}[{ref['j']}] `{select_names(case)[k]}`): {who} "
                    f"custom calls {d[0]}, result {d[1]}; the implementation called {describe(ref)}")
    return None


def describe(ref):
    if (ref["pool"] or "").startswith("builtin:"):
        return f"custom provider(s) {ref['custom']} and bound the reference to {ref['pool']}"
    if ref["custom"]:
        return f"custom provider(s) {ref['custom']} (target in {ref['pool']})"
    if ref["as_default"]:
        return f"default provider (target in {ref['pool']})"
    return f"an RREL provider answering from {ref['pool']}"


# --------------------------------------------------------------------------
# kind "rrelsame"
# --------------------------------------------------------------------------
RS_EXPRS = [
    "packages*.classes", "^packages*.classes", "^classes", "..classes", "packages.classes", "'p1'~packages.classes",
    "~packages.classes", "+p:packages*.classes", "+m:packages*.classes", "^classes,packages*.classes",
    "^(packages,classes)*", "parent(Package).classes", ".classes", "+pm:^packages*.classes", "(..)*.classes",
    "packages*.'A'~classes", "^packages*.classes,classes", "+m:^packages*.classes",
]

RS_GRAMMAR = r"""
Model: imports*=Import packages*=Package classes*=Class refs*=Ref;
Import: 'import' importURI=STRING;
Package: 'package' name=ID '{' (packages+=Package | classes+=Class)* '}';
Class: 'class' name=ID '{' attrs*=Attr '}';
Attr: 'attr' name=ID (':' type=[Class:FQN%s])?;
Ref: 'ref' target=[Class:%s%s];
FQN: ID('.'ID)*;
PATH[split='/']: ID('/'ID)*;
"""


def rs_text(node, indent=""):
    out = ""
    for p in node.get("packages", []):
        out += f"{indent}package {p['name']} {{\n" + rs_text(p, indent + " ") + f"{indent}}}\n"
    for c in node.get("classes", []):
        out += f"{indent}class {c['name']} {{" + "".join(
            f" attr {a['name']}" + (f" : {a['type']}" if a.get("type") else "") for a in c["attrs"]) + " }\n"
    return out


def all_attrs(node):
    for c in node.get("classes", []):
        yield from c["attrs"]
    for p in node.get("packages", []):
        yield from all_attrs(p)


def impl_rrelsame(case):
    use_repo()
    from textx import get_children_of_type, metamodel_from_str
    from textx.exceptions import TextXError

    def path(o):
        try:
            p = []
            while hasattr(o, "parent"):
                p.append(str(getattr(o, "name", "?")))
                o = o.parent
            fn = getattr(o, "_tx_filename", None)
            return (os.path.basename(fn) if fn else "") + ":" + ".".join(reversed(p))
        except Exception as e:  # proxies etc.
            return "!" + type(e).__name__

    def dump(m):
        out = []
        for a in get_children_of_type("Attr", m):
            if a.type is not None:
                out.append([a.name, type(a.type).__name__, path(a.type)])
        for r in m.refs:
            out.append(["ref", type(r.target).__name__, path(r.target)])
        return out

    tmp = tempfile.mkdtemp(prefix="c32_", dir=SCRATCH)
    try:
        main = os.path.join(tmp, "main.m")
        with open(main, "w") as f:
            f.write(("import \"lib.m\"\n" if case.get("lib") else "") + rs_text(case["main"])
                    + "".join(f"ref {r.replace('.', '/') if case.get('tsplit') else r}\n" for r in case["refs"]))
        if case.get("lib"):
            with open(os.path.join(tmp, "lib.m"), "w") as f:
                f.write(rs_text(case["lib"]))

        def run(grammar, reg):
            try:
                mm = metamodel_from_str(grammar)
                if reg:
                    mm.register_scope_providers(dict(reg))
                return {"ok": dump(mm.model_from_file(main))}
            except TextXError as e:
                fn = getattr(e, "filename", None)
                return {"err": [type(e).__name__, getattr(e, "err_type", None), e.line, e.col,
                                os.path.basename(fn) if fn else None]}
            except Exception as e:
                return {"other": type(e).__name__}

        e = case["expr"]
        # `tsplit`: Ref.target is matched by PATH[split='/'] (names written with '/'), Attr.type always by FQN
        tm = "PATH" if case.get("tsplit") else "FQN"
        if case["where"] == "both":
            # one provider for both attributes (two match rules): '*.*', or one provider object under two keys
            a = run(RS_GRAMMAR % ("|" + e, tm, "|" + e), None)
            if case["key"] == "shared":
                try:
                    from textx.scoping.rrel import create_rrel_scope_provider
                    shared = create_rrel_scope_provider(e)
                    reg = {"Attr.type": shared, "Ref.target": shared}
                except Exception as ex:
                    return {"grammar": a, "registered": {"other": type(ex).__name__}}
            else:
                reg = {case["key"]: e}
            b = run(RS_GRAMMAR % ("", tm, ""), reg)
            return {"grammar": a, "registered": b}
        g_attr, g_ref = ("|" + e, "") if case["where"] == "Attr.type" else ("", "|" + e)
        # the reference attribute that is not under test keeps a fixed grammar RREL in both configurations
        fixed = "|^packages*.classes,classes"
        a = run(RS_GRAMMAR % (g_attr or fixed, tm, g_ref or fixed), None)
        b = run(RS_GRAMMAR % ("" if g_attr else fixed, tm, "" if g_ref else fixed), {case["key"]: e})
        return {"grammar": a, "registered": b}
    finally:
        shutil.rmtree(tmp, ignore_errors=True)



# --------------------------------------------------------------------------
# kind "multi": one provider object serves many references
# --------------------------------------------------------------------------
# match rule -> (split parameter | None, separator written in names)
# RAW / MIX names are written with a separator that is not the delimiter of the match rule: only a provider object
# built with that split_string (or a callable) resolves them
MATCH = {"FQN": (None, "."), "DOT": (".", "."), "PATH": ("/", "/"), "CPP": ("::", "::"), "RAW": (None, "/"),
         "MIX": ("/", ".")}
M_RULES = ("FQN: ID('.'ID)*;\nDOT[split='.']: ID('.'ID)*;\nPATH[split='/']: ID('/'ID)*;\n"
           "CPP[split='::']: ID('::'ID)*;\nRAW: ID('/'ID)*;\nMIX[split='/']: ID(('/'|'.')ID)*;\n")
M_POOLS = ["pa", "pb", "pe"]
# (no parenthesised RREL groups: the textX grammar parser needs 30-60 ms for each of them)
M_SHAPES = ["{p}.packages*.items", "^{p}.packages*.items", "^{p}.packages*.items,{q}.packages*.items",
            "{p}.packages*.items,{q}.packages*.items"]
PD_NAMES = ["d0", "d1", "d2"]


def m_expr(pool, shape):
    return M_SHAPES[shape].format(p=pool, q=M_POOLS[(M_POOLS.index(pool) + 1) % 3])


def m_grammar(case, written=None):
    """`written`: {(rule name, attr): expr} — expressions written at assignments that carry none in the case"""
    written = written or {}

    def ref(r, a):
        asg = r["attrs"][a]
        e = asg["rrel"] or written.get((r["name"], a))
        return f"[Item:{asg['m']}" + ("|" + e if e else "") + "]"

    lines = ["Model: 'pa' pa*=Package 'pb' pb*=Package 'pe' pe*=Package 'pc' pc*=Package 'pd' pd*=Item 'refs' refs*=R;",
             "Package: 'package' name=ID '{' (packages+=Package | items+=Item)* '}';", "Item: 'item' name=ID;",
             "R: " + " | ".join(r["name"] for r in case["rules"]) + ";"]
    for r in case["rules"]:
        s = f"'{r['name'].lower()}' t={ref(r, 't')}"
        if "ts" in r["attrs"]:
            s += f" ('+' ts+={ref(r, 'ts')}['&'])?"
        if "u" in r["attrs"]:
            s += f" ('@' u={ref(r, 'u')})?"
        lines.append(f"{r['name']}: {s} ';';")
    return "\n".join(lines) + "\n" + M_RULES


def m_tree_text(paths):
    def node(prefix):
        out = ""
        subs = []
        for p in paths:
            if p[:len(prefix)] == prefix and len(p) > len(prefix):
                if len(p) == len(prefix) + 1:
                    out += f"item {p[-1]} "
                elif p[len(prefix)] not in subs:
                    subs.append(p[len(prefix)])
        for sname in subs:
            out += f"package {sname} {{ " + node(prefix + [sname]) + "} "
        return out

    return node([])


def m_refs(case, step):
    """[(object index, rule, attr, j, path)] in text order"""
    out = []
    for oi, o in enumerate(step["objs"]):
        r = case["rules"][o["rule"]]
        out.append((oi, r, "t", 0, o["t"]))
        for j, p in enumerate(o.get("ts") or []):
            out.append((oi, r, "ts", j, p))
        if o.get("u"):
            out.append((oi, r, "u", 0, o["u"]))
    return out


def m_name(r, attr, path):
    return MATCH[r["attrs"][attr]["m"]][1].join(path)


def m_render(case, step):
    tree = m_tree_text(case["tree"])
    text = "".join(f"{p} {tree}\n" for p in ("pa", "pb", "pe", "pc"))
    text += "pd " + " ".join("item " + n for n in PD_NAMES) + "\nrefs\n"
    table = []
    last = None
    for (oi, r, attr, j, path) in m_refs(case, step):
        if oi != last:
            if last is not None:
                text += " ;\n"
            text += r["name"].lower() + " "
            last = oi
        elif attr == "ts":
            text += " + " if j == 0 else " & "
        else:
            text += " @ "
        name = m_name(r, attr, path)
        table.append((oi, attr, j, len(text), name))
        text += name
    if last is not None:
        text += " ;\n"
    return text, table


def m_selected(case, reg, r, attr):
    """the documented precedence for one assignment: ('g', expr) | registered value | None (default)"""
    asg = r["attrs"][attr]
    if asg["rrel"]:
        return ("g", asg["rrel"])
    for key in (f"{r['name']}.{attr}", f"*.{attr}", f"{r['name']}.*", "*.*"):
        if key in reg:
            return reg[key]
    return None


def m_call(case, sel, r, attr, name):
    """the provider call the property statement demands, in the shape of the Lean driver's answer"""
    m = MATCH[r["attrs"][attr]["m"]][0]
    if sel is None:
        return ["default"]
    if isinstance(sel, tuple):
        expr, explicit = sel[1], None
    elif "s" in sel:
        expr, explicit = sel["s"], None
    else:
        pv = case["provs"][sel["o"]]
        if "p" in pv:
            return ["user", pv["p"]]
        expr, explicit = pv["expr"], pv["split"]
    delim = explicit if explicit is not None else (m if m is not None else ".")
    return ["find", expr, delim, name.split(delim)]


def m_expected_calls(case):
    out = []
    reg = {}
    for step in case["steps"]:
        if step["reg"] is not None:
            reg = {k: v for k, v in step["reg"]}
        out.append([m_call(case, m_selected(case, reg, r, attr), r, attr, m_name(r, attr, path))
                    for (_, r, attr, _, path) in m_refs(case, step)])
    return out


def m_target(case, call, name):
    """[pool, path] the call resolves to in the generated model, None when it finds nothing"""
    tree = [list(p) for p in case["tree"]]
    if call[0] == "default":
        got = ["pd", [name]] if name in PD_NAMES else None
    elif call[0] == "user":
        parts = re.split(r"::|/|\.", name)
        got = ["pc", parts] if parts in tree else None
    else:
        got = [pool_of(call[1]), list(call[3])] if list(call[3]) in tree else None
    if got is None and conforming(case, name):
        # the provider was asked and found nothing: fall-back to the builtin of that name
        return ["builtin", [name]]
    return got


def m_check_step(case, step, calls, ob, who):
    """compare the observation of one load with a list of calls (from the oracle or from the model)"""
    refs = m_refs(case, step)
    if len(calls) != len(refs):
        return f"{who} lists {len(calls)} calls for {len(refs)} references"
    want = [m_target(case, c, m_name(r, attr, path)) for c, (_, r, attr, _, path) in zip(calls, refs)]
    if "err" in ob:
        k = ob["err"][2]
        if ob["err"][0] != "TextXSemanticError" or k is None:
            return f"load failed with {ob['err']}, {who} expects references to be looked up"
        if want[k] is not None:
            return (f"reference #{k} ({refs[k][1]['name']}.{refs[k][2]} `{m_name(refs[k][1], refs[k][2], refs[k][4])}`) "
                    f"is not resolved; {who}: {calls[k]} finds {want[k]}")
        return None
    if "ok" not in ob:
        return f"load failed: {ob}"
    for k, (c, w, got) in enumerate(zip(calls, want, ob["ok"])):
        gcalls = got[2]
        if w is None:
            return f"reference #{k} resolved to {got[:2]}; {who}: {c} finds nothing"
        if got[:2] != w or gcalls != ([c[1]] if c[0] == "user" else []):
            return (f"reference #{k} ({refs[k][1]['name']}.{refs[k][2]} `{m_name(refs[k][1], refs[k][2], refs[k][4])}`): "
                    f"{who}: {c} -> {w}; implementation: {got[:2]}, callables called {gcalls}")
    return None


def m_states(case):
    """[(registration | None, [step indices])]: maximal runs of steps under one registration"""
    out = []
    for i, step in enumerate(case["steps"]):
        if step["reg"] is not None or not out:
            out.append((step["reg"], [i]))
        else:
            out[-1][1].append(i)
    return out


def m_grammar_form(case, reg_list):
    """the same configuration with the selected RREL strings / plain RREL objects written in the grammar:
    ({(rule, attr): expr}, remaining registration list)"""
    reg = {k: v for k, v in (reg_list or [])}

    def plain(v):
        return "s" in v or ("expr" in case["provs"][v["o"]] and case["provs"][v["o"]]["split"] is None)

    written = {}
    for r in case["rules"]:
        for attr in r["attrs"]:
            sel = m_selected(case, reg, r, attr)
            if isinstance(sel, dict) and plain(sel):
                written[(r["name"], attr)] = sel["s"] if "s" in sel else case["provs"][sel["o"]]["expr"]
    rest = [[k, v] for k, v in (reg_list or []) if not plain(v)]
    return written, rest


def impl_multi(case):
    use_repo()
    from textx import get_model, metamodel_from_str
    from textx.exceptions import TextXError, TextXSemanticError
    from textx.scoping.rrel import create_rrel_scope_provider

    log = []

    def custom(tag):
        def provider(obj, attr, obj_ref):
            log.append((tag, obj_ref.position))
            parts = re.split(r"::|/|\.", obj_ref.obj_name)
            node = next((p for p in get_model(obj).pc if p.name == parts[0]), None) if len(parts) > 1 else None
            for part in parts[1:-1]:
                if node is None:
                    return None
                node = next((p for p in node.packages if p.name == part), None)
            if node is None:
                return None
            return next((it for it in node.items if it.name == parts[-1]), None)

        return provider

    def objects():
        out = []
        for pv in case["provs"]:
            if "p" in pv:
                out.append(custom(pv["p"]))
            elif pv["split"] is None:
                out.append(create_rrel_scope_provider(pv["expr"]))
            else:
                out.append(create_rrel_scope_provider(pv["expr"], split_string=pv["split"]))
        return out

    env = env_of(case)
    rule_names = [r["name"] for r in case["rules"]]

    def where(model, o):
        for key, b in (model._tx_metamodel.builtins or {}).items():
            if o is b:
                return ["builtin", [key]]
        path = []
        while True:
            path.append(o.name)
            par = o.parent
            if par is model:
                break
            o = par
        for pool in ("pa", "pb", "pe", "pc", "pd"):
            if any(o is q for q in getattr(model, pool)):
                return [pool, path[::-1]]
        return [None, path[::-1]]

    def load(mm, step):
        text, table = m_render(case, step)
        del log[:]
        try:
            model = mm.model_from_str(text)
        except TextXSemanticError as e:
            hit = [i for i, t in enumerate(table) if linecol(text, t[3]) == (e.line, e.col)]
            return {"err": [type(e).__name__, getattr(e, "err_type", None), hit[0] if hit else None], "msg": str(e)[:160]}
        except TextXError as e:
            return {"err": [type(e).__name__, getattr(e, "err_type", None), None], "msg": str(e)[:160]}
        except Exception as e:
            return {"other": type(e).__name__, "msg": str(e)[:160]}
        out = []
        for (oi, attr, j, pos, _name) in table:
            v = getattr(model.refs[oi], attr, None)
            tgt = (v[j] if isinstance(v, list) and j < len(v) else None) if attr == "ts" else v
            try:
                w = where(model, tgt)
            except Exception as e:
                w = [None, "!" + type(e).__name__]
            out.append(w + [[t for (t, p) in log if p == pos]])
        extra = len(log) - sum(len(x[2]) for x in out)
        return {"ok": out, "extra_calls": extra} if extra else {"ok": out}

    def history(grammar_of_state, reg_of_state):
        """one meta-model per call; per state `grammar_of_state` may demand a new one (grammar form)"""
        obs = [None] * len(case["steps"])
        mm, objs = None, None
        for si, (reg_list, idxs) in enumerate(m_states(case)):
            g = grammar_of_state(si, reg_list)
            if g is not None:
                mm = metamodel_from_str(g, **mm_kwargs(env, "Item", rule_names))
                fill_builtins(mm, env, "Item", "Package")
                objs = objects()
            rl = reg_of_state(si, reg_list)
            if rl is not None:
                mm.register_scope_providers({k: (v["s"] if "s" in v else objs[v["o"]]) for k, v in rl})
            for i in idxs:
                obs[i] = load(mm, case["steps"][i])
        return obs

    try:
        registered = history(lambda si, rl: m_grammar(case) if si == 0 else None, lambda si, rl: rl)
        forms = [m_grammar_form(case, rl) for rl, _ in m_states(case)]
        if all(not w for w, _ in forms):
            grammar = "same"  # nothing to write in the grammar: the two configurations are one
        else:
            grammar = history(lambda si, rl: m_grammar(case, forms[si][0]),
                              lambda si, rl: None if rl is None else forms[si][1])
    except TextXError as e:
        return {"outcome": "mm-error", "cls": type(e).__name__, "msg": str(e)[:200]}
    except Exception as e:
        return {"outcome": "mm-other", "cls": type(e).__name__, "msg": str(e)[:200]}
    return {"outcome": "ok", "registered": registered, "grammar": grammar}


def m_strip(ob):
    return {k: v for k, v in ob.items() if k != "msg"} if isinstance(ob, dict) else ob


# --------------------------------------------------------------------------
class Prop(Check):
    ID = "C32"
    LEAN_MODULE = "TextxVerif.Props.C32"
    THEOREMS = [
        "Select.C32_keys",
        "Select.C32_precedence",
        "Select.C32_first_registered",
        "Select.C32_frame",
        "Select.C32_grammar_rrel",
        "Select.C32_rrel_string_same",
        "Select.C32_object_kept",
        "Select.C32_occurrence",
        "Select.C32_lastwins_false",
        "Select.C32_rrel_call",
        "Select.C32_rrel_string_same_call",
        "Select.C32_shared_object",
        "Select.C32_call_stateless",
        "Select.C32_history",
        "Select.C32_reregister",
        "Select.C32_perm_indep",
        "Select.C32_perm_indep_call",
        "Select.C32_perm_indep_history",
        "Select.C32_perm_dupkeys_false",
        "Select.C32_visit_repaired",
        "Select.C32_visit_pinned",
        "Select.C32_visit_pinned_false",
        "Select.C32_rrel_string_same_answer",
        "Select.C32_provider_asked",
        "Select.C32_answer_wins",
        "Select.C32_builtin_fallback",
        "Select.C32_no_fallthrough",
        "Select.C32_passes_same_provider",
        "Select.C32_calls_env_indep",
        "Select.C32_builtin_first_false",
    ]
    DRIVER = "Drivers/Select.lean"
    QUICK_CASES = 576
    THOROUGH_CASES = 4000
    PROCS_THOROUGH = 4  # shared machine while the framework is being built
    RULE = ("select: complete enumeration of the 2^4 subsets of {Rule.attr, *.attr, Rule.*, *.*} x {no grammar RREL, "
            "grammar RREL} x {single, list attribute} x {provider objects, RREL strings} (128 cases, first in every run), "
            "then random grammars with 1..3 reference rules, 1..2 alternatives assigning t / ts(list) / u, random "
            "registration dictionaries over 30+ keys (incl. keys of other / base rules) bound to provider objects or RREL "
            "strings; rrelsame: 18 RREL expressions (flags +m +p, ^, .., ~, fixed names, sequences) written in the grammar vs "
            "registered as string under one of the four keys — or, for both reference attributes at once (two match rules, "
            "FQN and PATH[split='/']), under '*.*' / as one provider object under two keys —, random package trees, one or "
            "two files; multi (one provider serves many references): complete enumeration of the ordered pairs of match "
            "rules with different delimiters x {'*.*', '*.attr' over two rules, 'Rule.*' over two attributes, one object "
            "under two keys, two models of one meta-model} x {RREL string, provider object} (90 cases), then random "
            "histories of one meta-model: 1..3 steps of (re-)registration and model load, 1..3 rules with t / ts(list) / u, "
            "every assignment with its own match rule (no split parameter, '.', '/', '::', '/'-separated without "
            "parameter), names of 2..3 parts, values = RREL strings, RREL provider objects with / without split_string, "
            "callables, one object bound to several keys; re-registrations that take keys away: the empty dictionary, a "
            "sub-dictionary of the registration in force, the same keys bound to other values.  histories of one "
            "meta-model over the key subsets (16 cases, complete): all 16 x 16 ordered pairs (subset in force -> subset "
            "registered next) of the subsets of {Rule.attr, *.attr, Rule.*, *.*} as consecutive registrations, each "
            "followed by a model load, focus on single / list attributes of two rules, some assignments with a grammar "
            "RREL.  env (configuration of the meta-model around the provider "
            "call): complete enumeration of the 2^4 subsets x grammar RREL y/n x single / list attribute in a meta-model "
            "with builtins {x: defined in the model too, w: builtin only, y: non-conforming class} while "
            "textx_tools_support, user classes, auto_init_attributes and a postponing provider rotate (64 cases); half of "
            "the random select cases and 45 % of the random multi cases get a random env (builtins over the names the "
            "references write, conforming / other rule's class / foreign object; tools; user classes for target / "
            "referring rules; custom providers answering Postponed() first; 20 % names no pool holds).  non-trivial = some "
            "reference has at least two of the four keys registered or a grammar RREL together with a registered key "
            "(select), or both configurations resolve at least one reference (rrelsame), or one registered expression is asked "
            "with two delimiters or in two models (multi)")
    MODELLED = ("regenerated each run (tie T): order of the lookup keys (Gen.providerOrder from the `attr_refs` list expression, "
                "ast); hand-modelled (tie X): the for/else lookup loop and the crossref.scope_provider test of "
                "resolve_one_step (Select.select), register_scope_providers' string conversion (Select.register), RREL per "
                "assignment: the per-attribute and per-assignment slots visit_assignment fills and the getattr read of "
                "process_node (Select.visit / refRrel, proved equal to Select.occRrel), the delimiter deduction of RREL.__call__ and the name split of "
                "find_object_with_path per call (Select.RrelObj.call / callOf), register_scope_providers replacing the "
                "dictionary in a history of loads (Select.run), the body of the resolve loop around the provider call: "
                "nothing precedes the call, builtins fall-back block for None, Unknown-object error, Postponed -> next pass "
                "(Select.resolveRef / resolvePasses); not exhibited: what the selected provider then computes (RREL evaluation is "
                "C11/C12), ModelLoader side effects of registered +m providers on files without references")
    ASSUMPTIONS = [
        "the RREL parser used for registered strings (rrel.parse) and the RREL sub-grammar used inside textX grammars "
        "build the same tree for the same text (`parse` is one function in the model); exercised by the rrelsame cases",
        "obj.__class__.__name__ is the name of the rule that created the object (user classes keep the rule name)",
        "Python's str.split(sep) and Lean's String.splitOn agree for the non-empty separators used ('.', '/', '::'); "
        "exercised by every multi case",
    ]

    @staticmethod
    def TRANSLATE():
        translate()

    # ---------------------------------------------------------------- generation
    def gen(self, rng, n, tier):
        out = []
        # complete enumeration for one reference (first in every run)
        for listattr in (False, True):
            for grammar_rrel in (None, "pe"):
                for strings in (False, True):
                    for mask in range(16):
                        attr = "ts" if listattr else "t"
                        keys = [f"R1.{attr}", f"*.{attr}", "R1.*", "*.*"]
                        reg = []
                        for b in range(4):
                            if mask >> b & 1:
                                reg.append([keys[b], {"s": ["pa", "", "^pb", ""][b]} if strings and b % 2 == 0
                                            else {"p": b}])
                        # precedence is by key, not by insertion order of the dict (C32_perm_indep): the
                        # enumeration registers the same entries in varying orders
                        if (mask + strings + listattr) % 3 == 1:
                            reg.reverse()
                        elif (mask + strings + listattr) % 3 == 2:
                            reg = reg[1:] + reg[:1]
                        alt = {"t": None, "ts": None}
                        alt[attr] = grammar_rrel
                        out.append({"kind": "select", "rules": [{"name": "R1", "alts": [alt]}], "reg": reg,
                                    "objs": [{"rule": 0, "alt": 0, "t": "x", "ts": ["y", "x"]}], "origin": "enum"})
        out += self.enum_env()
        out += self.enum_multi()
        out += self.enum_history()
        m = max(0, n - len(out))
        n_same = m // 5
        n_multi = m // 4
        for _ in range(m - n_same - n_multi):
            out.append(self.gen_select(rng))
        for _ in range(n_same):
            out.append(self.gen_rrelsame(rng))
        for _ in range(n_multi):
            out.append(self.gen_multi(rng))
        return out

    def enum_env(self):
        """the same 2^4 subsets x grammar RREL y/n x single / list attribute in a meta-model created with builtins:
        `x` is defined in the model AND a builtin (the model's object must win), `w` is a builtin only (the provider is
        asked first and finds nothing), `y` is a builtin of a non-conforming class; the other constructor options
        (textx_tools_support, user classes, auto_init_attributes) and a postponing provider rotate over the cases"""
        out = []
        for listattr in (False, True):
            for grammar_rrel in (None, "pe"):
                for mask in range(16):
                    attr = "ts" if listattr else "t"
                    keys = [f"R1.{attr}", f"*.{attr}", "R1.*", "*.*"]
                    k = mask + 16 * listattr + 32 * (grammar_rrel is not None)
                    reg = []
                    for b in range(4):
                        if mask >> b & 1:
                            reg.append([keys[b], {"s": ["pa", "", "^pb", ""][b]} if (k // 3) % 2 and b % 2 == 0
                                        else {"p": b}])
                    if k % 3 == 1:
                        reg.reverse()
                    alt = {"t": None, "ts": None}
                    alt[attr] = grammar_rrel
                    env = {"builtins": [["x", "A"], ["w", "A"], ["y", ["R", "py"][k % 2]]],
                           "tools": k % 4 == 1, "classes": ["none", "target", "refs", "both"][(k // 2) % 4],
                           "postpone": [b for b in range(4) if (k + b) % 5 == 0], "auto_init": k % 7 != 3}
                    out.append({"kind": "select", "rules": [{"name": "R1", "alts": [alt]}], "reg": reg, "env": env,
                                "objs": [{"rule": 0, "alt": 0, "t": ["x", "w"][k % 2], "ts": ["y", "w", "x"]}],
                                "origin": "enum-env"})
        return out

    def gen_env(self, rng, tags, names):
        """random configuration of the meta-model; `names` = candidates for builtin keys"""
        env = {"builtins": [], "tools": rng.chance(0.3), "classes": rng.weighted([("none", 5), ("target", 2),
                                                                                 ("refs", 2), ("both", 2)]),
               "postpone": [t for t in tags if rng.chance(0.25)], "auto_init": not rng.chance(0.15)}
        if rng.chance(0.8):
            for nm in names:
                if rng.chance(0.5):
                    env["builtins"].append([nm, rng.weighted([("A", 6), ("R", 1), ("py", 1)])])
        return env

    def enum_multi(self):
        """one provider, two match rules with different delimiters: every ordered pair of match rules x the ways one
        provider comes to serve two references (wildcard key over two rules / two attributes of one rule, one object
        bound to two keys, a second model of the same meta-model) x string / provider object"""
        out = []
        tree = [["a", "b", "x"], ["a", "b", "y"], ["a", "z"], ["c", "x"]]
        ms = ["FQN", "PATH", "CPP", "DOT"]
        k = 0
        for m1 in ms:
            for m2 in ms:
                if (MATCH[m1][0] or ".") == (MATCH[m2][0] or "."):
                    continue
                for how in ("*.*", "*.t", "R1.*", "two-keys", "two-models"):
                    for obj in (False, True):
                        if how == "two-keys" and not obj:
                            continue
                        k += 1
                        expr = m_expr(M_POOLS[k % 3], k % 3)
                        val = {"o": 0} if obj else {"s": expr}
                        provs = [{"expr": expr, "split": None}] if obj else []
                        one = how in ("R1.*", "two-models")
                        if how == "R1.*":
                            rules = [{"name": "R1", "attrs": {"t": {"m": m1, "rrel": None}, "u": {"m": m2, "rrel": None}}}]
                            objs = [[{"rule": 0, "t": tree[k % 4], "u": tree[(k + 1) % 4]}]]
                        else:
                            rules = [{"name": "R1", "attrs": {"t": {"m": m1, "rrel": None}}},
                                     {"name": "R2", "attrs": {"t": {"m": m2, "rrel": None}}}]
                            o1, o2 = {"rule": 0, "t": tree[k % 4]}, {"rule": 1, "t": tree[(k + 1) % 4]}
                            objs = [[o1], [o2]] if how == "two-models" else [[o1, o2]]
                        keys = {"two-keys": ["R1.t", "R2.t"], "two-models": ["*.*"]}.get(how, [how])
                        steps = [{"reg": [[key, val] for key in keys] if i == 0 else None, "objs": os_}
                                 for i, os_ in enumerate(objs)]
                        case = {"kind": "multi", "tree": tree, "rules": rules, "provs": provs, "steps": steps,
                                "origin": "enum-multi"}
                        if k % 3 == 0:
                            # every third one in a meta-model whose builtins hold the names the references write
                            names = [m_name(r, attr, path) for st in steps for (_, r, attr, _, path) in m_refs(case, st)]
                            case["env"] = {"builtins": [[nm, "A"] for nm in dict.fromkeys(names)], "tools": k % 2 == 0,
                                           "classes": ["none", "target", "refs", "both"][(k // 3) % 4]}
                        out.append(case)
        return out

    def enum_history(self):
        """histories of ONE meta-model over the key subsets: `register_scope_providers` replaces the registry, so after
        every registration the *current* subset decides.  All 16 x 16 ordered pairs (previous subset -> next subset) of
        the subsets of the four documented keys occur as consecutive registrations (a de Bruijn sequence of order 2 over
        the 16 subsets, cut into 16 histories of 17 registrations + model loads): in particular every non-empty subset
        is followed by the empty dictionary (the only way back to the default provider), every subset by each of its
        subsets / supersets / disjoint ones and by itself.  The focus (rule, attribute) the four keys are written for
        rotates over single / list attributes of two rules; the other assignments see some of the keys, one carries a
        grammar RREL.  Values rotate: callables, RREL strings, RREL provider objects; which key holds which value
        changes along the history (same keys, other values)."""
        seq = []
        for a in range(16):  # Lyndon words of length 1 and 2 in order = de Bruijn sequence B(16, 2)
            seq.append(a)
            for b in range(a + 1, 16):
                seq += [a, b]
        walk = seq + [seq[0]]
        tree = [["a", "b", "x"], ["a", "b", "y"], ["a", "z"], ["c", "x"]]
        out = []
        for c in range(16):
            masks = walk[16 * c:16 * c + 17]
            fr, fa = c % 2, ATTRS[(c // 2) % 3]
            # grammar RRELs (never affected by any registration): the other rule's `u`, and in half of the histories
            # an assignment of the focus rule that the keys `Rule.*` / `*.*` would serve otherwise
            grr = [(1 - fr, "u")] + ([(fr, "u")] if fa != "u" and c % 4 in (1, 2) else [])
            rules = []
            for ri, ms in enumerate((("FQN", "PATH", "DOT"), ("CPP", "FQN", "PATH"))):
                rules.append({"name": f"R{ri + 1}", "attrs": {
                    a: {"m": m, "rrel": m_expr("pb", 1) if (ri, a) in grr else None} for a, m in zip(ATTRS, ms)}})
            rn = rules[fr]["name"]
            keys = [f"{rn}.{fa}", f"*.{fa}", f"{rn}.*", "*.*"]
            # (twelve of the histories with callables only: a history whose registrations select RREL strings / plain RREL
            # objects is run a second time with one fresh grammar-form meta-model per registration, ~10 ms each)
            variant = {1: 1, 6: 2, 8: 3, 15: 1}.get(c, 0)
            if variant == 0:
                provs = [{"p": i} for i in range(4)]
                vals = [{"o": i} for i in range(4)]
            elif variant == 1:
                provs = [{"p": 1}, {"p": 3}]
                vals = [{"s": m_expr("pa", 0)}, {"o": 0}, {"s": m_expr("pe", 1)}, {"o": 1}]
            elif variant == 2:
                provs = [{"expr": m_expr("pa", 1), "split": None}, {"p": 1}, {"expr": m_expr("pe", 0), "split": None}]
                vals = [{"o": 0}, {"o": 1}, {"o": 2}, {"s": m_expr("pb", 0)}]
            else:
                provs = [{"p": 0}, {"expr": m_expr("pa", 0), "split": None}]
                vals = [{"o": 0}, {"s": m_expr("pb", 1)}, {"o": 1}, {"s": m_expr("pe", 0)}]
            steps = []
            for j, mask in enumerate(masks):
                shift = (j // 3) % 4
                reg_list = [[keys[b], vals[(b + shift) % 4]] for b in range(4) if mask >> b & 1]
                if (j + c) % 3 == 1:
                    reg_list.reverse()
                reg = {k: v for k, v in reg_list}

                def name_for(ri, attr, q):
                    r = rules[ri]
                    if not r["attrs"][attr]["rrel"] and m_selected({"provs": provs}, reg, r, attr) is None:
                        return [PD_NAMES[q % 3]]
                    return tree[q % 4]

                objs = []
                for ri in ((fr, 1 - fr) if j % 2 == 0 else (fr,)):
                    q = j + c + ri
                    o = {"rule": ri, "t": name_for(ri, "t", q)}
                    if ri == fr or j % 4 == 0:
                        o["ts"] = [name_for(ri, "ts", q + 1 + i) for i in range(2 if ri == fr else 1)]
                        o["u"] = name_for(ri, "u", q + 3)
                    objs.append(o)
                steps.append({"reg": reg_list, "objs": objs})
            out.append({"kind": "multi", "tree": tree, "rules": rules, "provs": provs, "steps": steps,
                        "origin": "enum-history"})
        return out

    def gen_select(self, rng):
        nrules = rng.weighted([(1, 2), (2, 4), (3, 3)])
        rules = []
        for i in range(nrules):
            alts = []
            for _ in range(rng.weighted([(1, 3), (2, 2)])):
                alt = {"t": rng.choice(RRELS) if rng.chance(0.25) else None}
                if rng.chance(0.7):
                    alt["ts"] = rng.choice(RRELS) if rng.chance(0.25) else None
                if rng.chance(0.4):
                    alt["u"] = rng.choice(RRELS) if rng.chance(0.25) else None
                alts.append(alt)
            rules.append({"name": f"R{i + 1}", "alts": alts})
        universe = ["*.*"]
        for r in ["R1", "R2", "R3", "R", "R9", "Model", "A", "r1"]:
            universe.append(r + ".*")
            for a in ATTRS + ["refs", "name", "T"]:
                universe.append(f"{r}.{a}")
        for a in ATTRS + ["zz", "name"]:
            universe.append("*." + a)
        dens = rng.choice([0.08, 0.2, 0.45])
        reg = []
        tag = 0
        for k in universe:
            relevant = k.split(".")[0] in ("*", "R1", "R2", "R3") and k.split(".")[1] in ("*", "t", "ts", "u")
            if rng.chance(dens if relevant else dens / 3):
                if rng.chance(0.3):
                    reg.append([k, {"s": rng.choice(RRELS)}])
                else:
                    reg.append([k, {"p": tag}])
                    tag += 1
        reg = rng.shuffle(reg)
        objs = []
        for _ in range(rng.randint(1, 5)):
            ri = rng.below(nrules)
            ai = rng.below(len(rules[ri]["alts"]))
            alt = rules[ri]["alts"][ai]
            o = {"rule": ri, "alt": ai, "t": rng.choice(NAMES)}
            if "ts" in alt and rng.chance(0.8):
                o["ts"] = [rng.choice(NAMES) for _ in range(rng.randint(1, 3))]
            if "u" in alt and rng.chance(0.8):
                o["u"] = rng.choice(NAMES)
            objs.append(o)
        case = {"kind": "select", "rules": rules, "reg": reg, "objs": objs}
        if rng.chance(0.5):
            # the configuration around the provider call: builtins (names the model defines, too, and names it does
            # not), constructor options, postponing providers; some references to names no pool holds
            case["env"] = self.gen_env(rng, list(range(tag)), NAMES + GHOSTS)
            okb = [k for k, kind in case["env"]["builtins"] if kind == "A" and k in GHOSTS]

            def ghost(name):
                if rng.chance(0.2):
                    return rng.choice(okb) if okb and rng.chance(0.85) else rng.choice(GHOSTS)
                return name

            for o in objs:
                o["t"] = ghost(o["t"])
                if o.get("ts"):
                    o["ts"] = [ghost(x) for x in o["ts"]]
                if o.get("u"):
                    o["u"] = ghost(o["u"])
        return case

    def gen_multi(self, rng):
        tops, subs, items = ["a", "c"], ["b", "c"], ["x", "y", "z"]
        tree = []
        for _ in range(rng.randint(3, 6)):
            p = [rng.choice(tops)] + ([rng.choice(subs)] if rng.chance(0.55) else []) + [rng.choice(items)]
            if p not in tree:
                tree.append(p)
        mnames = list(MATCH)
        mweights = [(m, 1 if m in ("RAW", "MIX") else 4) for m in mnames]
        nrules = rng.weighted([(1, 3), (2, 4), (3, 2)])
        rules = []

        def some_expr():
            return m_expr(rng.choice(M_POOLS), rng.weighted([(0, 4), (1, 3), (2, 2), (3, 2)]))

        for i in range(nrules):
            attrs = {}
            for a, pr in (("t", 1.0), ("ts", 0.6), ("u", 0.55)):
                if rng.chance(pr):
                    # RAW / MIX (resolvable by few providers only) for the optional attributes
                    attrs[a] = {"m": rng.weighted(mweights if a != "t" else mweights[:4]),
                                "rrel": some_expr() if rng.chance(0.15) else None}
            rules.append({"name": f"R{i + 1}", "attrs": attrs})
        provs = []
        for i in range(rng.randint(0, 3)):
            kind = rng.weighted([("plain", 6), ("split", 2), ("callable", 3)])
            if kind == "callable":
                provs.append({"p": i})
            else:
                provs.append({"expr": some_expr(), "split": rng.choice([".", "/", "::"]) if kind == "split" else None})
        universe = ["*.*"] + [r["name"] + ".*" for r in rules] + ["*." + a for a in ATTRS]
        universe += [f"{r['name']}.{a}" for r in rules for a in ATTRS]
        other = ["R9.*", "R.t", "Model.refs", "*.zz", "Item.name", "r1.t"]

        def some_reg():
            dens = rng.choice([0.12, 0.3, 0.5])
            reg = []
            for key in universe + other:
                if rng.chance(dens if key in universe else dens / 3):
                    if provs and rng.chance(0.55):
                        reg.append([key, {"o": rng.below(len(provs))}])
                    else:
                        reg.append([key, {"s": some_expr()}])
            if not reg and rng.chance(0.7):
                reg.append(["*.*", {"o": 0} if provs and rng.chance(0.5) else {"s": some_expr()}])
            return rng.shuffle(reg)

        steps = []
        reg = {}
        for si in range(rng.weighted([(1, 3), (2, 4), (3, 2)])):
            new = some_reg() if (si == 0 and rng.chance(0.93)) or (si > 0 and rng.chance(0.35)) else None
            # re-registrations that take something away again (register_scope_providers replaces the registry): the
            # empty dictionary = back to the default provider, a sub-dictionary of the registration in force, the same
            # keys bound to other values; and the empty dictionary as the very first registration
            how = rng.weighted([("keep", 5), ("empty", 2), ("sub", 2), ("rebind", 1)])
            if si > 0 and reg and how != "keep":
                cur = [[k, v] for k, v in reg.items()]
                if how == "empty":
                    new = []
                elif how == "sub":
                    new = [e for e in cur if rng.chance(0.5)]
                else:
                    vs = [v for _, v in cur]
                    new = rng.shuffle([[k, vs[(i + 1) % len(vs)]] for i, (k, _) in enumerate(cur)])
            elif si == 0 and new is None and how == "empty":
                new = []
            if new is not None:
                reg = {k: v for k, v in new}

            def name_for(r, attr):
                if rng.chance(0.015):
                    return [rng.choice(tops), "q"]
                if not r["attrs"][attr]["rrel"] and m_selected({"provs": provs}, reg, r, attr) is None:
                    return [rng.choice(PD_NAMES)]
                return rng.choice(tree)

            def finds(r, attr):
                # does the provider of this assignment split names the way its match rule writes them?
                sel = m_selected({"provs": provs}, reg, r, attr)
                call = m_call({"provs": provs}, sel, r, attr, m_name(r, attr, ["a", "x"]))
                return call[0] != "find" or call[3] == ["a", "x"]

            objs = []
            for _ in range(rng.randint(1, 4)):
                ri = rng.below(nrules)
                if not finds(rules[ri], "t") and rng.chance(0.8):
                    ri = rng.below(nrules)
                r = rules[ri]
                o = {"rule": ri, "t": name_for(r, "t")}
                if "ts" in r["attrs"] and rng.chance(0.75 if finds(r, "ts") else 0.12):
                    o["ts"] = [name_for(r, "ts") for _ in range(rng.randint(1, 3))]
                if "u" in r["attrs"] and rng.chance(0.75 if finds(r, "u") else 0.12):
                    o["u"] = name_for(r, "u")
                objs.append(o)
            steps.append({"reg": new, "objs": objs})
        case = {"kind": "multi", "tree": tree, "rules": rules, "provs": provs, "steps": steps}
        if rng.chance(0.45):
            # a meta-model with builtins: keys = names as the references write them (resolvable ones, which the
            # provider must still answer, and wrongly split / unknown ones, for which the builtin is the fall-back)
            written = []
            for st in steps:
                for (_, r, attr, _, path) in m_refs(case, st):
                    nm = m_name(r, attr, path)
                    if nm not in written:
                        written.append(nm)
            case["env"] = dict(self.gen_env(rng, [], written), postpone=[])
        return case

    def gen_rrelsame(self, rng):
        cnames = ["A", "B", "C"]
        pnames = ["p1", "p2", "q"]
        classes_fqn = []

        def tree(depth, prefix, own):
            node = {"packages": [], "classes": []}
            for c in rng.sample(cnames, rng.randint(0 if depth == 0 else 1, 2)):
                node["classes"].append({"name": c, "attrs": []})
                own.append(prefix + [c])
            if depth < 2:
                for p in rng.sample(pnames, rng.randint(1 if depth == 0 else 0, 2)):
                    sub = tree(depth + 1, prefix + [p], own)
                    sub["name"] = p
                    node["packages"].append(sub)
            return node

        main_fqn, lib_fqn = [], []
        main = tree(0, [], main_fqn)
        lib = tree(0, [], lib_fqn) if rng.chance(0.35) else None
        classes_fqn = main_fqn + lib_fqn

        # `both`: one provider serves Attr.type and Ref.target; mostly expressions that search the whole model and
        # names written in full, so that most references resolve and a wrongly split name shows
        where = rng.choice(["Attr.type", "Ref.target", "both"])
        expr = rng.choice(RS_EXPRS)
        full = where == "both" and rng.chance(0.85)
        if full:
            expr = rng.choice([e for e in RS_EXPRS if "packages*.classes" in e and "'A'" not in e])
        reachable = classes_fqn if "m:" in expr or "+m" in expr else main_fqn

        def some_name():
            if full and reachable and not rng.chance(0.03):
                return ".".join(rng.choice(reachable))
            if not classes_fqn or rng.chance(0.08):
                return rng.choice(["Z", "p1.Z", "q.A.B"])
            f = rng.choice(classes_fqn)
            k = rng.weighted([(len(f), 5), (1, 3), (max(1, len(f) - 1), 2)])
            return ".".join(f[-k:])

        def fill(node):
            for c in node["classes"]:
                for i in range(rng.randint(0, 2)):
                    c["attrs"].append({"name": f"a{i}", "type": some_name() if rng.chance(0.6) else None})
            for p in node["packages"]:
                fill(p)

        fill(main)
        if lib:
            fill(lib)
        if where == "both":
            key = rng.choice(["*.*", "shared"])
        else:
            rule, attr = where.split(".")
            key = rng.choice([where, "*." + attr, rule + ".*", "*.*"])
        tsplit = "/" if rng.chance(0.6 if where == "both" else 0.3) else None
        refs = [some_name() for _ in range(rng.randint(1 if where == "both" else 0, 3))]
        if where == "both" and not any(a.get("type") for a in all_attrs(main)):
            main["classes"].append({"name": "T", "attrs": [{"name": "a0", "type": some_name()}]})
        if lib:
            # reading: the property speaks about references.  A registered `+m:` provider is a ModelLoader for every
            # model, a grammar RREL only loads imports of models that hold such a reference; keep one in the main file.
            if where != "Attr.type" and not refs:
                refs = [some_name()]
            if where != "Ref.target" and not any(a.get("type") for a in all_attrs(main)):
                main["classes"].append({"name": "T", "attrs": [{"name": "a0", "type": some_name()}]})
        return {"kind": "rrelsame", "expr": expr, "where": where, "key": key, "main": main, "lib": lib,
                "refs": refs, "tsplit": tsplit}

    # ---------------------------------------------------------------- implementation
    def impl(self, case):
        if case["kind"] == "select":
            return impl_select(case)
        if case["kind"] == "multi":
            return impl_multi(case)
        return impl_rrelsame(case)

    # ---------------------------------------------------------------- model
    def model_req(self, case, obs):
        # one request per case is what the runner supports: the first reference whose registration pattern is the
        # richest; all references are covered by `oracle`, the model by the enumeration + the random cases
        if case["kind"] == "rrelsame" and case["where"] == "both":
            reg = ([["Attr.type", {"o": 0}], ["Ref.target", {"o": 0}]] if case["key"] == "shared"
                   else [[case["key"], {"s": case["expr"]}]])
            name = ((case["refs"] or ["A"])[0]).replace(".", "/" if case.get("tsplit") else ".")
            return {"op": "calls", "provs": [{"expr": case["expr"], "split": None}], "steps": [{"reg": reg, "refs": [
                {"cls": "Attr", "attr": "type", "g": None, "name": "p1.A", "split": None},
                {"cls": "Ref", "attr": "target", "g": None, "name": name, "split": case.get("tsplit")}]}]}
        if case["kind"] == "rrelsame":
            rule, attr = case["where"].split(".")
            return {"op": "select", "cls": rule, "attr": attr, "occs": [[attr, None]], "i": 0,
                    "reg": [[case["key"], {"s": case["expr"]}]]}
        if case["kind"] == "multi":
            if obs.get("outcome") != "ok":
                return None
            steps = []
            for step in case["steps"]:
                steps.append({"reg": step["reg"], "refs": [
                    {"cls": r["name"], "attr": attr, "g": r["attrs"][attr]["rrel"], "name": m_name(r, attr, path),
                     "split": MATCH[r["attrs"][attr]["m"]][0]} for (_, r, attr, _, path) in m_refs(case, step)]})
            return {"op": "calls", "provs": case["provs"], "steps": steps}
        k = self.pick_ref(case, obs)
        o, attr = self.ref_list(case)[k]
        r = case["rules"][o["rule"]]
        occs = rule_occs(r)
        i = next(i for i, (ak, a, _) in enumerate(occs) if ak == o["alt"] and a == attr)
        env = env_of(case)
        name = select_names(case)[k]
        # one reference through the passes of resolve_one_step (op `resolve`: selection + what surrounds the call)
        return {"op": "resolve", "cls": r["name"], "attr": attr, "occs": [[a, rr] for (_, a, rr) in occs], "i": i,
                "reg": case["reg"], "name": name, "found": name in NAMES,
                "postpone": [] if k == len(select_names(case)) - 1 else env["postpone"], "passes": 2,
                "builtins": [[key, kind == "A"] for key, kind in env["builtins"]]}

    def ref_list(self, case):
        out = []
        for o in case["objs"]:
            for attr in ATTRS:
                n = 1 if attr == "t" else (len(o.get("ts") or []) if attr == "ts" else (1 if o.get("u") else 0))
                out += [(o, attr)] * n
        return out

    def pick_ref(self, case, obs=None):
        refs = self.ref_list(case)
        keys = {k for k, _ in case["reg"]}
        # a load that failed shows one reference only: the one the error is reported at
        if obs is not None and obs.get("outcome") == "error" and obs.get("ref") is not None and obs["ref"] < len(refs):
            return obs["ref"]

        def score(k):
            o, attr = refs[k]
            name = case["rules"][o["rule"]]["name"]
            return sum(1 for key in (f"{name}.{attr}", f"*.{attr}", f"{name}.*", "*.*") if key in keys)

        return max(range(len(refs)), key=lambda k: (score(k), -k))

    def compare(self, case, obs, out):
        if "err" in out:
            return f"model rejected the request: {out}"
        if case["kind"] == "multi":
            if len(out["calls"]) != len(case["steps"]):
                return f"model answers {len(out['calls'])} steps"
            for i, step in enumerate(case["steps"]):
                d = m_check_step(case, step, out["calls"][i], obs["registered"][i], "model")
                if d:
                    return f"model {i + 1}: {d}"
            return None
        if case["kind"] == "rrelsame" and case["where"] == "both":
            sep = case.get("tsplit") or "."
            name = ((case["refs"] or ["A"])[0]).replace(".", sep)
            want = [[["find", case["expr"], ".", ["p1", "A"]], ["find", case["expr"], sep, name.split(sep)]]]
            if out.get("calls") != want:
                return f"model: calls {out.get('calls')} for one provider serving Attr.type (FQN) and Ref.target, expected {want}"
            return None
        prov = out["prov"]
        if case["kind"] == "rrelsame":
            if prov != ["rrel", case["expr"]]:
                return f"model selects {prov} for the registered string"
            return None
        if obs["outcome"] not in ("ok", "error"):
            return f"implementation did not load: {obs}"
        k = self.pick_ref(case, obs)
        name = select_names(case)[k]
        # the model's trace for this reference, in the shape of `demanded`
        calls = [c[1] for c in out["calls"] if c[0] == "custom"]
        if any(c != prov for c in out["calls"]) or not out["calls"]:
            return f"reference #{k}: model selects {prov} but lists the calls {out['calls']}"
        res = out["result"]
        if res[0] == "bound":
            origin = res[1]
            if origin.startswith("builtin:"):
                dem = (calls, ("bound", origin, False))
            elif origin.startswith("custom:"):
                dem = (calls, ("bound", "pc", False))
            elif origin.startswith("rrel:"):
                dem = (calls, ("bound", pool_of(origin[5:]), False))
            else:
                dem = (calls, ("bound", "pd", True))
        elif res[0] == "unknown":
            dem = (calls, ("unknown",))
        else:
            return f"reference #{k}: model leaves the reference delayed after two passes: {out}"
        if obs["outcome"] == "error":
            if obs.get("ref") is None:
                return f"implementation did not load: {obs}"
            if dem[1][0] != "unknown" or not obs.get("unknown") or obs.get("custom") != calls:
                return (f"reference #{k} `{name}`: model: calls {out['calls']}, result {res}; implementation fails there "
                        f"with err_type {obs.get('err_type')!r} after asking custom providers {obs.get('custom')}")
            return None
        ref = obs["refs"][k] if k < len(obs["refs"]) else None
        if ref is None or dem[1][0] == "unknown" or not shown(dem, ref):
            return (f"reference #{k} `{name}`: model: calls {out['calls']}, result {res}; implementation called "
                    f"{describe(ref) if ref else None}")
        return None

    # ---------------------------------------------------------------- oracle
    def oracle(self, case, obs):
        if case["kind"] == "rrelsame":
            if obs["grammar"] != obs["registered"]:
                return (f"RREL `{case['expr']}` written in the grammar gives {obs['grammar']} but registered as a string "
                        f"under {case['key']} gives {obs['registered']}")
            return None
        if case["kind"] == "multi":
            if obs["outcome"] != "ok":
                return f"meta-model / registration failed: {obs}"
            exp = m_expected_calls(case)
            for i, step in enumerate(case["steps"]):
                ob = obs["registered"][i]
                d = m_check_step(case, step, exp[i], ob, "the documented precedence gives")
                if d:
                    return f"model {i + 1} of {len(case['steps'])}: {d}"
                if ob.get("extra_calls"):
                    return f"model {i + 1}: {ob['extra_calls']} provider call(s) for positions that hold no reference"
                if obs["grammar"] != "same" and m_strip(obs["grammar"][i]) != m_strip(ob):
                    return (f"model {i + 1}: registered RREL strings / provider objects give {m_strip(ob)}, the same "
                            f"expressions written in the grammar give {m_strip(obs['grammar'][i])}")
            return None
        if obs["outcome"] not in ("ok", "error"):
            return f"model does not load: {obs}"
        exp = expected_select(case)
        names = select_names(case)
        d = check_select(case, obs, [demanded(case, e, n, k == len(exp) - 1) for k, (e, n) in enumerate(zip(exp, names))],
                         "the documented precedence says:")
        if d:
            return d
        if obs.get("extra_calls"):
            return f"{obs['extra_calls']} provider call(s) for positions that hold no reference"
        return None

    def nontrivial(self, case, obs):
        if case["kind"] == "rrelsame":
            a, b = obs["grammar"], obs["registered"]
            return "ok" in a and "ok" in b and len(a["ok"]) > 0
        if case["kind"] == "multi":
            # some registered value (one provider) is asked with two different delimiters, or in two models
            seen = {}
            for si, (step, calls) in enumerate(zip(case["steps"], m_expected_calls(case))):
                for c, (_, r, attr, _, _) in zip(calls, m_refs(case, step)):
                    if c[0] == "find" and not r["attrs"][attr]["rrel"]:
                        seen.setdefault(c[1], set()).add((c[2], si))
            return any(len(v) > 1 for v in seen.values())
        keys = {k for k, _ in case["reg"]}
        for o, attr in self.ref_list(case):
            r = case["rules"][o["rule"]]
            n = sum(1 for key in (f"{r['name']}.{attr}", f"*.{attr}", f"{r['name']}.*", "*.*") if key in keys)
            if n >= 2 or (n >= 1 and r["alts"][o["alt"]][attr]):
                return True
        return False

    # ---------------------------------------------------------------- shrinking / search
    def shrink_multi(self, case):
        steps = case["steps"]
        if case.get("env"):
            env = env_of(case)
            for key, neutral in (("tools", False), ("classes", "none"), ("auto_init", True)):
                if env[key] != neutral:
                    yield dict(case, env=dict(env, **{key: neutral}))
            for i in range(len(env["builtins"])):
                yield dict(case, env=dict(env, builtins=env["builtins"][:i] + env["builtins"][i + 1:]))
        for i in range(len(steps)):
            if len(steps) > 1:
                rest = [dict(s) for s in steps[:i] + steps[i + 1:]]
                if steps[i]["reg"] is not None and i < len(rest) and rest[i]["reg"] is None:
                    rest[i]["reg"] = steps[i]["reg"]
                yield dict(case, steps=rest)
        for i, st in enumerate(steps):
            def with_step(new):
                return dict(case, steps=steps[:i] + [new] + steps[i + 1:])
            for j in range(len(st["objs"])):
                if len(st["objs"]) > 1:
                    yield with_step(dict(st, objs=st["objs"][:j] + st["objs"][j + 1:]))
            for j, o in enumerate(st["objs"]):
                for drop in ("ts", "u"):
                    if o.get(drop):
                        o2 = {k: v for k, v in o.items() if k != drop}
                        yield with_step(dict(st, objs=st["objs"][:j] + [o2] + st["objs"][j + 1:]))
                if len(o.get("ts") or []) > 1:
                    for q in range(len(o["ts"])):
                        yield with_step(dict(st, objs=st["objs"][:j] + [dict(o, ts=o["ts"][:q] + o["ts"][q + 1:])]
                                             + st["objs"][j + 1:]))
            for j in range(len(st["reg"] or [])):
                yield with_step(dict(st, reg=st["reg"][:j] + st["reg"][j + 1:]))
        used = {o["rule"] for st in steps for o in st["objs"]}
        for ri in range(len(case["rules"])):
            if ri not in used and len(case["rules"]) > 1:
                new_steps = [dict(st, objs=[dict(o, rule=o["rule"] - 1) if o["rule"] > ri else o for o in st["objs"]])
                             for st in steps]
                yield dict(case, rules=case["rules"][:ri] + case["rules"][ri + 1:], steps=new_steps)
        for ri, r in enumerate(case["rules"]):
            for a in ("ts", "u"):
                if a in r["attrs"] and not any(o.get(a) for st in steps for o in st["objs"] if o["rule"] == ri):
                    r2 = dict(r, attrs={k: v for k, v in r["attrs"].items() if k != a})
                    yield dict(case, rules=case["rules"][:ri] + [r2] + case["rules"][ri + 1:])

    def shrink(self, case):
        if case["kind"] == "multi":
            yield from self.shrink_multi(case)
            return
        if case["kind"] != "select":
            if case.get("lib"):
                yield dict(case, lib=None)
            for i in range(len(case["refs"])):
                # with a second file keep a reference through the attribute under test in the main file (see gen_rrelsame)
                if case.get("lib") and case["where"] != "Attr.type" and len(case["refs"]) == 1:
                    continue
                yield dict(case, refs=case["refs"][:i] + case["refs"][i + 1:])
            return
        for i in range(len(case["objs"])):
            if len(case["objs"]) > 1:
                yield dict(case, objs=case["objs"][:i] + case["objs"][i + 1:])
        if case.get("env"):
            env = env_of(case)
            for key, neutral in (("tools", False), ("classes", "none"), ("postpone", []), ("auto_init", True)):
                if env[key] != neutral:
                    yield dict(case, env=dict(env, **{key: neutral}))
            for i in range(len(env["builtins"])):
                yield dict(case, env=dict(env, builtins=env["builtins"][:i] + env["builtins"][i + 1:]))
            for i, o in enumerate(case["objs"]):
                if len(o.get("ts") or []) > 1:
                    for q in range(len(o["ts"])):
                        yield dict(case, objs=case["objs"][:i] + [dict(o, ts=o["ts"][:q] + o["ts"][q + 1:])]
                                   + case["objs"][i + 1:])
        for i in range(len(case["reg"])):
            yield dict(case, reg=case["reg"][:i] + case["reg"][i + 1:])
        for i, o in enumerate(case["objs"]):
            for drop in ("ts", "u"):
                if o.get(drop):
                    o2 = {k: v for k, v in o.items() if k != drop}
                    yield dict(case, objs=case["objs"][:i] + [o2] + case["objs"][i + 1:])
        for ri in range(len(case["rules"])):
            if len(case["rules"]) > 1 and all(o["rule"] != ri for o in case["objs"]):
                objs = [dict(o, rule=o["rule"] - 1) if o["rule"] > ri else o for o in case["objs"]]
                yield dict(case, rules=case["rules"][:ri] + case["rules"][ri + 1:], objs=objs)
        used = {(o["rule"], o["alt"]) for o in case["objs"]}
        for ri, r in enumerate(case["rules"]):
            for ai in range(len(r["alts"])):
                if (ri, ai) not in used and len(r["alts"]) > 1:
                    r2 = dict(r, alts=r["alts"][:ai] + r["alts"][ai + 1:])
                    objs = [dict(o, alt=o["alt"] - 1) if o["rule"] == ri and o["alt"] > ai else o for o in case["objs"]]
                    yield dict(case, rules=case["rules"][:ri] + [r2] + case["rules"][ri + 1:], objs=objs)

    def extra_search(self, rng, tier, broken):
        return list(self.gen(rng, 1500 if tier == "quick" else 8000, tier))

    def sample_view(self, case, obs):
        v = {"case": case, "impl": obs}
        if case["kind"] == "select":
            v["grammar"] = grammar_select(case)
            v["text"] = render_select(case, {})[0]
        if case["kind"] == "multi":
            v["grammar"] = m_grammar(case)
            v["texts"] = [m_render(case, st)[0] for st in case["steps"]]
        return v

    def extra_evidence(self, cases, obs, outs):
        kinds = {}
        for c in cases:
            kinds[c["kind"]] = kinds.get(c["kind"], 0) + 1
        sel = {"rrel": 0, "custom": 0, "default": 0}
        refs = 0
        for c in cases:
            if c["kind"] == "select":
                for e in expected_select(c):
                    sel[e[0]] += 1
                    refs += 1
        shared = {"references": 0, "delimiters": {}, "models": 0}
        for c in cases:
            if c["kind"] == "multi":
                shared["models"] += len(c["steps"])
                for calls in m_expected_calls(c):
                    for call in calls:
                        shared["references"] += 1
                        if call[0] == "find":
                            shared["delimiters"][call[2]] = shared["delimiters"].get(call[2], 0) + 1
        envs = {"cases": 0, "builtins": 0, "tools": 0, "classes": 0, "postpone": 0, "refs_to_builtin_names": 0,
                "refs_unknown": 0}
        for c in cases:
            if c.get("env"):
                e = env_of(c)
                envs["cases"] += 1
                for key in ("builtins", "tools", "postpone"):
                    envs[key] += 1 if e[key] else 0
                envs["classes"] += e["classes"] != "none"
                if c["kind"] == "select":
                    keys = {k for k, _ in e["builtins"]}
                    for nm in select_names(c):
                        envs["refs_to_builtin_names"] += nm in keys
                        envs["refs_unknown"] += nm in GHOSTS and not conforming(c, nm)
        loads = sum(o.get("loads", 2) for o in obs if isinstance(o, dict))
        return {"distribution": {"kinds": kinds, "references": refs, "expected_provider_kinds": sel, "model_loads": loads,
                                 "multi": shared, "env": envs},
                "exhaustive": "2^4 key subsets x grammar RREL y/n x single/list x objects/strings for one reference (128 cases)",
                "translation_units": {"Gen.providerOrder": read_provider_order()}}
