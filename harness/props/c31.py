"""C31 — generated output files are all-or-nothing.

Implementation side: the three built-in generators (textX->dot, textX->PlantUML,
any->dot), looked up through the registration API, are run on generated
grammars / models in a scratch directory while `open` (write modes, inside the
scratch directory only), `os.replace` / `os.rename` are wrapped by a
fault-injecting layer: the k-th `write` (optionally after writing part of its
data), the `open`, the `flush`/`close`, or the `replace` raises.  A case is a
history of 1..4 runs on the same output file (two input variants, `--overwrite`
on/off, one crash point per run); after every run the output directory is
inspected.  Model side: `GenFile.trace exportNew` (Drivers/GenFile.lean) on the
same history with the observed number of writes.

Failure *mode* (case key `mode`): "once" — only the named call fails — or
"persist" — that call and every later write / flush / close fails too (a full
disk does not go away after the first call that reports it).  Model side:
`GenFile.exportMode` (the failure schedule, `C31_persistent`).
Starting directory (case key `init`, one entry per output file): the output
file name may be there before the first run — a hand-made file, a symbolic link
(dangling or to an existing file in another folder), a second hard link of a
file in another folder — and a stale temporary sibling of a killed run may be
there.  The file behind the link / the other name is observed like the output
file itself.  Model side: driver key `init`, the theorems from any directory.
"""
import builtins
import io
import json
import logging
import os
import re
import shutil
import tempfile
import zlib

from harness.core import Check, use_repo

KINDS = ["mm_dot", "mm_pu", "model_dot"]
EXT = {"mm_dot": "dot", "mm_pu": "pu", "model_dot": "dot"}
GEN_KEY = {"mm_dot": ("textx", "dot"), "mm_pu": ("textx", "plantuml"), "model_dot": ("any", "dot")}
EXC = {"OSError": lambda: OSError(28, "No space left on device (injected)"),
       "RuntimeError": lambda: RuntimeError("injected failure"),
       "KeyboardInterrupt": lambda: KeyboardInterrupt()}

MODES = ["once", "persist"]
# what is at the output file name before the first run of a history
INIT_KINDS = ["none", "foreign", "dangling", "link", "hardlink"]
FOREIGN = "// written by hand, not generated\n" * 12        # a complete file that no generator run produced
FOREIGN_ID = 999999                                          # its chunk id on the model side
STALE = "stale temporary file of a killed run\n"
DEST = 100                                                   # model path of the file behind output file t: DEST + t

PROVIDERS = ["plain", "fqn", "importuri", "globalrepo", "mmglobal"]   # None = no scope provider at all
LINETYPES = ["ortho", "polyline"]
SRC_EXT = {"mm_dot": "tx", "mm_pu": "tx", "model_dot": "c31"}

# grammar of multi-file models: imports, every attribute flavour the model export distinguishes (name, plain
# primitive, bool, float, list of primitives, contained object, list of objects, list mixing objects and
# primitives, reference)
RICH_GRAMMAR = """
Model: imports*=Import 'model' name=ID items+=Item refs*=Ref ('mixed' mixed+=Val[','])?;
Import: 'import' importURI=STRING;
Item: 'item' name=ID ('=' v=INT)? (tags+=STRING[','])? (sub=Sub)? (flag?='!')? ('~' f=FLOAT)?;
Sub: '{' vals+=INT[','] '}';
Val: Sub | INT | STRING;
Ref: 'ref' a=[Item:FQN] ('->' b=[Item:FQN])?;
FQN: ID('.'ID)*;
"""
STRINGS = ["t0", "t1", 'a\\"b', "x|y", "{z}", "<k>", "two words", "\u00e9\u00df"]

# default grammar of model inputs given as plain {"text": ...} (corpus cases of the first round)
MODEL_GRAMMAR = """
Model: 'model' name=ID items+=Item refs*=Ref;
Item: 'item' name=ID ('=' v=INT)? (tags+=STRING[','])? (sub=Sub)?;
Sub: '{' vals+=INT[','] '}';
Ref: 'ref' a=[Item] ('->' b=[Item])?;
"""


# ---------------------------------------------------------------------------
# inputs
# ---------------------------------------------------------------------------
def gen_grammar(rng, prefix="R", ext=(), top=True, header=""):
    """a small random textX grammar: common rules with containment, references, lists, optional parts,
    an abstract rule and a match rule; every rule starts with its own keyword (no left recursion).
    `ext`: names of rules of an imported grammar that may be used as attribute types / reference targets /
    alternatives of the abstract rule.  Returns (text, names of the common rules)."""
    n = rng.randint(1, 5)
    names = [f"{prefix}{i}" for i in range(n)]
    kw, base = f"{prefix}Kw", f"{prefix}Base"
    use_match = rng.chance(0.5)
    use_abs = (n >= 2 or len(ext) >= 1) and rng.chance(0.6)
    pool = names + list(ext)
    rules = []
    for i, nm in enumerate(names):
        parts = [f"'{prefix.lower()}{i}'", "name=ID"]
        for a in range(rng.randint(0, 4)):
            k = rng.weighted([("int", 2), ("str", 2), ("cont", 3), ("contlist", 3), ("ref", 3), ("reflist", 2),
                              ("bool", 1), ("match", 2 if use_match else 0), ("abs", 2 if use_abs else 0)])
            t = rng.choice(pool) if ext and rng.chance(0.5) else rng.choice(names)
            an = f"a{a}"
            if k == "int":
                p = f"{an}=INT"
            elif k == "str":
                p = f"{an}=STRING"
            elif k == "cont":
                p = f"{an}={t}"
            elif k == "contlist":
                p = f"{an}+={t}"
            elif k == "ref":
                p = f"{an}=[{t}]"
            elif k == "reflist":
                p = f"{an}*=[{t}][',']"
            elif k == "bool":
                p = f"{an}?='flag{a}'"
            elif k == "match":
                p = f"{an}={kw}"
            else:
                p = f"{an}={base}"
            if rng.chance(0.3):
                p = f"('k{a}' {p})?"
            parts.append(p)
        parts.append("';'")
        rules.append(f"{nm}: {' '.join(parts)};")
    if use_abs:
        alts = rng.sample(pool, rng.randint(min(2, len(pool)), len(pool)))
        rules.append(f"{base}: " + " | ".join(alts) + ";")
    if use_match:
        if rng.chance(0.5):
            rules.append(f"{kw}: 'alpha' | 'beta' | /g[a-m]+/;")
        else:   # every expression form the match-rule renderer distinguishes
            rules.append(f"{kw}: ('alpha' 'beta')+ | INT? 'gamma'* | {kw}B 'delta' | "
                         f"'a long keyword that is cut short in the picture';")
            rules.append(f"{kw}B: /h[a-m]+/ | 'eps' ID;")
    head = [header] if header else []
    if top:
        head.append("Top: " + " ".join(f"e{i}*={nm}" for i, nm in enumerate(names)) + ";")
    return "\n".join(head + rules) + "\n", names


def gen_grammar_set(rng, multi=False, stem="input"):
    """a grammar as a set of files: alone, or importing a library grammar (same folder or sub-folder; imported
    rules used by plain or by qualified name)"""
    main = f"{stem}.tx"
    if not multi:
        return {"files": {main: gen_grammar(rng)[0]}, "main": main}
    sub = rng.chance(0.4)
    lib_text, lib_rules = gen_grammar(rng, prefix="L", top=False)
    q = "sub.lib" if sub else "lib"
    ext = [f"{q}.{nm}" if rng.chance(0.4) else nm for nm in lib_rules]
    text, _ = gen_grammar(rng, prefix="R", ext=ext, header=f"import {q}")
    return {"files": {main: text, ("sub/lib.tx" if sub else "lib.tx"): lib_text}, "main": main}


def gen_model(rng):
    """single-file model of MODEL_GRAMMAR"""
    n = rng.randint(1, 5)
    lines = ["model m"]
    for i in range(n):
        s = f"item i{i}"
        if rng.chance(0.5):
            s += f" = {rng.below(100)}"
        if rng.chance(0.4):
            s += " " + ", ".join(f'"t{j}"' for j in range(rng.randint(1, 3)))
        if rng.chance(0.4):
            s += " { " + ", ".join(str(rng.below(9)) for _ in range(rng.randint(1, 3))) + " }"
        lines.append(s)
    for _ in range(rng.randint(0, 4)):
        s = f"ref i{rng.below(n)}"
        if rng.chance(0.5):
            s += f" -> i{rng.below(n)}"
        lines.append(s)
    return "\n".join(lines) + "\n"


def gen_model_set(rng, multi=False, stem="input", imports_ok=True):
    """a model of RICH_GRAMMAR as a set of files: the main file imports others (chain / diamond / cycle, a leaf
    possibly in a sub-folder); references go to items of the own file and of directly imported files.
    `imports_ok=False` (no scope provider): one file without imports."""
    nfiles = rng.randint(2, 4) if multi and imports_ok else 1
    stems = [stem] + [f"m{k}" for k in range(1, nfiles)]
    names = [s + ".c31" for s in stems]
    if nfiles >= 3 and rng.chance(0.4):
        names[-1] = "sub/" + names[-1]            # a leaf in a sub-folder
    imports = {k: set() for k in range(nfiles)}
    for j in range(1, nfiles):
        src = rng.below(j)                          # every file is reachable from the main file
        imports[src].add(j)
        for i in range(j):
            if i != src and rng.chance(0.3):
                imports[i].add(j)                   # ... possibly on several ways (diamond)
    if nfiles >= 2 and rng.chance(0.25):
        j = rng.randint(1, nfiles - 1)
        if not names[j].startswith("sub/"):
            imports[j].add(0)                       # cycle back to the main file
    items = {k: [f"{stems[k]}_i{n}" for n in range(rng.randint(1, 3))] for k in range(nfiles)}
    files = {}
    for k in range(nfiles):
        lines = [f'import "{names[j]}"' for j in sorted(imports[k])]
        lines.append(f"model {stems[k]}")
        for nm in items[k]:
            s = f"item {nm}"
            if rng.chance(0.5):
                s += f" = {rng.below(100)}"
            if rng.chance(0.4):
                s += " " + ", ".join(f'"{rng.choice(STRINGS)}"' for _ in range(rng.randint(1, 3)))
            if rng.chance(0.4):
                s += " { " + ", ".join(str(rng.below(9)) for _ in range(rng.randint(1, 3))) + " }"
            if rng.chance(0.3):
                s += " !"
            if rng.chance(0.3):
                s += f" ~ {rng.below(50)}.{rng.below(10)}"
            lines.append(s)
        visible = list(items[k]) + [nm for j in sorted(imports[k]) for nm in items[j]]
        for _ in range(rng.randint(0, 3)):
            s = f"ref {rng.choice(visible)}"
            if rng.chance(0.5):
                s += f" -> {rng.choice(visible)}"
            lines.append(s)
        if k == 0 or rng.chance(0.4):
            # the main file always has a list mixing objects and primitives (own write call in the export)
            kinds = [0, 1 + rng.below(2)] if k == 0 else []
            kinds += [rng.below(3) for _ in range(rng.randint(0 if kinds else 1, 2))]
            vals = ["{ %d }" % rng.below(9) if w == 0 else str(rng.below(100)) if w == 1
                    else f'"{rng.choice(STRINGS)}"' for w in rng.sample(kinds, len(kinds))]
            lines.append("mixed " + ", ".join(vals))
        files[names[k]] = "\n".join(lines) + "\n"
    return {"files": files, "main": names[0]}


def canon_text(s):
    """export text with the object identities (`id(obj)` numbers, new on every export of a metamodel)
    renamed in order of first occurrence"""
    seen = {}
    return re.sub(r"\d{7,}", lambda m: seen.setdefault(m.group(0), f"#{len(seen)}"), s)


# ---------------------------------------------------------------------------
# fault injection
# ---------------------------------------------------------------------------

class FaultFile:
    """write-mode file object of the scratch directory; counts write / flush / close calls"""

    def __init__(self, real, layer, path):
        self._f, self._layer, self._path = real, layer, path

    def write(self, data):
        return self._layer.on_write(self._f, data)

    def writelines(self, lines):
        for l in lines:
            self.write(l)

    def flush(self):
        self._layer.on_flush(self._f, "flush")
        return self._f.flush()

    def close(self):
        if self._f.closed:
            return
        self._f.close()  # what was written reaches the disk, then the failure is reported
        self._layer.on_flush(self._f, "close")

    def __enter__(self):
        return self

    def __exit__(self, et, ev, tb):
        self.close()
        return False

    def __getattr__(self, name):
        return getattr(self._f, name)

    def __iter__(self):
        return iter(self._f)


class Layer:
    """patches open / os.replace / os.rename for paths below `root` while active"""

    def __init__(self, root, crash, exc, watch=None, mode="once"):
        self.root = os.path.realpath(root)
        # "none" | "open" | "close" | "replace" | ["write", k, partly] | ["call", k, partly] (the k-th fallible
        # call of the run — open for writing / write / flush / close / replace — whatever it is)
        self.crash = crash
        self.exc = exc
        self.mode = mode            # "once": only that call fails; "persist": every later write / flush / close too
        self.failing = False        # a persistent failure is under way
        self.calls = 0              # fallible calls so far
        self.nth = {}               # ... per group (open / write / close / replace)
        self.fired = None           # [group, n-th call of the group] of the first failing call
        self.refires = 0            # later failing calls of a persistent failure
        self.writes = 0
        self.events = []
        self.triggered = False
        self.armed = True
        self.watch = watch          # the run's own output file: looked at before every intercepted operation
        self.mid = None             # first operation before which the output file differed from its state at the start
        self._w0 = None
        self._s0 = None

    def _peek(self, p):
        try:
            with self._open(p, "rb") as f:
                return f.read()
        except OSError:
            return None

    @staticmethod
    def _sig(p):
        try:
            st = os.stat(p)
            return (st.st_ino, st.st_size, st.st_mtime_ns)
        except OSError:
            return None

    def probe(self, what):
        """the state between two operations is what a generator that stops there (killed, any exception) leaves"""
        if self.watch is None or self.mid is not None:
            return
        sig = self._sig(self.watch)
        if sig == self._s0:
            return                   # same inode, size and modification time: not written to since the start
        self._s0 = sig
        now = self._peek(self.watch)
        if now != self._w0:
            self.mid = {"before": what, "content": None if now is None else now.decode("utf-8", "replace")}

    def inside(self, p):
        try:
            if isinstance(p, int):
                return False
            return os.path.realpath(os.fspath(p)).startswith(self.root + os.sep)
        except Exception:
            return False

    def due(self, kind, idx=None):
        """is the fallible call that is about to be made the one to fail (or one after it, persistent mode)"""
        n = self.calls
        self.calls += 1
        grp = "close" if kind in ("flush", "close") else kind
        j = self.nth.get(grp, 0)
        self.nth[grp] = j + 1
        if self.failing:
            if grp in ("write", "close"):   # the condition has not gone away; creating, renaming, removing still work
                self.refires += 1
                return True
            return False
        if not self.armed:
            return False
        c = self.crash
        if isinstance(c, list):
            hit = c[1] == n if c[0] == "call" else (grp == "write" and c[0] == "write" and c[1] == idx)
        else:
            hit = c == grp
        if hit:
            self.triggered = True
            self.armed = False
            self.failing = self.mode == "persist"
            self.fired = [grp, j]
        return hit

    def fire(self):
        raise EXC[self.exc]()

    def open(self, file, mode="r", *a, **kw):
        if self.inside(file) and any(c in mode for c in "wax+"):
            self.probe("open")
            self.events.append(["open", os.path.basename(os.fspath(file)), mode])
            if self.due("open"):
                self.fire()
            return FaultFile(self._open(file, mode, *a, **kw), self, file)
        return self._open(file, mode, *a, **kw)

    def on_write(self, f, data):
        k = self.writes
        self.writes += 1
        self.probe("write %d" % k)
        first = not self.failing
        if self.due("write", k):
            if first and self.crash[2] and len(data) > 1:
                f.write(data[: max(1, len(data) // 2)])
            self.events.append(["write!", k])
            self.fire()
        return f.write(data)

    def on_flush(self, f, what):
        self.probe(what)
        self.events.append([what])
        if self.due(what):
            self.fire()

    def replace(self, src, dst, *a, **kw):
        if self.inside(dst):
            self.probe("replace")
            self.events.append(["replace", os.path.basename(os.fspath(src)), os.path.basename(os.fspath(dst))])
            if self.due("replace"):
                self.fire()
        return self._replace(src, dst, *a, **kw)

    def rename(self, src, dst, *a, **kw):
        if self.inside(dst):
            self.probe("rename")
            self.events.append(["rename", os.path.basename(os.fspath(src)), os.path.basename(os.fspath(dst))])
            if self.due("replace"):
                self.fire()
        return self._rename(src, dst, *a, **kw)

    def remove(self, p, *a, **kw):
        if self.inside(p):
            self.probe("remove")
            self.events.append(["remove", os.path.basename(os.fspath(p))])
        return self._remove(p, *a, **kw)

    def unlink(self, p, *a, **kw):
        if self.inside(p):
            self.probe("remove")
            self.events.append(["remove", os.path.basename(os.fspath(p))])
        return self._unlink(p, *a, **kw)

    def __enter__(self):
        self._open, self._replace, self._rename = builtins.open, os.replace, os.rename
        self._remove, self._unlink, self._ioopen = os.remove, os.unlink, io.open
        if self.watch is not None:
            self._s0 = self._sig(self.watch)
            self._w0 = self._peek(self.watch)
        builtins.open = self.open
        io.open = self.open
        os.replace, os.rename, os.remove, os.unlink = self.replace, self.rename, self.remove, self.unlink
        return self

    def __exit__(self, *a):
        builtins.open = self._open
        io.open = self._ioopen
        os.replace, os.rename, os.remove, os.unlink = self._replace, self._rename, self._remove, self._unlink
        return False


class Workspace:
    """scratch directory with the loaded inputs of one case"""

    def __init__(self, case):
        use_repo()
        from textx import generator_for_language_target, metamodel_for_language

        self.case = case
        self.kind = case["kind"]
        self.via = case.get("via", "api")
        self.args = dict(case.get("args") or {})
        self.mode = case.get("mode", "once")
        if self.mode not in MODES:
            raise ValueError(f"unknown failure mode {self.mode!r}")
        self.d = tempfile.mkdtemp(prefix="c31-")
        try:
            self.load(case, generator_for_language_target, metamodel_for_language)
        except BaseException:      # an input that does not load (shrink candidates): leave nothing behind
            self.close()
            raise

    def load(self, case, generator_for_language_target, metamodel_for_language):
        self.out = os.path.join(self.d, "out")
        os.mkdir(self.out)
        self.gen = generator_for_language_target(*GEN_KEY[self.kind])
        self.objs, self.mms, self.paths, self.tpaths, self.sources = [], [], [], [], []
        self.grammar_file = None
        ext = SRC_EXT[self.kind]
        for i, inp in enumerate(case["inputs"]):
            ind = os.path.join(self.d, f"in{i}")
            os.mkdir(ind)
            files = inp.get("files") or {f"input.{ext}": inp["text"]}
            main = inp.get("main") or f"input.{ext}"
            for name, text in files.items():
                path = os.path.normpath(os.path.join(ind, name))
                if not path.startswith(ind + os.sep):
                    raise ValueError(f"file name {name!r} leaves the input directory")
                os.makedirs(os.path.dirname(path), exist_ok=True)
                with open(path, "w", encoding="utf-8") as f:
                    f.write(text)
            path = os.path.join(ind, main)
            mm = self.model_metamodel(ind) if self.kind == "model_dot" else metamodel_for_language("textx")
            self.mms.append(mm)
            self.objs.append(mm.model_from_file(path))
            self.paths.append(path)
            self.sources.append({n.split("/")[0] for n in files})
            tname = os.path.splitext(os.path.basename(main))[0] + "." + EXT[self.kind]
            self.tpaths.append(os.path.join(ind if case.get("beside") else self.out, tname))
        self.mm = self.mms[0] if self.mms else None
        self.targets = list(dict.fromkeys(self.tpaths))          # the distinct output files of the history
        init = list(case.get("init") or [])
        self.init = [dict(init[t]) if t < len(init) and init[t] else {"kind": "none"} for t in range(len(self.targets))]
        for ini in self.init:
            if ini.get("kind", "none") not in INIT_KINDS:
                raise ValueError(f"unknown kind of starting state {ini.get('kind')!r}")
        self.dests = [None] * len(self.targets)                  # the file behind the link / the other hard link

    def apply_init(self, refs):
        """puts the starting state of the history in place; returns what was put there.  The name of the stale
        temporary sibling is the one the reference export used (`refs`), whatever the naming scheme is."""
        done = []
        for t, (tpath, ini) in enumerate(zip(self.targets, self.init)):
            kind = ini.get("kind", "none")
            store = os.path.join(self.d, f"store{t}")
            dest = os.path.join(store, os.path.basename(tpath))
            if kind != "none":
                os.mkdir(store)
            if kind in ("link", "hardlink"):
                with open(dest, "w", encoding="utf-8") as f:
                    f.write(FOREIGN)
            if kind == "foreign":
                with open(tpath, "w", encoding="utf-8") as f:
                    f.write(FOREIGN)
            elif kind in ("dangling", "link"):
                os.symlink(os.path.relpath(dest, os.path.dirname(tpath)), tpath)
                self.dests[t] = dest
            elif kind == "hardlink":
                os.link(dest, tpath)
                self.dests[t] = dest
            stale = False
            if ini.get("stale"):
                sfx = {refs[i]["tmp_suffix"] for i in range(len(self.tpaths)) if self.tpaths[i] == tpath}
                if len(sfx) == 1 and None not in sfx:
                    with open(tpath + sfx.pop(), "w", encoding="utf-8") as f:
                        f.write(STALE)
                    stale = True
            done.append({"kind": kind, "stale": stale})
        return done

    def model_metamodel(self, ind):
        from textx import metamodel_from_str
        import textx.scoping.providers as sp

        grammar = self.case.get("grammar") or MODEL_GRAMMAR
        prov = self.case.get("provider")
        if self.via == "cli" and self.grammar_file is None:
            self.grammar_file = os.path.join(self.d, "grammar.tx")
            with open(self.grammar_file, "w", encoding="utf-8") as f:
                f.write(grammar)
        mm = metamodel_from_str(grammar, **({"global_repository": True} if prov == "mmglobal" else {}))
        if prov in ("plain", "mmglobal"):
            mm.register_scope_providers({"*.*": sp.PlainNameImportURI()})
        elif prov == "fqn":
            mm.register_scope_providers({"*.*": sp.FQNImportURI()})
        elif prov == "importuri":
            mm.register_scope_providers({"*.*": sp.ImportURI(sp.PlainName())})
        elif prov == "globalrepo":
            mm.register_scope_providers({"*.*": sp.PlainNameGlobalRepo(os.path.join(ind, "**", "*.c31"),
                                                                         glob_args={"recursive": True})})
        elif prov is not None:
            raise ValueError(f"unknown provider {prov!r}")
        return mm

    def tname(self, i):
        return os.path.basename(self.tpaths[i])

    def call(self, i, out_dir, overwrite):
        if self.via == "cli":
            return self.call_cli(i, out_dir, overwrite)
        self.gen(self.mms[i], self.objs[i], out_dir, overwrite, False, **self.args)

    def call_cli(self, i, out_dir, overwrite):
        """`textx generate [--grammar g.tx] --target T [-o DIR] [--overwrite] FILE [--linetype X]` in process"""
        from click.testing import CliRunner
        from textx.cli import textx as textx_cmd

        argv = ["generate"]
        if self.kind == "model_dot":
            argv += ["--grammar", self.grammar_file]
        argv += ["--target", GEN_KEY[self.kind][1]]
        if out_dir:
            argv += ["-o", out_dir]
        if overwrite:
            argv.append("--overwrite")
        argv.append(self.paths[i])
        for k, v in self.args.items():
            argv += [f"--{k}", str(v)]
        res = CliRunner().invoke(textx_cmd, argv)
        if res.exception is not None and not (isinstance(res.exception, SystemExit) and res.exit_code == 0):
            raise res.exception
        if res.exit_code != 0:
            raise SystemExit(res.exit_code)

    def reference(self):
        """fault-free export of every input into its own directory: content and number of writes"""
        refs = []
        for i in range(len(self.objs)):
            rd = os.path.join(self.d, f"ref{i}")
            os.mkdir(rd)
            with Layer(self.d, "none", "OSError") as lay:
                self.gen(self.mms[i], self.objs[i], rd, True, False, **self.args)
            # the temporary sibling the export writes to, as a suffix of the output file name (None: no such file)
            opened = [e[1] for e in lay.events if e[0] == "open"]
            tn = self.tname(i)
            sfx = opened[0][len(tn):] if len(opened) == 1 and opened[0].startswith(tn) and opened[0] != tn else None
            with open(os.path.join(rd, tn), encoding="utf-8") as f:
                refs.append({"text": canon_text(f.read()), "writes": lay.writes, "calls": lay.calls, "tmp_suffix": sfx})
        return refs

    def state(self, tpath, texts, owner=None):
        """what reading the name `tpath` gives: absent (nothing there, or a link that leads nowhere) / foreign (the
        hand-made file of the starting state) / complete:i (the complete output of input i for output file `owner`)
        / truncated:n / other:n"""
        if not os.path.exists(tpath):
            return "absent"
        if not os.path.isfile(tpath):
            return "other:-1"
        with open(tpath, encoding="utf-8", errors="replace") as f:
            return self.state_of(owner or tpath, f.read(), texts)

    @staticmethod
    def entry(tpath):
        """kind of the directory entry itself"""
        if os.path.islink(tpath):
            return "link"
        if not os.path.lexists(tpath):
            return "none"
        return "file" if os.path.isfile(tpath) else "other"

    def look(self, texts):
        """state of every output file, of the file behind it (None: there is none), kind of every entry, leftovers"""
        return {"states": [self.state(t, texts) for t in self.targets],
                "dstates": [None if d is None else self.state(d, texts, owner=t) for t, d in zip(self.targets, self.dests)],
                "entries": [self.entry(t) for t in self.targets],
                "extra": self.extras()}

    def state_of(self, tpath, content, texts):
        """classification of `content` (None = no file) as a content of output file `tpath`"""
        if content is None:
            return "absent"
        if content == FOREIGN:
            return "foreign"
        content = canon_text(content)
        mine = [(i, t) for i, t in enumerate(texts) if self.tpaths[i] == tpath]
        for i, t in mine:
            if content == t:
                return f"complete:{i}"
        if any(t.startswith(content) for _, t in mine):
            return "truncated:%d" % len(content)
        return "other:%d" % len(content)

    @staticmethod
    def sig(path):
        try:
            with open(path, "rb") as f:
                data = f.read()
            return [len(data), zlib.crc32(data)]
        except OSError:
            return [-1, 0]

    def extras(self):
        """everything in the folders of the output files that is neither an input nor an output file:
        [name, size, checksum]"""
        found = []
        for d in dict.fromkeys(os.path.dirname(t) for t in self.targets):
            keep = {os.path.basename(t) for t in self.targets if os.path.dirname(t) == d}
            for i, p in enumerate(self.paths):
                if os.path.dirname(p) == d:
                    keep |= self.sources[i]
            found += [[x] + self.sig(os.path.join(d, x)) for x in sorted(os.listdir(d)) if x not in keep]
        return found

    def close(self):
        shutil.rmtree(self.d, ignore_errors=True)


def count_writes(case):
    """number of write calls the real exporter makes for input 0 of this (partial) case (sizes the crash-point
    enumeration)"""
    ws = None
    glog = logging.getLogger("textx.generators")
    was_disabled = glog.disabled
    glog.disabled = True
    try:
        ws = Workspace(dict(case, inputs=case["inputs"][:1], via="api", beside=False))
        return ws.reference()[0]["writes"]
    except Exception:
        return None
    finally:
        glog.disabled = was_disabled
        if ws is not None:
            ws.close()


class Prop(Check):
    ID = "C31"
    LEAN_MODULE = "TextxVerif.Props.C31"
    THEOREMS = ["GenFile.C31_atomic", "GenFile.C31_complete", "GenFile.C31_history", "GenFile.C31_no_skip",
                "GenFile.C31_skip_iff", "GenFile.C31_pinned_false", "GenFile.C31_pinned_overwrite_false",
                "GenFile.C31_ops_summary", "GenFile.C31_prefix_atomic", "GenFile.C31_mid_flag", "GenFile.C31_history_exact",
                "GenFile.C31_lastDone_spec", "GenFile.C31_failed_runs_keep", "GenFile.C31_last_writer",
                "GenFile.C31_history_from", "GenFile.C31_no_skip_from",
                "GenFile.C31_faults", "GenFile.C31_faults_atomic", "GenFile.C31_persistent"]
    DRIVER = "Drivers/GenFile.lean"
    QUICK_CASES = 12       # inputs (about 400-520 cases); every write of every input gets its own case (see gen)
    THOROUGH_CASES = 200
    PROCS_QUICK = 3
    PROCS_THOROUGH = 3
    RULE = ("inputs = sets of files: random textX grammars, alone or importing a library grammar (dot and PlantUML "
            "metamodel export, PlantUML with/without the linetype argument) and random models (model dot export) of a "
            "grammar with every attribute flavour the export distinguishes, as one file without scope provider, one file "
            "with an import scope provider (empty model repository) or 2-4 files importing each other (chain / diamond / "
            "cycle / sub-folder; PlainNameImportURI, FQNImportURI, ImportURI, PlainNameGlobalRepo, global_repository) "
            "whose export writes one cluster per file; the shapes are fixed per input position, so every quick run has "
            "all of them; for every input one case per write call k (failure at write k, half of the cases after a "
            "partial write) plus the open / flush-close / replace / no-failure points; each case is a history of 1..4 "
            "runs on one or two output files (second input = other version of the same source or another source file; "
            "--overwrite on/off; with or without --output-path; OSError / RuntimeError / KeyboardInterrupt; 15 % of the "
            "histories through the `textx generate` command line); every crash point once as a one-shot failure and "
            "once as a persistent one (that call and every later write / flush / close of the run fail); crash points "
            "by call index behind the calls of the reference export; the starting directory rotates over the crash "
            "points: output file name absent / a hand-made file / a dangling symbolic link / a link to a file in "
            "another folder / a second hard link of such a file, with or without a stale temporary sibling; "
            "non-trivial = an injected failure fired while the output was being produced")
    MODELLED = ("hand-modelled: export.py _open_output as used by metamodel_export/model_export, generators.py gen_file "
                "(GenFile.exportNew/genFile/runAll; an export = the sequence of its write calls, any failing call "
                "propagates); tie X: per run outcome (done/skipped/failed), state of every output file of the history "
                "(absent / complete output of input i / anything else) and leftover files vs the model "
                "(GenFile.traceOn) on the same history; operation level (GenFile.program/opsTrace, proved to add up to "
                "exportNew): the output file is looked at before every intercepted open / write / flush / close / "
                "replace / remove of a run and must be as at the start of the run until the export has completed "
                "(model: no operation before the last has an effect outside the temporary sibling, C31_mid_flag); "
                "failure schedules (GenFile.exportFaults: any subset of the fallible calls raises, the close of the "
                "`with` block on both ways; C31_faults: = exportNew at the first failing call reached; the driver runs "
                "exportMode = the schedule of the injection, one-shot or persistent); histories start from the observed "
                "directory (driver key init: hand-made file, link destination / other hard link as a path of its own "
                "that the modelled code never writes to, stale temporary sibling); the bodies of metamodel_export_tofile / model_export_to_file are "
                "not modelled statement by statement: that each of their write calls lets a failure propagate is "
                "observed on the implementation (a swallowed failure is an outcome mismatch and an oracle failure); "
                "not exhibited: OS-level durability (power loss, non-atomic rename), failures of os.remove, export of a repository object (`repo=` argument, not "
                "reachable through a registered generator), grammars with `reference` to other registered languages")
    ASSUMPTIONS = [
        "a failure is an exception raised by open / write / flush / close / os.replace (or by the renderer between two writes)",
        "os.replace is atomic (POSIX rename semantics)",
        "fault injection sees writers that go through builtins.open / io.open and os.replace / os.rename",
        "a persistent failure (disk full, quota, file size limit) makes every later write / flush / close of the run "
        "fail; creating, renaming and removing files still work",
        "a symbolic link / second hard link at the output file name leads to a file in another folder of the same file system",
    ]

    # ------------------------------------------------------------------ gen
    # shapes of the inputs, fixed per position so that every quick run contains every shape; the content is random
    #   metamodel exports: j-th grammar input of a kind: grammar alone / importing a library grammar, alternating
    #   PlantUML: `linetype` argument absent, ortho, polyline, absent
    #   model exports: no scope provider / several files with clusters (plain names) / scope provider but nothing
    #   imported (repository present and empty) / several files with a provider drawn from the others
    MODEL_SHAPES = [(None, False), ("plain", True), ("plain", False), ("*", True)]

    def gen_input_shape(self, r, kind, j):
        """(case-level settings, generator of an input by stem)"""
        if kind == "model_dot":
            prov, multi = self.MODEL_SHAPES[j % 4] if j < 4 else (r.choice([None] + PROVIDERS + ["*"]), r.chance(0.7))
            if prov == "*":
                prov = r.choice(PROVIDERS[1:])
            settings = {"grammar": RICH_GRAMMAR, "provider": prov}
            return settings, lambda stem: gen_model_set(r, multi, stem, imports_ok=prov is not None)
        multi = j % 2 == 1 if j < 4 else r.chance(0.5)
        settings = {}
        if kind == "mm_pu":
            lt = [None, "ortho", "polyline", None][j % 4] if j < 4 else r.choice([None] + LINETYPES)
            if lt:
                settings["args"] = {"linetype": lt}
        return settings, lambda stem: gen_grammar_set(r, multi, stem)

    def gen(self, rng, n, tier):
        for i in range(n):
            r = rng.fork(f"input{i}")
            kind = KINDS[i % 3]
            settings, mk = self.gen_input_shape(r, kind, i // 3)
            inputs = [mk("input")]
            if r.chance(0.6):
                # the second input: another version of the same source file (same output file), or — one time
                # in three — a different source file (a second output file in the same history)
                inputs.append(mk("other" if r.chance(0.25) else "input"))
            stub = dict(settings, kind=kind, inputs=inputs)
            nw = count_writes(stub)
            if nw is None:
                nw = 8
            points = [["write", k, bool((k + i) % 2)] for k in range(nw)]
            points += ["open", "close", "replace", "none", ["write", nw, False]]
            # "the k-th fallible call of the run, whatever it is": one inside the calls of the reference export
            # (open, nw writes, close, replace), three behind them — calls the export makes only in some
            # situation (a commit step that writes) are crash points as well
            points += [["call", r.below(nw + 3), r.chance(0.5)]] + [["call", nw + 3 + j, False] for j in range(3)]
            for j, p in enumerate(points):
                # the starting directory rotates over the crash points (fixed per position: every quick run has
                # every kind for every generator); every crash point is taken as a one-shot and as a persistent failure
                yield self.gen_history(r, stub, p, "once", self.gen_init(r, i + j))
                if p != "none" and not (isinstance(p, list) and p[1] >= nw):
                    yield self.gen_history(r, stub, p, "persist", self.gen_init(r, i + j + 3), short=True)

    INIT_ROTATION = ["none", "dangling", "none", "link", "foreign", "none", "hardlink", "none"]

    def gen_init(self, r, pos):
        """starting state of the (at most two) output files of a history"""
        first = {"kind": self.INIT_ROTATION[pos % len(self.INIT_ROTATION)], "stale": pos % 5 == 3}
        return [first, {"kind": r.choice(INIT_KINDS), "stale": r.chance(0.2)} if r.chance(0.3) else {"kind": "none"}]

    def gen_history(self, r, stub, point, mode="once", init=None, short=False):
        inputs = stub["inputs"]
        exc = r.weighted([("OSError", 6), ("RuntimeError", 2), ("KeyboardInterrupt", 1)])
        runs = []
        shape = r.weighted([("crash-retry", 4), ("done-crash-skip", 3), ("crash", 1), ("random", 0 if short else 3)])
        nin = len(inputs)
        # an output file that is there from the start is only written to with --overwrite
        there = bool(init) and init[0]["kind"] in ("foreign", "link", "hardlink")

        def run(inp, ow, crash):
            return {"input": inp, "overwrite": ow, "crash": crash, "exc": exc}

        if shape == "crash":
            runs = [run(0, r.chance(0.9 if there else 0.5), point)]
        elif shape == "crash-retry":
            runs = [run(0, r.chance(0.9 if there else 0.3), point), run(r.below(nin), r.chance(0.5) if there else False, "none")]
        elif shape == "done-crash-skip":
            runs = [run(r.below(nin), r.chance(0.3), "none"), run(0, True, point), run(r.below(nin), False, "none")]
        else:
            for j in range(r.randint(2, 4)):
                runs.append(run(r.below(nin), r.chance(0.5), "none"))
            runs[r.below(len(runs))] = run(0, r.chance(0.6), point)
            if r.chance(0.4):
                k = r.below(len(runs))
                if runs[k]["crash"] == "none":
                    runs[k] = dict(runs[k], crash=r.choice(["open", "close", "replace", ["write", r.below(6), r.chance(0.5)]]))
        case = dict(stub, runs=runs)
        if mode != "once":
            case["mode"] = mode
        if init and any(x.get("kind", "none") != "none" or x.get("stale") for x in init):
            case["init"] = init
        if r.chance(0.25 if nin == 1 else 0.1):
            case["beside"] = True     # no --output-path: the file is generated next to the input
        if (case["kind"] != "model_dot" or case.get("provider") is None) and r.chance(0.15):
            case["via"] = "cli"       # through `textx generate` (scope providers cannot be given there)
        return case

    # ----------------------------------------------------------------- impl
    def impl(self, case):
        ws = Workspace(case)
        quiet = [logging.getLogger(n) for n in ("textx.generators", "textx.cli.generate")]
        was_disabled = [g.disabled for g in quiet]
        for g in quiet:
            g.disabled = True     # "-> file", "-- NOT overwriting" chatter
        try:
            refs = ws.reference()
            texts = [x["text"] for x in refs]
            init = ws.apply_init(refs)
            start = ws.look(texts)
            steps = []
            for run in case["runs"]:
                i = run["input"]
                out_dir = None if case.get("beside") else ws.out
                with Layer(ws.d, run["crash"], run.get("exc", "OSError"), watch=ws.tpaths[i], mode=ws.mode) as lay:
                    raised = None
                    try:
                        ws.call(i, out_dir, run["overwrite"])
                    except BaseException as e:   # the injected failure (or anything the generator raises)
                        raised = type(e).__name__
                seen = ws.look(texts)
                states = seen["states"]
                touched = any(e[0] in ("open", "replace", "rename") for e in lay.events)
                steps.append({
                    "raised": raised,
                    "triggered": lay.triggered,
                    "fired": lay.fired,
                    "refires": lay.refires,
                    "touched": touched,
                    "state": states[ws.targets.index(ws.tpaths[i])],
                    "states": states,
                    "dstates": seen["dstates"],
                    "entries": seen["entries"],
                    "extra": seen["extra"],
                    "mid": None if lay.mid is None else
                    {"before": lay.mid["before"], "state": ws.state_of(ws.tpaths[i], lay.mid["content"], texts)},
                    "writes": lay.writes,
                    "events": [e for e in lay.events if e[0] != "write!"][:12],
                })
            paths = [ws.targets.index(t) for t in ws.tpaths]
            # inputs with the same output file and the same complete output are the same content
            canon = [min(j for j in range(len(texts)) if paths[j] == paths[i] and texts[j] == texts[i])
                     for i in range(len(texts))]
            return {"writes": [x["writes"] for x in refs], "sizes": [len(t) for t in texts],
                    "paths": paths, "canon": canon, "init": init, "start": start, "steps": steps}
        finally:
            for g, w in zip(quiet, was_disabled):
                g.disabled = w
            ws.close()

    # ---------------------------------------------------------------- model
    @staticmethod
    def outcome(step):
        if step["raised"]:
            return "failed"
        return "done" if step["touched"] else "skipped"

    @staticmethod
    def chunks(obs, i):
        """chunk ids of the complete output of input i (shared by inputs with identical output for the same file)"""
        return [1000 * obs["canon"][i] + j for j in range(obs["writes"][i])]

    def model_req(self, case, obs):
        runs = []
        for run, st in zip(case["runs"], obs["steps"]):
            i = run["input"]
            n = obs["writes"][i]
            crash = run["crash"] if st["triggered"] or run["crash"] == "none" or self.unreachable(run["crash"], n) else None
            if crash is None:
                # the failure point was not reached although the run did write: the writer is invisible to the injection
                crash = "none"
            if isinstance(crash, list) and crash[0] == "call":
                # "the k-th fallible call, whatever it is": the model's crash point is the call that was hit
                grp, j = st["fired"] if st["triggered"] else ("none", 0)
                if grp == "none":
                    crash = "none"
                elif grp == "write" and j < n:
                    crash = ["write", j, bool(crash[2])]
                elif grp in ("open", "close", "replace") and j == 0:
                    crash = grp
                else:
                    # a call the modelled code does not make (a second open / close, one write more): the model
                    # has no such crash point — the direct oracle alone judges this case
                    return None
            runs.append({"path": obs["paths"][i], "chunks": self.chunks(obs, i), "overwrite": run["overwrite"],
                         "crash": crash})
        ids, init = self.model_paths(obs)
        return {"op": "history", "algo": "new", "runs": runs, "paths": ids, "ops": True, "init": init,
                "persist": case.get("mode", "once") == "persist"}

    @staticmethod
    def model_paths(obs):
        """model paths of the history — output file t: t; the file behind it (link destination / other hard link):
        DEST + t — and the starting directory in the driver's format"""
        start = obs["start"]
        nt = len(start["states"])
        ids = list(range(nt)) + [DEST + t for t in range(nt) if start["dstates"][t] is not None]
        init = []
        for t in range(nt):
            init.append({"path": t, "content": None if start["states"][t] == "absent" else [FOREIGN_ID],
                         "tmp": bool(obs["init"][t]["stale"])})
            if start["dstates"][t] is not None:
                init.append({"path": DEST + t, "content": None if start["dstates"][t] == "absent" else [FOREIGN_ID],
                             "tmp": False})
        return ids, init

    @staticmethod
    def unreachable(crash, n):
        return isinstance(crash, list) and crash[1] >= n

    def model_states(self, case, obs, out):
        """per step: (outcome, {model path: state}, [temporary present])"""
        fulls = {}
        for i in range(len(obs["writes"])):
            fulls.setdefault((obs["paths"][i], tuple(self.chunks(obs, i))), obs["canon"][i])
        ids, _ = self.model_paths(obs)
        res = []
        for st in out["steps"]:
            states, tmps = {}, []
            for p, ent in zip(ids, st["all"]):
                pieces = ent["target"]
                owner = p - DEST if p >= DEST else p
                if pieces is None:
                    state = "absent"
                elif pieces == [["f", FOREIGN_ID]]:
                    state = "foreign"
                elif all(x[0] == "f" for x in pieces) and (owner, tuple(x[1] for x in pieces)) in fulls:
                    state = "complete:%d" % fulls[(owner, tuple(x[1] for x in pieces))]
                else:
                    state = "partial"
                states[p] = state
                tmps.append(ent["tmp"])
            res.append((st["outcome"], states, tmps))
        return res

    @staticmethod
    def norm_state(s):
        return s if s in ("absent", "foreign") or s.startswith("complete") else "partial"

    def compare(self, case, obs, out):
        if "err" in out:
            return f"model rejected the request: {out}"
        xprev = obs["start"]["extra"]
        for k, (st, (mo, mstates, mtmps)) in enumerate(zip(obs["steps"], self.model_states(case, obs, out))):
            io_ = self.outcome(st)
            if io_ != mo:
                return f"run {k}: implementation {io_} (raised {st['raised']}), model {mo}"
            for p, s in enumerate(st["states"]):
                if self.norm_state(s) != mstates[p]:
                    return f"run {k}: output file {p} is {s} after the run, model says {mstates[p]}"
            for p, s in enumerate(st["dstates"]):
                # the file behind a link / the other hard link: the modelled code never writes to it; code that
                # commits a complete output through the link is as good for the property
                if s is not None and self.norm_state(s) != mstates[DEST + p] and not (
                        s == st["states"][p] and s.startswith("complete")):
                    return f"run {k}: the file behind output file {p} is {s} after the run, model says {mstates[DEST + p]}"
            # the model never creates a leftover: a temporary sibling is there after a run only if a stale one was
            # there before and the run was skipped.  That the modelled code also clears a stale file away when it
            # does run is incidental (not compared): only new or changed leftovers count
            left = [x for x in st["extra"] if x not in xprev]
            if left or (any(mtmps) and not st["extra"]):
                return f"run {k}: leftover files {st['extra']} (new or changed: {left}), model says temporary present = {any(mtmps)}"
            xprev = st["extra"]
            # operation level: is the output file touched before the last operation of the export
            info = out["steps"][k].get("ops")
            if info is not None:
                m_mid = not info["midSame"] or (mo == "failed" and not info["lastSame"])
                if m_mid != self.mid_bad(st):
                    return (f"run {k}: output file modified while the export was under way: implementation "
                            f"{st.get('mid')}, model ({info['n']} operations, the last one {info['last']}) says {m_mid}")
        return None

    @staticmethod
    def mid_bad(st):
        """the output file held something other than a complete output at some point before the end of the run"""
        mid = st.get("mid")
        return bool(mid) and not mid["state"].startswith("complete")

    # --------------------------------------------------------------- oracle
    def oracle(self, case, obs):
        start = obs["start"]
        prevs, dprevs, eprevs, xprev = start["states"], start["dstates"], start["entries"], start["extra"]
        how = {"once": "", "persist": ", and every later write / flush / close"}[case.get("mode", "once")]
        for k, (run, st) in enumerate(zip(case["runs"], obs["steps"])):
            own = obs["paths"][run["input"]]
            prev, state = prevs[own], st["state"]
            good = state in ("absent", "foreign") or state.startswith("complete")
            left = [x for x in st["extra"] if x not in xprev]
            if left:
                # a leftover that was there before the run (a stale file of a killed run) is not this run's doing —
                # unless the run changed it
                return (f"run {k}: files left behind next to the output: {[[x[0], x[1]] for x in left]} (name, size; "
                        f"after failure at {run['crash']}{how}, raised {st['raised']})")
            if self.mid_bad(st):
                # "fails at any point": a generator that stops between two file operations leaves what is there then
                return (f"run {k}: before operation '{st['mid']['before']}' of the export the output file was already "
                        f"{st['mid']['state']} (it was {prev} before the run) — a generator that fails there leaves it so")
            for p, (a, b) in enumerate(zip(prevs, st["states"])):
                if p != own and a != b:
                    return f"run {k} (for output file {own}) changed output file {p} from {a} to {b}"
            want = "complete:%d" % obs["canon"][run["input"]]
            for p, (a, b) in enumerate(zip(dprevs, st["dstates"])):
                # the file the output file name leads to (link destination, other hard link) is generated output as
                # well: as before, or — after a completed run for it — the complete output
                if a != b and not (p == own and not st["raised"] and st["touched"] and b == want):
                    return (f"run {k} ({'failed at %s%s' % (run['crash'], how) if st['raised'] else 'returned normally'}): "
                            f"the file behind output file {p} ({obs['init'][p]['kind']}) changed from {a} to {b}")
            if st["raised"]:
                if not st["triggered"]:
                    return f"run {k}: the generator raised {st['raised']} without an injected failure"
                if not good:
                    return (f"run {k}: failure at {run['crash']} ({st['raised']}) left a partially written output file "
                            f"({state}; complete would be {obs['sizes'][run['input']]} characters)")
                if state != prev:
                    return f"run {k}: failure at {run['crash']} changed the output file from {prev} to {state}"
            else:
                if st["triggered"] and not state.startswith("complete"):
                    return (f"run {k}: the injected failure at {run['crash']} was swallowed: the generator returned normally "
                            f"and the output file is {state} (complete would be {obs['sizes'][run['input']]} characters)")
                if st["triggered"]:
                    return f"run {k}: the injected failure at {run['crash']} was swallowed (generator returned normally), output is {state}"
                if st["touched"]:
                    if state != want:
                        return f"run {k}: generator returned normally but the output is {state}, expected {want}"
                    if not run["overwrite"] and prev != "absent":
                        return f"run {k}: existing output ({prev}) overwritten without --overwrite"
                else:
                    # skipped as already generated
                    if run["overwrite"] or prev == "absent":
                        return f"run {k}: nothing generated although overwrite={run['overwrite']} and the output was {prev}"
                    if not (prev.startswith("complete") or prev == "foreign"):
                        return f"run {k}: a partially written file ({prev}) was skipped as already generated"
                    if state != prev:
                        return f"run {k}: skipped but the output changed from {prev} to {state}"
            if (st["raised"] or not st["touched"]) and st["entries"] != eprevs:
                return (f"run {k} ({'failed' if st['raised'] else 'skipped'}): the kinds of the directory entries of the "
                        f"output files changed from {eprevs} to {st['entries']}")
            prevs, dprevs, eprevs, xprev = list(st["states"]), list(st["dstates"]), list(st["entries"]), list(st["extra"])
        return None

    # ------------------------------------------------------------- the rest
    def nontrivial(self, case, obs):
        return any(st["triggered"] and st["writes"] > 0 or st["triggered"] and run["crash"] in ("close", "replace")
                   for run, st in zip(case["runs"], obs["steps"]))

    def shrink(self, case):
        runs = case["runs"]
        if len(runs) > 1:
            for i in range(len(runs)):
                yield dict(case, runs=runs[:i] + runs[i + 1:])
        if len(case["inputs"]) > 1:
            yield dict(case, inputs=case["inputs"][:1], runs=[dict(r, input=0) for r in runs])
        for key in ("via", "beside", "args", "mode", "init"):
            if case.get(key):
                yield {k: v for k, v in case.items() if k != key}
        for t, ini in enumerate(case.get("init") or []):
            for simpler in ([{"kind": "none"}] if ini.get("kind", "none") != "none" and ini.get("stale") else []) + \
                    ([dict(ini, stale=False)] if ini.get("stale") else []):
                yield dict(case, init=case["init"][:t] + [simpler] + case["init"][t + 1:])
        for i, r in enumerate(runs):
            if r.get("exc", "OSError") != "OSError":
                yield dict(case, runs=runs[:i] + [dict(r, exc="OSError")] + runs[i + 1:])
            if isinstance(r["crash"], list) and r["crash"][1] > 0:
                for k in (0, r["crash"][1] // 2, r["crash"][1] - 1):
                    yield dict(case, runs=runs[:i] + [dict(r, crash=[r["crash"][0], k, r["crash"][2]])] + runs[i + 1:])
        # smaller file sets: drop a file nobody needs / a line of a file (candidates that no longer load are
        # rejected by the runner: the harness reports them as crashed)
        for i, inp in enumerate(case["inputs"]):
            files = inp.get("files")
            if not files:
                continue

            def with_files(new):
                return dict(case, inputs=case["inputs"][:i] + [dict(inp, files=new)] + case["inputs"][i + 1:])

            for name in files:
                if name != inp.get("main"):
                    rest = {n: "".join(l for l in t.splitlines(True) if name not in l)
                            for n, t in files.items() if n != name}
                    yield with_files(rest)
            for name, text in files.items():
                lines = text.splitlines(True)
                if len(lines) > 1:
                    for k in range(len(lines) - 1, -1, -1):
                        yield with_files(dict(files, **{name: "".join(lines[:k] + lines[k + 1:])}))

    def sample_view(self, case, obs):
        inp = case["inputs"][0]
        text = inp["text"] if "text" in inp else inp["files"][inp["main"]]
        view = {"kind": case["kind"], "runs": case["runs"], "input0": text[:200],
                "files0": sorted(inp.get("files") or []),
                "settings": {k: case[k] for k in ("provider", "args", "via", "beside", "mode", "init") if case.get(k)}}
        view["impl"] = obs if not isinstance(obs, dict) or "steps" not in obs else {
            "writes": obs["writes"], "paths": obs["paths"],
            "start": obs.get("start"),
            "steps": [{k: s.get(k) for k in ("raised", "triggered", "fired", "refires", "states", "dstates", "entries",
                                             "extra", "events")} for s in obs["steps"]]}
        return view

    def extra_search(self, rng, tier, broken):
        return list(self.gen(rng, 12, tier))

    def extra_evidence(self, cases, obs, model_outs):
        dist = {"runs": 0, "failed": 0, "done": 0, "skipped": 0, "fired_at_write": 0, "fired_partial_write": 0,
                "fired_open": 0, "fired_close": 0, "fired_replace": 0, "not_reached": 0, "by_kind": {}, "by_exc": {},
                "writes_per_export_max": 0, "inputs": 0, "by_provider": {}, "multi_file_inputs": 0,
                "two_output_files": 0, "via_cli": 0, "with_linetype": 0, "beside": 0,
                "fired_in_cluster_export": 0, "by_mode": {}, "by_init": {}, "stale_tmp": 0, "later_failures": 0,
                "fired_by_call_index": 0, "runs_on_linked_output": 0}
        seen_inputs = set()
        for c, o in zip(cases, obs):
            if not isinstance(o, dict) or "steps" not in o:
                continue
            dist["by_kind"][c["kind"]] = dist["by_kind"].get(c["kind"], 0) + 1
            md = c.get("mode", "once")
            dist["by_mode"][md] = dist["by_mode"].get(md, 0) + 1
            for ini in o.get("init") or []:
                dist["by_init"][ini["kind"]] = dist["by_init"].get(ini["kind"], 0) + 1
                dist["stale_tmp"] += bool(ini["stale"])
            inp = c["inputs"][0]
            key = json.dumps(inp, sort_keys=True)
            multi = len(inp.get("files") or ()) > 1
            if key not in seen_inputs:
                seen_inputs.add(key)
                dist["multi_file_inputs"] += multi
            if c["kind"] == "model_dot":
                pv = str(c.get("provider"))
                dist["by_provider"][pv] = dist["by_provider"].get(pv, 0) + 1
            dist["two_output_files"] += len(set(o["paths"])) > 1
            dist["via_cli"] += c.get("via") == "cli"
            dist["with_linetype"] += bool(c.get("args"))
            dist["beside"] += bool(c.get("beside"))
            dist["writes_per_export_max"] = max(dist["writes_per_export_max"], max(o["writes"]))
            for run, st in zip(c["runs"], o["steps"]):
                dist["runs"] += 1
                dist[self.outcome(st)] += 1
                dist["later_failures"] += st.get("refires", 0)
                dist["runs_on_linked_output"] += st["touched"] and o["init"][o["paths"][run["input"]]]["kind"] in (
                    "dangling", "link", "hardlink")
                if st["triggered"]:
                    dist["by_exc"][run.get("exc", "OSError")] = dist["by_exc"].get(run.get("exc", "OSError"), 0) + 1
                    cr = run["crash"]
                    if isinstance(cr, list) and cr[0] == "call":
                        dist["fired_by_call_index"] += 1
                    elif isinstance(cr, list):
                        dist["fired_at_write"] += 1
                        dist["fired_partial_write"] += bool(cr[2])
                        dist["fired_in_cluster_export"] += c["kind"] == "model_dot" and multi and run["input"] == 0
                    else:
                        dist["fired_" + cr] += 1
                elif run["crash"] != "none":
                    dist["not_reached"] += 1
        dist["inputs"] = len(seen_inputs)
        return {"distribution": dist}
