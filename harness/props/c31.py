"""C31 — generated output files are all-or-nothing.

Implementation side: the three built-in generators (textX->dot, textX->PlantUML,
any->dot), looked up through the registration API, are run on generated
grammars / models in a scratch directory while `open` (write modes, inside the
scratch directory only), `os.replace` / `os.rename` are wrapped by a
fault-injecting layer: the k-th `write` (optionally after writing part of its
data), the `open`, the `flush`/`close`, or the `replace` raises.  A case is a
history of 1..4 runs on the same output file (two input variants, `--overwrite`
on/off, one crash point per run); after every run the output directory is
inspected.  Model side: `GenFile.trace exportNew` (Drivers/GenFile.lean) on the
same history with the observed number of writes.
"""
import builtins
import io
import logging
import os
import re
import shutil
import tempfile

from harness.core import Check, use_repo

KINDS = ["mm_dot", "mm_pu", "model_dot"]
EXT = {"mm_dot": "dot", "mm_pu": "pu", "model_dot": "dot"}
GEN_KEY = {"mm_dot": ("textx", "dot"), "mm_pu": ("textx", "plantuml"), "model_dot": ("any", "dot")}
EXC = {"OSError": lambda: OSError(28, "No space left on device (injected)"),
       "RuntimeError": lambda: RuntimeError("injected failure"),
       "KeyboardInterrupt": lambda: KeyboardInterrupt()}

MODEL_GRAMMAR = """
Model: 'model' name=ID items+=Item refs*=Ref;
Item: 'item' name=ID ('=' v=INT)? (tags+=STRING[','])? (sub=Sub)?;
Sub: '{' vals+=INT[','] '}';
Ref: 'ref' a=[Item] ('->' b=[Item])?;
"""


# ---------------------------------------------------------------------------
# inputs
# ---------------------------------------------------------------------------
def gen_grammar(rng):
    """a small random textX grammar: common rules with containment, references, lists, optional parts,
    an abstract rule and a match rule; every rule starts with its own keyword (no left recursion)"""
    n = rng.randint(1, 5)
    names = [f"R{i}" for i in range(n)]
    use_match = rng.chance(0.5)
    use_abs = n >= 2 and rng.chance(0.6)
    rules = []
    for i, nm in enumerate(names):
        parts = [f"'r{i}'", "name=ID"]
        for a in range(rng.randint(0, 4)):
            k = rng.weighted([("int", 2), ("str", 2), ("cont", 3), ("contlist", 3), ("ref", 3), ("reflist", 2),
                              ("bool", 1), ("match", 2 if use_match else 0), ("abs", 2 if use_abs else 0)])
            t = rng.choice(names)
            an = f"a{a}"
            if k == "int":
                p = f"{an}=INT"
            elif k == "str":
                p = f"{an}=STRING"
            elif k == "cont":
                p = f"{an}={t}"
            elif k == "contlist":
                p = f"{an}+={t}"
            elif k == "ref":
                p = f"{an}=[{t}]"
            elif k == "reflist":
                p = f"{an}*=[{t}][',']"
            elif k == "bool":
                p = f"{an}?='flag{a}'"
            elif k == "match":
                p = f"{an}=Kw"
            else:
                p = f"{an}=Base"
            if rng.chance(0.3):
                p = f"('k{a}' {p})?"
            parts.append(p)
        parts.append("';'")
        rules.append(f"{nm}: {' '.join(parts)};")
    if use_abs:
        rules.append("Base: " + " | ".join(rng.sample(names, rng.randint(2, len(names)))) + ";")
    if use_match:
        rules.append("Kw: 'alpha' | 'beta' | /g[a-m]+/;")
    top = "Top: " + " ".join(f"e{i}*={nm}" for i, nm in enumerate(names)) + ";"
    return "\n".join([top] + rules) + "\n"


def gen_model(rng):
    n = rng.randint(1, 5)
    lines = ["model m"]
    for i in range(n):
        s = f"item i{i}"
        if rng.chance(0.5):
            s += f" = {rng.below(100)}"
        if rng.chance(0.4):
            s += " " + ", ".join(f'"t{j}"' for j in range(rng.randint(1, 3)))
        if rng.chance(0.4):
            s += " { " + ", ".join(str(rng.below(9)) for _ in range(rng.randint(1, 3))) + " }"
        lines.append(s)
    for _ in range(rng.randint(0, 4)):
        s = f"ref i{rng.below(n)}"
        if rng.chance(0.5):
            s += f" -> i{rng.below(n)}"
        lines.append(s)
    return "\n".join(lines) + "\n"


def canon_text(s):
    """export text with the object identities (`id(obj)` numbers, new on every export of a metamodel)
    renamed in order of first occurrence"""
    seen = {}
    return re.sub(r"\d{7,}", lambda m: seen.setdefault(m.group(0), f"#{len(seen)}"), s)


# ---------------------------------------------------------------------------
# fault injection
# ---------------------------------------------------------------------------

class FaultFile:
    """write-mode file object of the scratch directory; counts write / flush / close calls"""

    def __init__(self, real, layer, path):
        self._f, self._layer, self._path = real, layer, path

    def write(self, data):
        return self._layer.on_write(self._f, data)

    def writelines(self, lines):
        for l in lines:
            self.write(l)

    def flush(self):
        self._layer.on_flush(self._f, "flush")
        return self._f.flush()

    def close(self):
        if self._f.closed:
            return
        self._f.close()  # what was written reaches the disk, then the failure is reported
        self._layer.on_flush(self._f, "close")

    def __enter__(self):
        return self

    def __exit__(self, et, ev, tb):
        self.close()
        return False

    def __getattr__(self, name):
        return getattr(self._f, name)

    def __iter__(self):
        return iter(self._f)


class Layer:
    """patches open / os.replace / os.rename for paths below `root` while active"""

    def __init__(self, root, crash, exc):
        self.root = os.path.realpath(root)
        self.crash = crash          # "none" | "open" | "close" | "replace" | ["write", k, partly]
        self.exc = exc
        self.writes = 0
        self.events = []
        self.triggered = False
        self.armed = True

    def inside(self, p):
        try:
            if isinstance(p, int):
                return False
            return os.path.realpath(os.fspath(p)).startswith(self.root + os.sep)
        except Exception:
            return False

    def fire(self):
        self.triggered = True
        self.armed = False
        raise EXC[self.exc]()

    def open(self, file, mode="r", *a, **kw):
        if self.inside(file) and any(c in mode for c in "wax+"):
            self.events.append(["open", os.path.basename(os.fspath(file)), mode])
            if self.armed and self.crash == "open":
                self.fire()
            return FaultFile(self._open(file, mode, *a, **kw), self, file)
        return self._open(file, mode, *a, **kw)

    def on_write(self, f, data):
        k = self.writes
        self.writes += 1
        if self.armed and isinstance(self.crash, list) and self.crash[0] == "write" and self.crash[1] == k:
            if self.crash[2] and len(data) > 1:
                f.write(data[: max(1, len(data) // 2)])
            self.events.append(["write!", k])
            self.fire()
        return f.write(data)

    def on_flush(self, f, what):
        self.events.append([what])
        if self.armed and self.crash == "close":
            self.fire()

    def replace(self, src, dst, *a, **kw):
        if self.inside(dst):
            self.events.append(["replace", os.path.basename(os.fspath(src)), os.path.basename(os.fspath(dst))])
            if self.armed and self.crash == "replace":
                self.fire()
        return self._replace(src, dst, *a, **kw)

    def rename(self, src, dst, *a, **kw):
        if self.inside(dst):
            self.events.append(["rename", os.path.basename(os.fspath(src)), os.path.basename(os.fspath(dst))])
            if self.armed and self.crash == "replace":
                self.fire()
        return self._rename(src, dst, *a, **kw)

    def remove(self, p, *a, **kw):
        if self.inside(p):
            self.events.append(["remove", os.path.basename(os.fspath(p))])
        return self._remove(p, *a, **kw)

    def unlink(self, p, *a, **kw):
        if self.inside(p):
            self.events.append(["remove", os.path.basename(os.fspath(p))])
        return self._unlink(p, *a, **kw)

    def __enter__(self):
        self._open, self._replace, self._rename = builtins.open, os.replace, os.rename
        self._remove, self._unlink, self._ioopen = os.remove, os.unlink, io.open
        builtins.open = self.open
        io.open = self.open
        os.replace, os.rename, os.remove, os.unlink = self.replace, self.rename, self.remove, self.unlink
        return self

    def __exit__(self, *a):
        builtins.open = self._open
        io.open = self._ioopen
        os.replace, os.rename, os.remove, os.unlink = self._replace, self._rename, self._remove, self._unlink
        return False


class Workspace:
    """scratch directory with the loaded inputs of one case"""

    def __init__(self, case):
        use_repo()
        from textx import generator_for_language_target, metamodel_for_language, metamodel_from_str

        self.case = case
        self.kind = case["kind"]
        self.d = tempfile.mkdtemp(prefix="c31-")
        self.out = os.path.join(self.d, "out")
        os.mkdir(self.out)
        self.gen = generator_for_language_target(*GEN_KEY[self.kind])
        self.objs = []
        self.mm = None
        for i, inp in enumerate(case["inputs"]):
            ind = os.path.join(self.d, f"in{i}")
            os.mkdir(ind)
            if self.kind == "model_dot":
                if self.mm is None:
                    self.mm = metamodel_from_str(MODEL_GRAMMAR)
                path = os.path.join(ind, "input.c31")
                with open(path, "w") as f:
                    f.write(inp["text"])
                self.objs.append(self.mm.model_from_file(path))
            else:
                path = os.path.join(ind, "input.tx")
                with open(path, "w") as f:
                    f.write(inp["text"])
                self.mm = metamodel_for_language("textx")
                self.objs.append(self.mm.model_from_file(path))
        self.target_name = "input." + EXT[self.kind]

    def target(self):
        if self.case.get("beside"):
            return os.path.join(self.d, "in0", self.target_name)
        return os.path.join(self.out, self.target_name)

    def call(self, i, out_dir, overwrite):
        self.gen(self.mm, self.objs[i], out_dir, overwrite, False)

    def reference(self):
        """fault-free export of every input into its own directory: content and number of writes"""
        refs = []
        for i in range(len(self.objs)):
            rd = os.path.join(self.d, f"ref{i}")
            os.mkdir(rd)
            with Layer(self.d, "none", "OSError") as lay:
                self.call(i, rd, True)
            with open(os.path.join(rd, self.target_name), encoding="utf-8") as f:
                refs.append({"text": canon_text(f.read()), "writes": lay.writes})
        return refs

    def listing(self):
        """files of the output directory / input directory 0 other than the input"""
        d = os.path.dirname(self.target())
        return sorted(x for x in os.listdir(d) if x not in ("input.tx", "input.c31"))

    def close(self):
        shutil.rmtree(self.d, ignore_errors=True)


def count_writes(kind, text):
    """number of write calls the real exporter makes for this input (sizes the crash-point enumeration)"""
    ws = None
    glog = logging.getLogger("textx.generators")
    was_disabled = glog.disabled
    glog.disabled = True
    try:
        ws = Workspace({"kind": kind, "inputs": [{"text": text}]})
        return ws.reference()[0]["writes"]
    except Exception:
        return None
    finally:
        glog.disabled = was_disabled
        if ws is not None:
            ws.close()


class Prop(Check):
    ID = "C31"
    LEAN_MODULE = "TextxVerif.Props.C31"
    THEOREMS = ["GenFile.C31_atomic", "GenFile.C31_complete", "GenFile.C31_history", "GenFile.C31_no_skip",
                "GenFile.C31_skip_iff", "GenFile.C31_pinned_false", "GenFile.C31_pinned_overwrite_false"]
    DRIVER = "Drivers/GenFile.lean"
    QUICK_CASES = 12       # inputs (about 300 cases: one Lean driver process); every write of every input gets its own case (see gen)
    THOROUGH_CASES = 200
    PROCS_QUICK = 4
    PROCS_THOROUGH = 4
    RULE = ("inputs = random textX grammars (dot and PlantUML metamodel export) and random models (model dot export); "
            "for every input one case per write call k (failure at write k, half of the cases after a partial write) "
            "plus the open / flush-close / replace / no-failure points; each case is a history of 1..4 runs on the same "
            "output file (second input variant, --overwrite on/off, OSError / RuntimeError / KeyboardInterrupt); "
            "non-trivial = an injected failure fired while the output was being produced")
    MODELLED = ("hand-modelled: export.py _open_output as used by metamodel_export/model_export, generators.py gen_file "
                "(GenFile.exportNew/genFile/runAll); tie X: per run outcome (done/skipped/failed), state of the target "
                "(absent / complete output of input i / anything else) and leftover files vs the model on the same "
                "history; not exhibited: OS-level durability (power loss, non-atomic rename), failures of os.remove")
    ASSUMPTIONS = [
        "a failure is an exception raised by open / write / flush / close / os.replace (or by the renderer between two writes)",
        "os.replace is atomic (POSIX rename semantics)",
        "fault injection sees writers that go through builtins.open / io.open and os.replace / os.rename",
    ]

    # ------------------------------------------------------------------ gen
    def gen(self, rng, n, tier):
        for i in range(n):
            r = rng.fork(f"input{i}")
            kind = KINDS[i % 3]
            mk = gen_model if kind == "model_dot" else gen_grammar
            inputs = [{"text": mk(r)}]
            if r.chance(0.6):
                inputs.append({"text": mk(r)})
            nw = count_writes(kind, inputs[0]["text"])
            if nw is None:
                nw = 8
            points = [["write", k, bool((k + i) % 2)] for k in range(nw)]
            points += ["open", "close", "replace", "none", ["write", nw, False]]
            for p in points:
                yield self.gen_history(r, kind, inputs, p)

    def gen_history(self, r, kind, inputs, point):
        exc = r.weighted([("OSError", 6), ("RuntimeError", 2), ("KeyboardInterrupt", 1)])
        runs = []
        shape = r.weighted([("crash-retry", 4), ("done-crash-skip", 3), ("crash", 1), ("random", 3)])
        nin = len(inputs)

        def run(inp, ow, crash):
            return {"input": inp, "overwrite": ow, "crash": crash, "exc": exc}

        if shape == "crash":
            runs = [run(0, r.chance(0.5), point)]
        elif shape == "crash-retry":
            runs = [run(0, r.chance(0.3), point), run(r.below(nin), False, "none")]
        elif shape == "done-crash-skip":
            runs = [run(r.below(nin), r.chance(0.3), "none"), run(0, True, point), run(r.below(nin), False, "none")]
        else:
            for j in range(r.randint(2, 4)):
                runs.append(run(r.below(nin), r.chance(0.5), "none"))
            runs[r.below(len(runs))] = run(0, r.chance(0.6), point)
            if r.chance(0.4):
                k = r.below(len(runs))
                if runs[k]["crash"] == "none":
                    runs[k] = dict(runs[k], crash=r.choice(["open", "close", "replace", ["write", r.below(6), r.chance(0.5)]]))
        case = {"kind": kind, "inputs": inputs, "runs": runs}
        if nin == 1 and r.chance(0.25):
            case["beside"] = True     # no --output-path: the file is generated next to the input
        return case

    # ----------------------------------------------------------------- impl
    def impl(self, case):
        ws = Workspace(case)
        glog = logging.getLogger("textx.generators")
        was_disabled = glog.disabled
        glog.disabled = True     # "-> file", "-- NOT overwriting" chatter
        try:
            refs = ws.reference()
            texts = [x["text"] for x in refs]
            steps = []
            out_dir = None if case.get("beside") else ws.out
            for run in case["runs"]:
                before = ws.listing()
                with Layer(ws.d, run["crash"], run.get("exc", "OSError")) as lay:
                    raised = None
                    try:
                        ws.call(run["input"], out_dir, run["overwrite"])
                    except BaseException as e:   # the injected failure (or anything the generator raises)
                        raised = type(e).__name__
                tgt = ws.target()
                if os.path.exists(tgt):
                    with open(tgt, encoding="utf-8", errors="replace") as f:
                        content = canon_text(f.read())
                    state = "other:%d" % len(content)
                    for i, t in enumerate(texts):
                        if content == t:
                            state = f"complete:{i}"
                            break
                    if state.startswith("other") and any(t.startswith(content) for t in texts):
                        state = "truncated:%d" % len(content)
                else:
                    state = "absent"
                touched = any(e[0] in ("open", "replace", "rename") for e in lay.events)
                steps.append({
                    "raised": raised,
                    "triggered": lay.triggered,
                    "touched": touched,
                    "state": state,
                    "extra": [x for x in ws.listing() if x != ws.target_name],
                    "writes": lay.writes,
                    "events": [e for e in lay.events if e[0] != "write!"][:12],
                })
            return {"writes": [x["writes"] for x in refs], "sizes": [len(t) for t in texts],
                    "same": len(texts) == 2 and texts[0] == texts[1], "steps": steps}
        finally:
            glog.disabled = was_disabled
            ws.close()

    # ---------------------------------------------------------------- model
    @staticmethod
    def outcome(step):
        if step["raised"]:
            return "failed"
        return "done" if step["touched"] else "skipped"

    def model_req(self, case, obs):
        runs = []
        for run, st in zip(case["runs"], obs["steps"]):
            i = run["input"]
            n = obs["writes"][i]
            # identical texts of two variants are the same content: share the chunk ids
            base = 0 if obs["same"] else 1000 * i
            crash = run["crash"] if st["triggered"] or run["crash"] == "none" or self.unreachable(run["crash"], n) else None
            if crash is None:
                # the failure point was not reached although the run did write: the writer is invisible to the injection
                crash = "none"
            runs.append({"path": 0, "chunks": [base + j for j in range(n)], "overwrite": run["overwrite"], "crash": crash})
        return {"op": "history", "algo": "new", "runs": runs}

    @staticmethod
    def unreachable(crash, n):
        return isinstance(crash, list) and crash[1] >= n

    def model_states(self, case, obs, out):
        res = []
        fulls = {}
        for i, n in enumerate(obs["writes"]):
            base = 0 if obs["same"] else 1000 * i
            fulls.setdefault(tuple(base + j for j in range(n)), i)
        for st in out["steps"]:
            if st["target"] is None:
                state = "absent"
            else:
                pieces = st["target"]
                if all(p[0] == "f" for p in pieces) and tuple(p[1] for p in pieces) in fulls:
                    state = "complete:%d" % fulls[tuple(p[1] for p in pieces)]
                else:
                    state = "partial"
            res.append((st["outcome"], state, st["tmp"]))
        return res

    @staticmethod
    def norm_state(s):
        return s if s == "absent" or s.startswith("complete") else "partial"

    def compare(self, case, obs, out):
        if "err" in out:
            return f"model rejected the request: {out}"
        for k, (st, (mo, ms, mtmp)) in enumerate(zip(obs["steps"], self.model_states(case, obs, out))):
            io_ = self.outcome(st)
            if io_ != mo:
                return f"run {k}: implementation {io_} (raised {st['raised']}), model {mo}"
            if self.norm_state(st["state"]) != ms:
                return f"run {k}: target is {st['state']} after the run, model says {ms}"
            if bool(st["extra"]) != mtmp:
                return f"run {k}: leftover files {st['extra']}, model says temporary present = {mtmp}"
        return None

    # --------------------------------------------------------------- oracle
    def oracle(self, case, obs):
        prev = "absent"
        for k, (run, st) in enumerate(zip(case["runs"], obs["steps"])):
            state = st["state"]
            good = state == "absent" or state.startswith("complete")
            if st["extra"]:
                return f"run {k}: files left behind next to the output: {st['extra']} (after {run['crash']}, raised {st['raised']})"
            if st["raised"]:
                if not st["triggered"]:
                    return f"run {k}: the generator raised {st['raised']} without an injected failure"
                if not good:
                    return (f"run {k}: failure at {run['crash']} ({st['raised']}) left a partially written output file "
                            f"({state}; complete would be {obs['sizes'][run['input']]} characters)")
                if state != prev:
                    return f"run {k}: failure at {run['crash']} changed the output file from {prev} to {state}"
            else:
                if st["triggered"]:
                    return f"run {k}: the injected failure at {run['crash']} was swallowed (generator returned normally), output is {state}"
                if st["touched"]:
                    want = "complete:%d" % (0 if obs["same"] else run["input"])
                    if state != want:
                        return f"run {k}: generator returned normally but the output is {state}, expected {want}"
                    if not run["overwrite"] and prev != "absent":
                        return f"run {k}: existing output ({prev}) overwritten without --overwrite"
                else:
                    # skipped as already generated
                    if run["overwrite"] or prev == "absent":
                        return f"run {k}: nothing generated although overwrite={run['overwrite']} and the output was {prev}"
                    if not prev.startswith("complete"):
                        return f"run {k}: a partially written file ({prev}) was skipped as already generated"
                    if state != prev:
                        return f"run {k}: skipped but the output changed from {prev} to {state}"
            prev = state
        return None

    # ------------------------------------------------------------- the rest
    def nontrivial(self, case, obs):
        return any(st["triggered"] and st["writes"] > 0 or st["triggered"] and run["crash"] in ("close", "replace")
                   for run, st in zip(case["runs"], obs["steps"]))

    def shrink(self, case):
        runs = case["runs"]
        if len(runs) > 1:
            for i in range(len(runs)):
                yield dict(case, runs=runs[:i] + runs[i + 1:])
        if len(case["inputs"]) > 1:
            yield dict(case, inputs=case["inputs"][:1], runs=[dict(r, input=0) for r in runs])
        for i, r in enumerate(runs):
            if r.get("exc", "OSError") != "OSError":
                yield dict(case, runs=runs[:i] + [dict(r, exc="OSError")] + runs[i + 1:])
            if isinstance(r["crash"], list) and r["crash"][1] > 0:
                for k in (0, r["crash"][1] // 2, r["crash"][1] - 1):
                    yield dict(case, runs=runs[:i] + [dict(r, crash=["write", k, r["crash"][2]])] + runs[i + 1:])

    def sample_view(self, case, obs):
        return {"kind": case["kind"], "runs": case["runs"], "input0": case["inputs"][0]["text"][:200],
                "impl": obs if not isinstance(obs, dict) or "steps" not in obs else
                {"writes": obs["writes"], "steps": [{k: s[k] for k in ("raised", "triggered", "state", "extra", "events")}
                                                    for s in obs["steps"]]}}

    def extra_search(self, rng, tier, broken):
        return list(self.gen(rng, 12, tier))

    def extra_evidence(self, cases, obs, model_outs):
        dist = {"runs": 0, "failed": 0, "done": 0, "skipped": 0, "fired_at_write": 0, "fired_partial_write": 0,
                "fired_open": 0, "fired_close": 0, "fired_replace": 0, "not_reached": 0, "by_kind": {}, "by_exc": {},
                "writes_per_export_max": 0, "inputs": 0}
        seen_inputs = set()
        for c, o in zip(cases, obs):
            if not isinstance(o, dict) or "steps" not in o:
                continue
            dist["by_kind"][c["kind"]] = dist["by_kind"].get(c["kind"], 0) + 1
            seen_inputs.add(c["inputs"][0]["text"])
            dist["writes_per_export_max"] = max(dist["writes_per_export_max"], max(o["writes"]))
            for run, st in zip(c["runs"], o["steps"]):
                dist["runs"] += 1
                dist[self.outcome(st)] += 1
                if st["triggered"]:
                    dist["by_exc"][run.get("exc", "OSError")] = dist["by_exc"].get(run.get("exc", "OSError"), 0) + 1
                    cr = run["crash"]
                    if isinstance(cr, list):
                        dist["fired_at_write"] += 1
                        dist["fired_partial_write"] += bool(cr[2])
                    else:
                        dist["fired_" + cr] += 1
                elif run["crash"] != "none":
                    dist["not_reached"] += 1
        dist["inputs"] = len(seen_inputs)
        return {"distribution": dist}
