"""C34 — editor-support positions identify references and objects exactly.

Implementation side: valid projects of 1..4 model files (harness/props/c28_lang.py)
loaded with `textx_tools_support=True`: plain and qualified references (also
written `p1 . i3`), reference lists, random postponement schedules, nested
objects sharing their start or their whole span (Wrap ⊇ Inner ⊇ Core), packages,
imports.  Observed per model file: `_pos_crossref_list` (in list order),
`_pos_rule_dict` (in dict order, values numbered by the containment pre-order
of the objects) and the containment tree with the objects' spans.

Lean side (Drivers/Positions.lean, op `tools`): `LinkLoc.run` on the same
texts / reference spans / provider answers gives the cross-reference lists;
`PosDict.posRuleDict` on the observed object trees gives the position maps.

Direct oracle: from the texts and the loaded objects alone (see `oracle`).
"""
import os

from harness.core import Check, use_repo
from harness.props import c28_lang as L


class Prop(Check):
    ID = "C34"
    LEAN_MODULE = "TextxVerif.Props.C34"
    THEOREMS = [
        "LinkLoc.C34_refs_sorted_exact", "LinkLoc.C34_refs_pinned_false", "PosDict.C34_dict_keys",
        "PosDict.C34_dict_innermost", "PosDict.C34_dict_order", "PosDict.C34_dict_pinned_false",
        "PosDict.C34_wf_geo", "PosDict.C34_geo_spec", "PosDict.C34_dict_innermost_geo", "PosDict.C34_geo_of_build",
        "PosDict.C34_dict_innermost_built", "LinkLoc.C34_refs_total",
        "PosDict.C34_innermost_unique",
    ]
    DRIVER = "Drivers/Positions.lean"
    QUICK_CASES = 420
    THOROUGH_CASES = 30000
    PROCS_THOROUGH = 4  # builders share the machine; raise together with THOROUGH_CASES on a free one
    RULE = ("valid projects of 1..4 files with plain / qualified references (optionally with blanks around the dots), "
            "reference lists, random postponement schedules (0..3 rounds), nested objects sharing start or span, "
            "packages, imports; non-trivial = some reference is resolved after a textually later one of its file, or a "
            "reference text is longer than its target's name, or two nested objects have the same span")
    MODELLED = ("hand-modelled: model.py resolve_one_step RefRulePosition collection inside the resolution loop "
                "(LinkLoc.run), process_node pos_rule_dict collection and the final sort (PosDict.posRuleDict); tie X op "
                "tools: lists from texts / reference spans / schedules, maps from the observed object trees; not "
                "exhibited: the parser (spans of objects and reference nodes are inputs)")
    ASSUMPTIONS = [
        "object spans form a parse geometry - used only for the 'every object with that span contains the chosen one' "
        "clause: C34_dict_innermost wants `wf` (children inside the parent, in text order, non-empty), "
        "C34_dict_innermost_geo only the order-free `geo`, which C34_geo_of_build derives for every model built by "
        "Obj.build from a well-formed parse tree (C06's PT.WF, checked there on every real parse tree); here "
        "`PosDict.geo` is evaluated on every observed object tree (compare)",
        "references resolved through metamodel.builtins have no definition span and are not listed (not generated)",
    ]

    def gen(self, rng, n, tier):
        for k in range(n):
            r = rng.fork(f"case{k}")
            case = L.gen_project(r, max_elems=7)
            L.compress_waits(case)
            case["tools"] = True
            yield case

    # ----------------------------------------------------------------- impl
    def impl(self, case):
        R = L.render(case)
        model, exc, log, tmp, mm = L.load_project(case, R, True)
        try:
            if exc is not None:
                return {"outcome": "err", "type": type(exc).__name__, "msg": str(exc)[:300], "log": log}
            models = L.models_by_file(case, model)
            files = []
            items = {}
            for fi in range(len(case["files"])):
                m = models.get(fi)
                if m is None:
                    files.append(None)
                    continue
                files.append(self.observe_model(fi, m, items))
            return {"outcome": "ok", "files": files, "items": items, "log": log}
        finally:
            L.cleanup(tmp)

    def observe_model(self, fi, m, items):
        ids = {}

        def kids_of(o):
            ks = []
            for name, a in type(o)._tx_attrs.items():
                if not a.cont:
                    continue
                v = getattr(o, name, None)
                for x in (v if isinstance(v, list) else [v]):
                    if hasattr(x, "_tx_position") and hasattr(type(x), "_tx_attrs"):
                        ks.append(x)
            ks.sort(key=lambda x: x._tx_position)
            return ks

        def build(o):
            n = len(ids)
            ids[id(o)] = n
            if type(o).__name__ == "Item":
                items.setdefault(o.name, []).append([fi, o._tx_position, o._tx_position_end])
            return {"id": n, "cls": type(o).__name__, "s": o._tx_position, "e": o._tx_position_end,
                    "kids": [build(k) for k in kids_of(o)]}

        tree = build(m)
        refs = []
        for r in getattr(m, "_pos_crossref_list", None) or []:
            fn = r.def_file_name
            refs.append([r.name, r.ref_pos_start, r.ref_pos_end, None if fn is None else os.path.basename(str(fn)),
                         r.def_pos_start, r.def_pos_end])
        d = []
        for (s, e), o in (getattr(m, "_pos_rule_dict", None) or {}).items():
            d.append([s, e, ids.get(id(o), -1)])
        return {"has_list": hasattr(m, "_pos_crossref_list"), "has_dict": hasattr(m, "_pos_rule_dict"),
                "refs": refs, "tree": tree, "dict": d}

    # ---------------------------------------------------------------- model
    def model_req(self, case, obs):
        if obs["outcome"] != "ok" or any(f is None for f in obs["files"]):
            return None
        R = L.render(case)
        files, _ = L.lean_files(case, R)

        def final(r):
            fi, s, e = R.items[r["target"]][0]
            return ["R", None if case["str"] else L.fname(fi), s, e]

        def strip(t):
            return {"id": t["id"], "s": t["s"], "e": t["e"], "kids": [strip(k) for k in t["kids"]]}

        order = L.file_order(case)
        return {"op": "tools", "files": files, "ans": L.answer_table(case, R, final),
                "trees": [strip(obs["files"][fi]["tree"]) for fi in order]}

    def compare(self, case, obs, out):
        if "ok" not in out or "dicts" not in out:
            return f"model did not load the project: {str(out)[:200]}"
        R = L.render(case)
        order = L.file_order(case)
        byid = {(r["file"], r["start"]): r["id"] for r in R.refs}
        for k, fi in enumerate(order):
            f = obs["files"][fi]
            got = [[byid.get((fi, e[1]), -1)] + e[1:] for e in f["refs"]]
            if got != out["ok"][k]:
                return f"{L.fname(fi)}: _pos_crossref_list (ref id, start, end, def file, def start, def end) = {got}, model {out['ok'][k]}"
            if f["dict"] != out["dicts"][k]:
                return f"{L.fname(fi)}: _pos_rule_dict items (start, end, object) = {f['dict']}, model {out['dicts'][k]}"
            # the hypothesis of C34_dict_innermost_geo, evaluated by the model on the observed object tree
            if "geo" not in out or out["geo"][k] is not True:
                return (f"{L.fname(fi)}: the observed object tree does not have the parse geometry PosDict.geo "
                        f"(non-empty spans, children inside their parent, children pairwise disjoint)")
        return None

    # --------------------------------------------------------------- oracle
    def oracle(self, case, obs):
        if obs["outcome"] != "ok":
            return f"loading a valid project failed: {obs.get('type')} {obs.get('msg')}"
        R = L.render(case)
        for fi, f in enumerate(obs["files"]):
            if f is None:
                return f"{L.fname(fi)} was not loaded"
            if not f["has_list"] or not f["has_dict"]:
                return f"{L.fname(fi)}: model lacks _pos_crossref_list / _pos_rule_dict"
            # --- references: each once, ordered by start, exact spans, definition of the target
            want = sorted((r for r in R.refs if r["file"] == fi), key=lambda r: r["start"])
            got = f["refs"]
            starts = [e[1] for e in got]
            if starts != sorted(starts):
                return f"{L.fname(fi)}: _pos_crossref_list is not ordered by start position: {starts}"
            if starts != [r["start"] for r in want]:
                return (f"{L.fname(fi)}: _pos_crossref_list starts {starts} but the references of the file start at "
                        f"{[r['start'] for r in want]} (each must be listed once)")
            for e, r in zip(got, want):
                if e[2] != r["end"]:
                    return (f"{L.fname(fi)}: reference at {r['start']} is the text "
                            f"{R.texts[fi][r['start']:r['end']]!r} ending at {r['end']}, entry says end {e[2]}")
                tgt = obs["items"].get(r["target"])
                if not tgt or len(tgt) != 1:
                    return f"target {r['target']} not found once among the loaded objects"
                tfi, ts, te = tgt[0]
                wf = None if case["str"] else L.fname(tfi)
                if (e[3], e[4], e[5]) != (wf, ts, te):
                    return (f"{L.fname(fi)}: reference at {r['start']} to {r['target']}: definition "
                            f"(file, start, end) = {(e[3], e[4], e[5])}, target object is at {(wf, ts, te)}")
            # --- position map
            nodes = {}
            desc = {}

            def walk(t):
                nodes[t["id"]] = t
                below = []
                for k in t["kids"]:
                    below += [k["id"]] + walk(k)
                desc[t["id"]] = below
                return below

            walk(f["tree"])
            keys = [(s, e) for s, e, _ in f["dict"]]
            if len(set(keys)) != len(keys):
                return f"{L.fname(fi)}: duplicate keys in _pos_rule_dict"
            for s, e, oid in f["dict"]:
                if oid not in nodes:
                    return f"{L.fname(fi)}: span {(s, e)} is mapped to an object that is not part of the model"
                n = nodes[oid]
                if (n["s"], n["e"]) != (s, e):
                    return f"{L.fname(fi)}: span {(s, e)} is mapped to a {n['cls']} with span {(n['s'], n['e'])}"
                inner = [nodes[d]["cls"] for d in desc[oid] if (nodes[d]["s"], nodes[d]["e"]) == (s, e)]
                if inner:
                    return (f"{L.fname(fi)}: span {(s, e)} is mapped to {n['cls']} although the nested {inner} "
                            f"has the same span (innermost expected)")
            missing = [(n["s"], n["e"]) for n in nodes.values() if (n["s"], n["e"]) not in set(keys)]
            if missing:
                return f"{L.fname(fi)}: object spans {missing} have no entry in _pos_rule_dict"
            for i in range(len(keys)):
                for j in range(i + 1, len(keys)):
                    a, b = keys[i], keys[j]
                    if a != b and a[0] <= b[0] and b[1] <= a[1]:
                        return f"{L.fname(fi)}: span {a} is listed before the different span {b} it contains"
        return None

    def nontrivial(self, case, obs):
        if obs.get("outcome") != "ok":
            return False
        R = L.render(case)
        # resolved after a textually later reference of the same file
        byid = {r["id"]: r for r in R.refs}
        seen = {}
        for rid, what in obs.get("log", []):
            if what == "R" and rid in byid:
                r = byid[rid]
                if seen.get(r["file"], -1) > r["start"]:
                    return True
                seen[r["file"]] = max(seen.get(r["file"], -1), r["start"])
        for r in R.refs:
            if r["end"] - r["start"] != len(r["target"]):
                return True
        for f in obs["files"]:
            if f and len({(s, e) for s, e, _ in f["dict"]}) < self.count_nodes(f["tree"]):
                return True
        return False

    def count_nodes(self, t):
        return 1 + sum(self.count_nodes(k) for k in t["kids"])

    def sample_view(self, case, obs):
        R = L.render(case)
        v = {"mode": case["mode"], "str": case["str"], "texts": R.texts}
        if obs.get("outcome") == "ok":
            v["impl"] = [{"refs": f["refs"], "dict": f["dict"]} for f in obs["files"] if f]
        else:
            v["impl"] = {k: obs.get(k) for k in ("outcome", "type", "msg")}
        return v

    def extra_evidence(self, cases, obs, model_outs):
        late = qual = shared = multi = 0
        for c, o in zip(cases, obs):
            if not isinstance(o, dict) or o.get("outcome") != "ok":
                continue
            R = L.render(c)
            multi += len(c["files"]) > 1
            qual += any(r["end"] - r["start"] != len(r["target"]) for r in R.refs)
            shared += any(f and len({(s, e) for s, e, _ in f["dict"]}) < self.count_nodes(f["tree"]) for f in o["files"])
            byid = {r["id"]: r for r in R.refs}
            seen = {}
            hit = False
            for rid, what in o.get("log", []):
                if what == "R" and rid in byid:
                    r = byid[rid]
                    if seen.get(r["file"], -1) > r["start"]:
                        hit = True
                    seen[r["file"]] = max(seen.get(r["file"], -1), r["start"])
            late += hit
        return {"distribution": {"multi_file": multi, "qualified_or_spaced_reference": qual,
                                 "nested_objects_sharing_a_span": shared, "resolved_out_of_text_order": late}}

    # --------------------------------------------------------------- shrink
    def shrink(self, case):
        from harness.props.c28 import Prop as C28

        yield from C28().shrink(case)

    def extra_search(self, rng, tier, broken):
        return list(self.gen(rng, 1500, tier))
