"""C34 — editor-support positions identify references and objects exactly.

Implementation side: valid projects of 1..4 model files (harness/props/c28_lang.py)
loaded with `textx_tools_support=True`: plain and qualified references (also
written `p1 . i3`), reference lists, random postponement schedules, nested
objects sharing their start or their whole span (Wrap ⊇ Inner ⊇ Core), packages,
imports.  Observed per model file: `_pos_crossref_list` (in list order),
`_pos_rule_dict` (in dict order, values numbered by the containment pre-order
of the objects) and the containment tree with the objects' spans.

Since W34 also: user classes (`classes=[...]`, instances falsy through
`__bool__` / `__len__`, container-like, or all equal), a builtin model
(`metamodel.builtin_models`) loaded from a string without / with a file name or
from a file and referenced from the project, and the main model loaded from a
string with `file_name=` (an editor buffer).  Every model's own `_tx_filename`
is observed; the definition file of an entry is compared with the file name of
the model the target object lives in.

Lean side (Drivers/Positions.lean, op `tools`): `LinkLoc.run` on the same
texts / reference spans / provider answers gives the cross-reference lists;
`PosDict.posRuleDict` on the observed object trees gives the position maps.

Direct oracle: from the texts and the loaded objects alone (see `oracle`).
"""
import os

import tempfile

from harness.core import Check, use_repo
from harness.props import c28_lang as L

# --- W34: configurations the property's quantifier covers but c28_lang.gen_project never produces -----------------
# user classes (classes=[...]) whose instances may be falsy / all equal, string-loaded models with a file name
# ("buffer"), and a builtin model (metamodel.builtin_models) loaded from a string without / with file name or a file.
FLAVOURS = ["plain", "false", "len0", "len", "eq"]
CLASSES = ["Model", "Import", "Package", "Item", "Ref", "Use", "Wrap", "Inner", "Core"]


def mk_class(name, flavour):
    """user class `name`; flavour: plain | false (__bool__ False) | len0 (__len__ 0) | len (container-like: number of
    contained elements / targets) | eq (all instances equal, same hash)"""

    def __init__(self, **kw):
        for k, v in kw.items():
            setattr(self, k, v)

    ns = {"__init__": __init__}
    if flavour == "false":
        ns["__bool__"] = lambda self: False
    elif flavour == "len0":
        ns["__len__"] = lambda self: 0
    elif flavour == "len":
        def __len__(self):
            for a in ("elems", "targets"):
                try:
                    v = object.__getattribute__(self, a)
                except AttributeError:
                    continue
                return len(v) if isinstance(v, list) else 0
            return 0
        ns["__len__"] = __len__
    elif flavour == "eq":
        ns["__eq__"] = lambda self, other: type(other) is type(self)
        ns["__hash__"] = lambda self: 7
    return type(name, (), ns)


def full_case(case):
    """the case with the builtin model as one more (never imported) file, for rendering"""
    b = case.get("builtin")
    if not b:
        return case
    return dict(case, files=case["files"] + [{"name": L.fname(len(case["files"])), "imports": [], "elems": b["elems"]}])


def render(case):
    return L.render(full_case(case))


def load_mode(case):
    return "str" if case["str"] else (case.get("load") or "file")


def file_label(case, fi):
    """base name of `_tx_filename` of the model of file `fi` as the project is loaded (None: no file name)"""
    if fi == len(case["files"]):
        return None if case["builtin"]["how"] == "str" else L.fname(fi)
    return None if case["str"] else L.fname(fi)


def load_project(case, R):
    """c28_lang.load_project with user classes, builtin models and named string loading.
    Returns (models by file index | None, exception | None, log, tmpdir)."""
    use_repo()
    from textx import get_model, metamodel_from_str
    from textx.scoping import ModelRepository, Postponed
    from textx.scoping import providers as sp

    kw = {}
    if case.get("classes"):
        kw["classes"] = [mk_class(n, fl) for n, fl in sorted(case["classes"].items())]
    b = case.get("builtin")
    repo = None
    log = []
    tmp = tempfile.mkdtemp(prefix="verif-c34-")
    try:
        if b:
            repo = kw["builtin_models"] = ModelRepository()
        mm = metamodel_from_str(L.GRAMMAR, textx_tools_support=True, **kw)
        base = sp.PlainNameImportURI() if case["mode"] == "plain" else sp.FQNImportURI()
        waits = {(L.fname(r["file"]), r["start"]): (r["id"], r["wait"]) for r in R.refs}
        calls = {}
        limit = 50 * (len(R.refs) + 2)
        total = [0]

        def wrapper(obj, attr, obj_ref):
            total[0] += 1
            if total[0] > limit:
                raise L.NonTermination("scope provider called too often")
            fn = get_model(obj)._tx_filename
            key = (os.path.basename(fn) if fn else L.fname(0), obj_ref.position)
            rid, wait = waits.get(key, (None, 0))
            c = calls.get(key, 0)
            calls[key] = c + 1
            if wait == L.FOREVER or c < wait:
                log.append([rid, "P"])
                return Postponed()
            try:
                res = base(obj, attr, obj_ref)
            except Exception:
                log.append([rid, "X"])
                raise
            log.append([rid, "R" if res is not None else "U"])
            return res

        mm.register_scope_providers({"*.*": base, "Ref.target": wrapper, "Use.targets": wrapper})
        nb = len(case["files"])
        for i, t in enumerate(R.texts):
            if i == nb and b["how"] != "file":
                continue
            if case["str"] and i < nb:
                continue
            with open(os.path.join(tmp, L.fname(i)), "w", encoding="utf-8", newline="") as fh:
                fh.write(t)
        models = {}
        if b:
            path = os.path.join(tmp, L.fname(nb))
            if b["how"] == "str":
                bm = mm.model_from_str(R.texts[nb])
            elif b["how"] == "buffer":
                bm = mm.model_from_str(R.texts[nb], file_name=path)
            else:
                bm = mm.model_from_file(path)
            repo.add_model(bm)
            models[nb] = bm
        how = load_mode(case)
        path = os.path.join(tmp, L.fname(0))
        if how == "str":
            model = mm.model_from_str(R.texts[0])
        elif how == "buffer":
            # an editor buffer: the text, with the name of the file it belongs to
            model = mm.model_from_str(R.texts[0], file_name=path)
        else:
            model = mm.model_from_file(path)
        for fi, m in L.models_by_file(case, model).items():
            if fi < nb:
                models[fi] = m
        return models, None, log, tmp
    except Exception as e:  # everything the code under test raises is an observation
        return None, e, log, tmp


class Prop(Check):
    ID = "C34"
    LEAN_MODULE = "TextxVerif.Props.C34"
    THEOREMS = [
        "LinkLoc.C34_refs_sorted_exact", "LinkLoc.C34_refs_pinned_false", "PosDict.C34_dict_keys",
        "PosDict.C34_dict_innermost", "PosDict.C34_dict_order", "PosDict.C34_dict_pinned_false",
        "PosDict.C34_wf_geo", "PosDict.C34_geo_spec", "PosDict.C34_dict_innermost_geo", "PosDict.C34_geo_of_build",
        "PosDict.C34_dict_innermost_built", "LinkLoc.C34_refs_total",
        "PosDict.C34_innermost_unique",
    ]
    DRIVER = "Drivers/Positions.lean"
    QUICK_CASES = 420
    THOROUGH_CASES = 30000
    PROCS_THOROUGH = 4  # builders share the machine; raise together with THOROUGH_CASES on a free one
    RULE = ("valid projects of 1..4 files with plain / qualified references (optionally with blanks around the dots), "
            "reference lists, random postponement schedules (0..3 rounds), nested objects sharing start or span, "
            "packages, imports; user classes with falsy / container-like / all-equal instances, a builtin model "
            "(string without or with file name, file) as reference target, main model from file / string / string with "
            "file name; non-trivial = a reference to a falsy object, or to an object of another model whose file name "
            "is None, or some reference is resolved after a textually later one of its file, or a "
            "reference text is longer than its target's name, or two nested objects have the same span")
    MODELLED = ("hand-modelled: model.py resolve_one_step RefRulePosition collection inside the resolution loop "
                "(LinkLoc.run), process_node pos_rule_dict collection and the final sort (PosDict.posRuleDict); tie X op "
                "tools: lists from texts / reference spans / schedules, maps from the observed object trees; not "
                "exhibited: the parser (spans of objects and reference nodes are inputs); the truth value / equality of "
                "the target objects and the way a model got its file name are not model inputs: the model lists every "
                "answer that is not Postponed with the file name of the target's model, so any dependence of the code on "
                "them is a disagreement")
    ASSUMPTIONS = [
        "object spans form a parse geometry - used only for the 'every object with that span contains the chosen one' "
        "clause: C34_dict_innermost wants `wf` (children inside the parent, in text order, non-empty), "
        "C34_dict_innermost_geo only the order-free `geo`, which C34_geo_of_build derives for every model built by "
        "Obj.build from a well-formed parse tree (C06's PT.WF, checked there on every real parse tree); here "
        "`PosDict.geo` is evaluated on every observed object tree (compare)",
        "references resolved through metamodel.builtins have no definition span and are not listed (not generated)",
    ]

    def gen(self, rng, n, tier):
        for k in range(n):
            r = rng.fork(f"case{k}")
            case = L.gen_project(r, max_elems=7)
            L.compress_waits(case)
            case["tools"] = True
            self.extend(r.fork("w34"), case)
            yield case

    def extend(self, x, case):
        """W34: loading configuration, user classes, builtin model (see the module header)"""
        if not case["str"] and x.chance(0.3):
            case["load"] = "buffer"
        if x.chance(0.5):
            cl = {}
            for cn in CLASSES:
                if x.chance(0.6 if cn == "Item" else 0.3):
                    cl[cn] = x.choice(FLAVOURS)
            if cl:
                case["classes"] = cl
        if x.chance(0.4):
            cnt = [0, 0, 0]

            def elems(depth, n):
                out = []
                for _ in range(n):
                    k = x.weighted([("item", 5), ("pkg", 3 if depth < 2 else 0), ("wrap", 1)])
                    if k == "item" or (depth == 0 and not cnt[0] and _ == n - 1):
                        cnt[0] += 1
                        out.append({"k": "item", "name": f"b{cnt[0]}"})
                    elif k == "pkg":
                        cnt[1] += 1
                        out.append({"k": "pkg", "name": f"q{cnt[1]}", "elems": elems(depth + 1, x.randint(0 if case["mode"] == "plain" else 1, 2))})
                    else:
                        cnt[2] += 1
                        out.append({"k": "wrap", "name": f"d{cnt[2]}", "flag": "f" if x.chance(0.5) else None})
                return out

            be = elems(0, x.randint(1, 3))
            names = []

            def items_of(es):
                for e in es:
                    if e["k"] == "item":
                        names.append(e["name"])
                    elif e["k"] == "pkg":
                        items_of(e["elems"])

            items_of(be)
            how = x.weighted([("str", 3), ("buffer", 1), ("file", 1)])
            if case["str"] and how == "file":
                how = "buffer"  # the texts of a string project may contain '\r\n', which reading a file translates
            case["builtin"] = {"how": how, "elems": be}
            refs = [r for _, r in L.all_refs(case)]
            hit = False
            for r in refs:
                if x.chance(0.4):
                    r["target"] = x.choice(names)
                    hit = True
            if not hit and refs:
                x.choice(refs)["target"] = x.choice(names)

    # ----------------------------------------------------------------- impl
    def impl(self, case):
        R = render(case)
        models, exc, log, tmp = load_project(case, R)
        try:
            if exc is not None:
                return {"outcome": "err", "type": type(exc).__name__, "msg": str(exc)[:300], "log": log}
            files = []
            items = {}
            falsy = []
            for fi in range(len(R.texts)):
                m = models.get(fi)
                if m is None:
                    files.append(None)
                    continue
                f = self.observe_model(fi, m, items, falsy)
                fn = m._tx_filename
                f["fname"] = None if fn is None else os.path.basename(str(fn))
                files.append(f)
            return {"outcome": "ok", "files": files, "items": items, "falsy": sorted(falsy), "log": log}
        except Exception as e:  # user classes: observing must not depend on the objects' own protocol
            return {"outcome": "err", "type": "observe:" + type(e).__name__, "msg": str(e)[:300], "log": log}
        finally:
            L.cleanup(tmp)

    def observe_model(self, fi, m, items, falsy):
        ids = {}

        def kids_of(o):
            ks = []
            for name, a in type(o)._tx_attrs.items():
                if not a.cont:
                    continue
                v = getattr(o, name, None)
                for x in (v if type(v) is list else [v]):
                    if hasattr(x, "_tx_position") and hasattr(type(x), "_tx_attrs"):
                        ks.append(x)
            ks.sort(key=lambda x: x._tx_position)
            return ks

        def build(o):
            n = len(ids)
            ids[id(o)] = n
            if type(o).__name__ == "Item":
                items.setdefault(o.name, []).append([fi, o._tx_position, o._tx_position_end])
                if not o:
                    falsy.append(o.name)
            return {"id": n, "cls": type(o).__name__, "s": o._tx_position, "e": o._tx_position_end,
                    "kids": [build(k) for k in kids_of(o)]}

        tree = build(m)
        refs = []
        for r in getattr(m, "_pos_crossref_list", None) or []:
            fn = r.def_file_name
            refs.append([r.name, r.ref_pos_start, r.ref_pos_end, None if fn is None else os.path.basename(str(fn)),
                         r.def_pos_start, r.def_pos_end])
        d = []
        for (s, e), o in (getattr(m, "_pos_rule_dict", None) or {}).items():
            d.append([s, e, ids.get(id(o), -1)])
        return {"has_list": hasattr(m, "_pos_crossref_list"), "has_dict": hasattr(m, "_pos_rule_dict"),
                "refs": refs, "tree": tree, "dict": d}

    # ---------------------------------------------------------------- model
    def model_req(self, case, obs):
        if obs["outcome"] != "ok" or any(f is None for f in obs["files"]):
            return None
        R = render(case)
        files, _ = L.lean_files(case, R)

        def final(r):
            fi, s, e = R.items[r["target"]][0]
            return ["R", file_label(case, fi), s, e]

        def strip(t):
            return {"id": t["id"], "s": t["s"], "e": t["e"], "kids": [strip(k) for k in t["kids"]]}

        order = L.file_order(case)
        return {"op": "tools", "files": files, "ans": L.answer_table(case, R, final),
                "trees": [strip(obs["files"][fi]["tree"]) for fi in order + list(range(len(case["files"]), len(obs["files"])))]}

    def compare(self, case, obs, out):
        if "ok" not in out or "dicts" not in out:
            return f"model did not load the project: {str(out)[:200]}"
        R = render(case)
        order = L.file_order(case)
        byid = {(r["file"], r["start"]): r["id"] for r in R.refs}
        nmain = len(order)
        # the builtin model (if any) is not part of the resolution loop of the project: its tree / map only
        for k, fi in enumerate(order + list(range(len(case["files"]), len(obs["files"])))):
            f = obs["files"][fi]
            got = [[byid.get((fi, e[1]), -1)] + e[1:] for e in f["refs"]]
            if got != (out["ok"][k] if k < nmain else []):
                return (f"{L.fname(fi)}: _pos_crossref_list (ref id, start, end, def file, def start, def end) = {got}, "
                        f"model {out['ok'][k] if k < nmain else []}")
            if f["dict"] != out["dicts"][k]:
                return f"{L.fname(fi)}: _pos_rule_dict items (start, end, object) = {f['dict']}, model {out['dicts'][k]}"
            # the hypothesis of C34_dict_innermost_geo, evaluated by the model on the observed object tree
            if "geo" not in out or out["geo"][k] is not True:
                return (f"{L.fname(fi)}: the observed object tree does not have the parse geometry PosDict.geo "
                        f"(non-empty spans, children inside their parent, children pairwise disjoint)")
        return None

    # --------------------------------------------------------------- oracle
    def oracle(self, case, obs):
        if obs["outcome"] != "ok":
            return f"loading a valid project failed: {obs.get('type')} {obs.get('msg')}"
        R = render(case)
        for fi, f in enumerate(obs["files"]):
            if f is None:
                return f"{L.fname(fi)} was not loaded"
            if f["fname"] != file_label(case, fi):
                return f"{L.fname(fi)}: the model's _tx_filename is {f['fname']}, loaded as {file_label(case, fi)}"
            if not f["has_list"] or not f["has_dict"]:
                return f"{L.fname(fi)}: model lacks _pos_crossref_list / _pos_rule_dict"
            # --- references: each once, ordered by start, exact spans, definition of the target
            want = sorted((r for r in R.refs if r["file"] == fi), key=lambda r: r["start"])
            got = f["refs"]
            starts = [e[1] for e in got]
            if starts != sorted(starts):
                return f"{L.fname(fi)}: _pos_crossref_list is not ordered by start position: {starts}"
            if starts != [r["start"] for r in want]:
                return (f"{L.fname(fi)}: _pos_crossref_list starts {starts} but the references of the file start at "
                        f"{[r['start'] for r in want]} (each must be listed once)")
            for e, r in zip(got, want):
                if e[2] != r["end"]:
                    return (f"{L.fname(fi)}: reference at {r['start']} is the text "
                            f"{R.texts[fi][r['start']:r['end']]!r} ending at {r['end']}, entry says end {e[2]}")
                tgt = obs["items"].get(r["target"])
                if not tgt or len(tgt) != 1:
                    return f"target {r['target']} not found once among the loaded objects"
                tfi, ts, te = tgt[0]
                if (tfi, ts, te) != tuple(R.items[r["target"]][0]):
                    return f"target {r['target']} loaded at {(tfi, ts, te)}, written at {R.items[r['target']][0]}"
                wf = obs["files"][tfi]["fname"]  # the file name of the model the target object lives in
                if (e[3], e[4], e[5]) != (wf, ts, te):
                    return (f"{L.fname(fi)}: reference at {r['start']} to {r['target']}: definition "
                            f"(file, start, end) = {(e[3], e[4], e[5])}, target object is at {(wf, ts, te)}")
            # --- position map
            nodes = {}
            desc = {}

            def walk(t):
                nodes[t["id"]] = t
                below = []
                for k in t["kids"]:
                    below += [k["id"]] + walk(k)
                desc[t["id"]] = below
                return below

            walk(f["tree"])
            keys = [(s, e) for s, e, _ in f["dict"]]
            if len(set(keys)) != len(keys):
                return f"{L.fname(fi)}: duplicate keys in _pos_rule_dict"
            for s, e, oid in f["dict"]:
                if oid not in nodes:
                    return f"{L.fname(fi)}: span {(s, e)} is mapped to an object that is not part of the model"
                n = nodes[oid]
                if (n["s"], n["e"]) != (s, e):
                    return f"{L.fname(fi)}: span {(s, e)} is mapped to a {n['cls']} with span {(n['s'], n['e'])}"
                inner = [nodes[d]["cls"] for d in desc[oid] if (nodes[d]["s"], nodes[d]["e"]) == (s, e)]
                if inner:
                    return (f"{L.fname(fi)}: span {(s, e)} is mapped to {n['cls']} although the nested {inner} "
                            f"has the same span (innermost expected)")
            missing = [(n["s"], n["e"]) for n in nodes.values() if (n["s"], n["e"]) not in set(keys)]
            if missing:
                return f"{L.fname(fi)}: object spans {missing} have no entry in _pos_rule_dict"
            for i in range(len(keys)):
                for j in range(i + 1, len(keys)):
                    a, b = keys[i], keys[j]
                    if a != b and a[0] <= b[0] and b[1] <= a[1]:
                        return f"{L.fname(fi)}: span {a} is listed before the different span {b} it contains"
        return None

    def nontrivial(self, case, obs):
        if obs.get("outcome") != "ok":
            return False
        R = render(case)
        if self.w34_dims(case, obs, R):
            return True
        # resolved after a textually later reference of the same file
        byid = {r["id"]: r for r in R.refs}
        seen = {}
        for rid, what in obs.get("log", []):
            if what == "R" and rid in byid:
                r = byid[rid]
                if seen.get(r["file"], -1) > r["start"]:
                    return True
                seen[r["file"]] = max(seen.get(r["file"], -1), r["start"])
        for r in R.refs:
            if r["end"] - r["start"] != len(r["target"]):
                return True
        for f in obs["files"]:
            if f and len({(s, e) for s, e, _ in f["dict"]}) < self.count_nodes(f["tree"]):
                return True
        return False

    def w34_dims(self, case, obs, R):
        """which of the W34 configurations a loaded case really exercises"""
        dims = set()
        falsy = set(obs.get("falsy") or [])
        nb = len(case["files"])
        for r in R.refs:
            if r["target"] in falsy:
                dims.add("reference_to_falsy_object")
            tfi = R.items[r["target"]][0][0]
            if tfi != r["file"]:
                a, b = file_label(case, tfi), file_label(case, r["file"])
                if a is None and b is not None:
                    dims.add("target_in_nameless_model_referred_from_named_model")
                elif a is not None and b is None:
                    dims.add("target_in_named_model_referred_from_nameless_model")
                elif a is None and b is None:
                    dims.add("target_in_other_nameless_model")
                if tfi == nb:
                    dims.add("target_in_builtin_model")
        if load_mode(case) == "buffer":
            dims.add("string_loaded_with_file_name")
        if any(fl == "eq" for fl in (case.get("classes") or {}).values()):
            dims.add("user_class_all_equal")
        return dims

    def count_nodes(self, t):
        return 1 + sum(self.count_nodes(k) for k in t["kids"])

    def sample_view(self, case, obs):
        R = render(case)
        v = {"mode": case["mode"], "str": case["str"], "load": load_mode(case), "classes": case.get("classes"),
             "builtin": (case.get("builtin") or {}).get("how"), "texts": R.texts}
        if obs.get("outcome") == "ok":
            v["impl"] = [{"refs": f["refs"], "dict": f["dict"]} for f in obs["files"] if f]
        else:
            v["impl"] = {k: obs.get(k) for k in ("outcome", "type", "msg")}
        return v

    def extra_evidence(self, cases, obs, model_outs):
        late = qual = shared = multi = 0
        w = {}
        for c, o in zip(cases, obs):
            if not isinstance(o, dict) or o.get("outcome") != "ok":
                continue
            R = render(c)
            for d in self.w34_dims(c, o, R):
                w[d] = w.get(d, 0) + 1
            multi += len(c["files"]) > 1
            qual += any(r["end"] - r["start"] != len(r["target"]) for r in R.refs)
            shared += any(f and len({(s, e) for s, e, _ in f["dict"]}) < self.count_nodes(f["tree"]) for f in o["files"])
            byid = {r["id"]: r for r in R.refs}
            seen = {}
            hit = False
            for rid, what in o.get("log", []):
                if what == "R" and rid in byid:
                    r = byid[rid]
                    if seen.get(r["file"], -1) > r["start"]:
                        hit = True
                    seen[r["file"]] = max(seen.get(r["file"], -1), r["start"])
            late += hit
        return {"distribution": {"multi_file": multi, "qualified_or_spaced_reference": qual,
                                 "nested_objects_sharing_a_span": shared, "resolved_out_of_text_order": late,
                                 **{k: w[k] for k in sorted(w)}}}

    # --------------------------------------------------------------- shrink
    def shrink(self, case):
        from harness.props.c28 import Prop as C28

        import copy

        if case.get("load"):
            c = copy.deepcopy(case)
            del c["load"]
            yield c
        for cn in sorted(case.get("classes") or {}):
            c = copy.deepcopy(case)
            del c["classes"][cn]
            if not c["classes"]:
                del c["classes"]
            yield c
        b = case.get("builtin")
        if b:
            needed = {r["target"] for _, r in L.all_refs(case)}
            if not any(n.startswith("b") for n in needed):
                c = copy.deepcopy(case)
                del c["builtin"]
                yield c
            for i, e in enumerate(b["elems"]):
                if e["k"] == "wrap" or (e["k"] == "item" and e["name"] not in needed):
                    c = copy.deepcopy(case)
                    del c["builtin"]["elems"][i]
                    if c["builtin"]["elems"]:
                        yield c
        for c in C28().shrink(case):
            L.compress_waits(c)  # stay among the valid projects: every round resolves something
            yield c

    def extra_search(self, rng, tier, broken):
        return list(self.gen(rng, 1500, tier))
