"""C25 — grammar imports resolve rules in the documented order.

A case is a tree of grammar files (nested directories, diamonds, cycles,
self-imports, overlapping rule names, qualified and unqualified references,
link references, abstract / single-reference rules) plus model texts that
exercise the referenced rules.

Implementation side: the files are written to a scratch directory and loaded with
`metamodel_from_file`; observed are the classes of every namespace with their
`_tx_fqn`, what every rule reference resolved to (attribute class *and* the class
of the PEG rule that parses it), `metamodel[name]` for unqualified and qualified
names, which files were opened, whether any file yielded two class objects, and
`type(obj)._tx_fqn` of the objects of each parsed text.

Model side: `Imp.loadMain` (lean/TextxVerif/Imp.lean, Drivers/Imp.lean) on the
same file tree; the parse trees are predicted from the model's resolution table
by `simulate` (the grammars are LL(1) by construction: every rule starts with
its own keyword).

Oracle: the documented resolution computed from the files alone (`doc_resolve`).
"""
import builtins
import os
import shutil
import tempfile

from harness.core import Check, use_repo

COMMON = ["C0", "C1", "C2", "C3", "C4"]
ABSTR = ["A0", "A1"]
BASE = ["ID", "STRING", "BOOL", "INT", "FLOAT", "STRICTFLOAT", "NUMBER", "BASETYPE", "OBJECT"]
KF_CYCLE = "C25-cyclic-imports"


# --------------------------------------------------------------------------
# case helpers (pure)
# --------------------------------------------------------------------------
def nstr(ns):
    return ".".join(ns)


def is_abs_name(name):
    return name.startswith("A")


def abs_import(cur, imp):
    return list(cur[:-1]) + list(imp)


def files_of(case):
    return {nstr(f["ns"]): f for f in case["files"]}


def file_index(case):
    return {nstr(f["ns"]): i for i, f in enumerate(case["files"])}


def rule_of(f, name):
    for r in f["rules"]:
        if r["name"] == name:
            return r
    return None


def defines(files, ns, name):
    f = files.get(ns)
    return f is not None and rule_of(f, name) is not None


def abs_imports(f):
    return [nstr(abs_import(f["ns"], i)) for i in f["imports"]]


def guarded(ref):
    """references never exercised by a model text (link references, base-type names)"""
    return ref["how"] == "link" or ref["n"] in BASE


def kw(idx, ns, name):
    return f"k{idx[ns]}{name}"


def closure(case):
    """files connected to the main file by import statements; None when an import names a missing file"""
    files = files_of(case)
    main = case["main"]
    seen, todo = [], [main]
    while todo:
        x = todo.pop(0)
        if x in seen:
            continue
        if x not in files:
            return None
        seen.append(x)
        todo.extend(abs_imports(files[x]))
    return seen


def load_ancestors(case):
    """The namespaces still being loaded when each file is loaded: depth-first, import
    order, each file once (the loader's documented 'already loaded' check)."""
    files = files_of(case)
    anc, loaded = {}, set()

    def go(ns, stack):
        loaded.add(ns)
        anc[ns] = list(stack)
        f = files.get(ns)
        if f is None:
            return
        for i in abs_imports(f):
            if i not in loaded:
                go(i, [ns] + stack)

    go(case["main"], [])
    return anc


OUT = "OUT"  # reference outside the documented fragment: the oracle does not judge it


def doc_resolve(files, ns, ref, skip=()):
    """The property statement: own file, else first direct import in import order defining
    the rule; a qualified name selects the named file's rule.  `skip` is empty for the
    documented reading (classification of the cyclic-import finding passes the files that are
    still being loaded)."""
    f = files[ns]
    name = ref["n"]
    if ref["q"] is not None:
        q = nstr(ref["q"])
        if q != ns and q not in abs_imports(f):
            return OUT
        if q in skip:
            return None
        return [q, name] if defines(files, q, name) else None
    if rule_of(f, name) is not None:
        return [ns, name]
    if name in BASE:
        return OUT
    for i in abs_imports(f):
        if i in skip:
            continue
        if defines(files, i, name):
            return [i, name]
    return None


def spec_table(case, clos, skipmap=None):
    files = files_of(case)
    tab = {}
    for ns in clos:
        for r in files[ns]["rules"]:
            tab[(ns, r["name"])] = [doc_resolve(files, ns, x, (skipmap or {}).get(ns, ())) for x in r["refs"]]
    return tab


def peg_follow(files, table, t):
    """The class of the PEG rule a reference parses with: a rule whose body is one rule
    reference (`A: C;`) takes over the PEG rule of its target, so follow such rules.
    t and table values: [ns, name]; returns None when the chain leaves the table."""
    for _ in range(50):
        if not isinstance(t, list) or t[0] not in files:
            return None
        r = rule_of(files[t[0]], t[1])
        if r is None:
            return None
        if not (is_abs_name(t[1]) and len(r["refs"]) == 1):
            return t
        nxt = table.get((t[0], t[1]))
        if not nxt:
            return None
        t = nxt[0]
    return None


def simulate(case, table, tokens):
    """Greedy PEG parse of `tokens` for the generated grammar shape under a resolution table
    {(ns, rule): [target…]}, target = [ns, name].  Returns the object tree or "err"."""
    files = files_of(case)
    idx = file_index(case)

    def parse(t, pos, depth):
        if depth > 200 or not isinstance(t, list) or t[0] not in files:
            return None
        ns, name = t
        r = rule_of(files[ns], name)
        if r is None:
            return None
        targets = table.get((ns, name))
        if targets is None:
            return None
        if is_abs_name(name):
            for tt in targets:
                res = parse(tt, pos, depth + 1)
                if res is not None:
                    return res
            return None
        if pos >= len(tokens) or tokens[pos] != kw(idx, ns, name):
            return None
        pos += 1
        attrs = []
        for j, ref in enumerate(r["refs"]):
            if guarded(ref):
                continue
            items = []
            while True:
                res = parse(targets[j], pos, depth + 1)
                if res is None:
                    break
                items.append(res[0])
                pos = res[1]
            if items:
                attrs.append([f"a{j}", items])
        return [f"{ns}.{name}", attrs], pos

    main = case["main"]
    root = [main, files[main]["rules"][0]["name"]]
    res = parse(root, 0, 0)
    if res is None or res[1] != len(tokens):
        return "err"
    return res[0]


def gen_texts(case, rng=None):
    """Token lists derived from the documented resolution: one text covering every reachable
    reference once, plus short texts along single reference paths."""
    clos = closure(case)
    if clos is None:
        return []
    files = files_of(case)
    idx = file_index(case)
    tab = spec_table(case, clos)
    main = case["main"]
    root = (main, files[main]["rules"][0]["name"])
    covered = set()

    def ok(t):
        return isinstance(t, list) and (t[0], t[1]) in tab

    def uncovered_alt(t):
        return ok(t) and is_abs_name(t[1]) and any((t[0], t[1], j) not in covered and ok(x)
                                                   for j, x in enumerate(tab[(t[0], t[1])]))

    def expand(t, depth):
        ns, name = t
        targets = tab[(ns, name)]
        r = rule_of(files[ns], name)
        if is_abs_name(name):
            pick = None
            for j, x in enumerate(targets):
                if ok(x) and (ns, name, j) not in covered:
                    pick = j
                    break
            if pick is None:
                for j, x in enumerate(targets):
                    if ok(x):
                        pick = j
                        break
            if pick is None:
                return None
            covered.add((ns, name, pick))
            return expand(targets[pick], depth + 1)
        out = [kw(idx, ns, name)]
        if depth > 40:
            return out
        for j, ref in enumerate(r["refs"]):
            if guarded(ref) or not ok(targets[j]) or (ns, name, j) in covered:
                continue
            covered.add((ns, name, j))
            first = True
            n = 0
            while (first or uncovered_alt(targets[j])) and n < 4:
                first = False
                n += 1
                sub = expand(targets[j], depth + 1)
                if sub is None:
                    break
                out += sub
        return out

    texts = []
    if root in tab and not is_abs_name(root[1]):
        texts.append(expand(list(root), 0))
        # single-path texts: root keyword, then one reference of the root, then one below it
        r0 = rule_of(files[main], root[1])
        for j, ref in enumerate(r0["refs"]):
            t = tab[root][j]
            if guarded(ref) or not ok(t):
                continue
            covered.clear()
            sub = expand(t, 39)  # keyword(s) only
            if sub:
                texts.append([kw(idx, main, root[1])] + sub)
        texts.append([kw(idx, main, root[1])])
    seen, out = set(), []
    for t in texts:
        if t and tuple(t) not in seen:
            seen.add(tuple(t))
            out.append(t)
    return out[:5]


def default_queries(case):
    qs = [{"q": None, "n": n} for n in ["Main"] + COMMON + ABSTR + ["INT", "Zz"]]
    for f in case["files"]:
        for r in f["rules"]:
            qs.append({"q": f["ns"], "n": r["name"]})
        qs.append({"q": f["ns"], "n": "Zz"})
    qs.append({"q": ["nofile"], "n": "C0"})
    return qs


def finish(case):
    case["texts"] = gen_texts(case)
    case["queries"] = default_queries(case)
    return case


def render(case, f):
    idx = file_index(case)
    ns = nstr(f["ns"])
    lines = [f"import {nstr(i)}" for i in f["imports"]]
    for r in f["rules"]:
        def rn(ref):
            return (nstr(ref["q"]) + "." if ref["q"] is not None else "") + ref["n"]
        if is_abs_name(r["name"]):
            body = " | ".join(rn(x) for x in r["refs"])
        else:
            parts = [f"'{kw(idx, ns, r['name'])}'", "z?='~'"]
            for j, ref in enumerate(r["refs"]):
                if ref["how"] == "link":
                    parts.append(f"('@' l{j}=[{rn(ref)}])?")
                elif ref["n"] in BASE:
                    parts.append(f"('#' a{j}={rn(ref)})?")
                else:
                    parts.append(f"a{j}*={rn(ref)}")
            body = " ".join(parts)
        lines.append(f"{r['name']}: {body};")
    return "\n".join(lines) + "\n"


# --------------------------------------------------------------------------
# the check
# --------------------------------------------------------------------------
class Prop(Check):
    ID = "C25"
    LEAN_MODULE = "TextxVerif.Props.C25"
    THEOREMS = [
        "Imp.C25_lookup",
        "Imp.C25_lookup_general",
        "Imp.C25_lookup_cyclic_false",
        "Imp.C25_all_rules",
        "Imp.C25_qualified",
        "Imp.C25_getitem",
        "Imp.C25_once",
        "Imp.C25_fqn",
        "Imp.C25_terminates",
    ]
    DRIVER = "Drivers/Imp.lean"
    QUICK_CASES = 340
    THOROUGH_CASES = 7000
    CASE_TIMEOUT = 90
    PROCS_THOROUGH = 4  # shared machine
    RULE = ("trees of 1..7 grammar files in nested directories with random import graphs (chains, diamonds, cycles, "
            "self-imports, repeated imports), overlapping rule names, unqualified / qualified / link references, abstract "
            "and single-reference rules, 1..5 model texts each; non-trivial = the grammars load, at least one reference "
            "resolves into an imported file and a parsed text contains an object of an imported file's class")
    MODELLED = ("hand-modelled: metamodel.py _enter_namespace/_leave_namespace/_new_import/_init_class/_cls_fqn/__getitem__ and "
                "the load order of lang.py (imports, classes, second pass) as Imp.loadMain; tie X: classes and _tx_fqn per "
                "namespace, attribute class and PEG-rule class of every reference, metamodel[name], opened files, duplicate "
                "class objects, fqn trees of parsed texts; not modelled: referenced languages (reference statement), "
                "duplicate rule names inside one file, user classes, rule kinds")
    ASSUMPTIONS = [
        "rule names equal to base-type names and qualified names of files that the referring file does not import "
        "directly are outside the documented fragment: the oracle does not judge them (the mirror model still does)",
        "only direct imports are searched for an unqualified name (DESIGN reading)",
    ]

    # ---------------------------------------------------------------- gen
    def gen_one(self, rng, tier):
        shape = rng.weighted([("random", 5), ("chain", 1), ("diamond", 2), ("cycle", 2), ("single", 1)])
        nfiles = 1 if shape == "single" else rng.randint(2, 7 if tier != "quick" else 6)
        dirs_pool = [[], [], ["sub"], ["sub", "deep"], ["lib"]]
        names = ["m", "b", "c", "d", "e", "f", "g", "h"]
        files = []
        for i in range(nfiles):
            d = [] if i == 0 else list(rng.choice(dirs_pool))
            files.append({"ns": d + [names[i]], "imports": [], "rules": []})

        def can_import(a, b):  # import statements cannot leave the importing file's directory
            da, db = a["ns"][:-1], b["ns"][:-1]
            return db[: len(da)] == da

        def rel(a, b):
            return b["ns"][len(a["ns"]) - 1:]

        def add_imp(a, b, dup=False):
            r = rel(a, b)
            if dup or r not in a["imports"]:
                a["imports"].append(r)

        # spanning structure: every file is imported by an earlier one
        for j in range(1, nfiles):
            cands = [i for i in range(j) if can_import(files[i], files[j])]
            if shape == "chain":
                i = max(cands)
            elif shape == "diamond":
                i = cands[0] if j <= 2 or not rng.chance(0.7) else rng.choice(cands)
            else:
                i = rng.choice(cands)
            add_imp(files[i], files[j])
        if shape == "diamond" and nfiles >= 4:
            # the last file is imported by every file that can see it
            for i in range(1, nfiles - 1):
                if can_import(files[i], files[-1]) and rng.chance(0.8):
                    add_imp(files[i], files[-1])
        extra = {"random": rng.randint(0, 3), "chain": 0, "diamond": rng.randint(0, 1), "cycle": rng.randint(1, 3),
                 "single": 0}[shape]
        for _ in range(extra):
            a = rng.choice(files)
            if shape == "cycle":  # back edges
                bs = [b for b in files if can_import(a, b) and files.index(b) <= files.index(a)]
            else:
                bs = [b for b in files if can_import(a, b) and (b is not a or rng.chance(0.15))]
            if bs:
                add_imp(a, rng.choice(bs), dup=rng.chance(0.1))
        for f in files:
            if rng.chance(0.5):
                f["imports"] = rng.shuffle(f["imports"])
        if rng.chance(0.04):
            rng.choice(files)["imports"].append(["nosuch"])

        # rules: overlapping names
        pool = COMMON[: rng.randint(2, 5)]
        for i, f in enumerate(files):
            k = rng.randint(1, min(3, len(pool)))
            chosen = rng.sample(pool, k)
            if rng.chance(0.35):
                chosen.append(rng.choice(ABSTR))
            if rng.chance(0.04):
                chosen.append(rng.choice(["INT", "ID"]))
            chosen = rng.shuffle(chosen)
            if i == 0:
                chosen = ["Main"] + chosen
            f["rules"] = [{"name": n, "refs": []} for n in chosen]
        fmap = {nstr(f["ns"]): f for f in files}

        def visible(f):
            out = [r["name"] for r in f["rules"]]
            for i in abs_imports(f):
                if i in fmap:
                    out += [r["name"] for r in fmap[i]["rules"]]
            return out

        # most trees are valid by the documented order; a sloppy minority also names rules that are
        # not visible (only transitively imported, defined nowhere) or files that are not imported
        sloppy = rng.chance(0.12)
        weights = [("vis", 62), ("qual", 20), ("any", 9), ("far", 7), ("base", 2)] if sloppy else \
            [("vis", 76), ("qual", 21), ("far", 1), ("base", 2)]
        for f in files:
            vis = visible(f)
            own = [r["name"] for r in f["rules"]]
            direct = [nstr(f["ns"])] + [i for i in abs_imports(f) if i in fmap]
            for r in f["rules"]:
                absr = is_abs_name(r["name"])
                nrefs = rng.weighted([(1, 4), (2, 3), (3, 2)]) if absr else rng.weighted([(0, 2), (1, 4), (2, 4), (3, 2)])
                if r["name"] == "Main":
                    nrefs = max(nrefs, 2)
                for _ in range(nrefs):
                    mode = rng.weighted(weights)
                    want_common = absr or rng.chance(0.75)
                    ok_name = (lambda n: not is_abs_name(n) and n not in BASE and n != "Main") if want_common \
                        else (lambda n: is_abs_name(n))
                    ref = None
                    if mode == "qual":
                        q = rng.choice(direct)
                        cands = [x["name"] for x in fmap[q]["rules"] if ok_name(x["name"])]
                        if cands:
                            ref = {"q": fmap[q]["ns"], "n": rng.choice(cands)}
                    elif mode == "far":
                        q = rng.choice(files)
                        cands = [x["name"] for x in q["rules"] if ok_name(x["name"])]
                        if cands:
                            ref = {"q": q["ns"], "n": rng.choice(cands)}
                    elif mode == "any":
                        ref = {"q": None, "n": rng.choice([n for n in COMMON + (["C9"] if rng.chance(0.3) else [])])}
                    elif mode == "base" and not absr:
                        # (a rule named like a base type is only ever referenced from files that do not define it:
                        # textX treats an attribute whose class is *named* INT as a primitive)
                        cands = [n for n in ["INT", "ID"] if n not in own]
                        if cands:
                            ref = {"q": None, "n": rng.choice(cands)}
                    if ref is None:
                        cands = [n for n in vis if ok_name(n)]
                        if not cands:
                            cands = [n for n in vis if not is_abs_name(n) and n not in BASE and n != "Main"]
                        # prefer names that several visible files define (overlaps decide the order question)
                        ref = {"q": None, "n": rng.choice(cands)}
                    ref["how"] = "rule" if absr or ref["n"] in BASE or rng.chance(0.78) else "link"
                    r["refs"].append(ref)
        if rng.chance(0.1):
            # a single-reference rule (A: C;) whose target lives in an import of its own file: the
            # importers of that file usually cannot see the target under that name
            cands = []
            for f in files[1:]:
                own = [r["name"] for r in f["rules"]]
                for i in abs_imports(f):
                    if i in fmap and i != nstr(f["ns"]):
                        for r in fmap[i]["rules"]:
                            if r["name"] in COMMON and r["name"] not in own:
                                cands.append((f, r["name"]))
            if cands:
                f, target = rng.choice(cands)
                f["rules"] = [r for r in f["rules"] if r["name"] != "A0"]
                f["rules"].append({"name": "A0", "refs": [{"q": None, "n": target, "how": "rule"}]})
                shape += "+alias"
        return finish({"main": "m", "files": files, "shape": shape})

    def gen(self, rng, n, tier):
        for _ in range(n):
            yield self.gen_one(rng, tier)
        if tier != "quick":
            yield from self.enumerate_graphs()

    def enumerate_graphs(self):
        """every import graph over three files in one directory (self-imports included), two
        import orders each, with a fixed overlapping rule layout"""
        names = ["m", "b", "c"]
        for mask in range(1 << 9):
            for rev in (False, True):
                files = []
                for i, n in enumerate(names):
                    imps = [[names[j]] for j in range(3) if mask >> (3 * i + j) & 1]
                    if rev:
                        imps.reverse()
                    files.append({"ns": [n], "imports": imps, "rules": []})
                u = {"how": "rule", "q": None}
                files[0]["rules"] = [{"name": "Main", "refs": [dict(u, n="C0"), dict(u, n="C1"), dict(u, n="C2")]},
                                     {"name": "C2", "refs": []}]
                files[1]["rules"] = [{"name": "C0", "refs": [dict(u, n="C1")]}, {"name": "C1", "refs": []}]
                files[2]["rules"] = [{"name": "C1", "refs": [dict(u, n="C0")]}, {"name": "C0", "refs": []},
                                     {"name": "C2", "refs": []}]
                yield finish({"main": "m", "files": files, "shape": "enum"})

    # --------------------------------------------------------------- impl
    _hangs = [0]

    def impl(self, case):
        """A case normally takes ~10 ms.  On the shared machine a process can be starved for tens of
        seconds, so a slow case is retried once with a long limit before it is reported as a hang
        (`load: Timeout`, which the model never predicts); after three real hangs in this worker the
        short limit alone decides, so a tree that hangs everywhere still finishes."""
        from harness.txutil import with_timeout

        hang = {"other": "Timeout"}
        self._scratch = []
        try:
            r = with_timeout(lambda: self.impl_once(case), 8 if self._hangs[0] < 3 else 4)
            if r == hang and self._hangs[0] < 3:
                r = with_timeout(lambda: self.impl_once(case), 45)
                if r == hang:
                    self._hangs[0] += 1
        finally:  # second chance for the scratch directories (e.g. rmtree hit by a RecursionError)
            builtins.open = self._real_open
            for d in self._scratch:
                shutil.rmtree(d, ignore_errors=True)
        return {"load": "Timeout", "opened": []} if r == hang else r

    _real_open = builtins.open
    _scratch: list = []

    def impl_once(self, case):
        use_repo()
        import textx
        from textx import metamodel_from_file
        from textx.exceptions import TextXError, TextXSemanticError, TextXSyntaxError

        shm = "/dev/shm"  # scratch files in memory when possible (outside /repo and /verif either way)
        tmp = os.path.realpath(tempfile.mkdtemp(prefix="c25_", dir=shm if os.access(shm, os.W_OK) else None))
        self._scratch.append(tmp)
        opened = []
        real_open = self._real_open

        def logging_open(file, *a, **kw_):
            try:
                p = os.path.realpath(os.fspath(file))
                if p.startswith(tmp + os.sep) and p.endswith(".tx"):
                    opened.append(os.path.relpath(p, tmp)[:-3].replace(os.sep, "."))
            except Exception:
                pass
            return real_open(file, *a, **kw_)

        out = {}
        try:
            for f in case["files"]:
                p = os.path.join(tmp, *f["ns"]) + ".tx"
                os.makedirs(os.path.dirname(p), exist_ok=True)
                with real_open(p, "w") as fh:
                    fh.write(render(case, f))
            builtins.open = logging_open
            try:
                try:
                    mm = metamodel_from_file(os.path.join(tmp, case["main"] + ".tx"))
                finally:
                    builtins.open = real_open
            except TextXSemanticError as e:
                return {"load": "semantic", "opened": opened, "msg": str(e).replace(tmp, "<tmp>")[:200]}
            except TextXError as e:
                return {"load": type(e).__name__, "opened": opened, "msg": str(e).replace(tmp, "<tmp>")[:200]}
            except RecursionError:
                return {"load": "RecursionError", "opened": opened}
            except Exception as e:
                return {"load": type(e).__name__, "opened": opened, "msg": str(e).replace(tmp, "<tmp>")[:200]}
            out = self.observe(case, mm, opened)
        finally:
            builtins.open = real_open
            shutil.rmtree(tmp, ignore_errors=True)
        return out

    def observe(self, case, mm, opened):
        from textx.exceptions import TextXError

        base = mm.namespaces.get("__base__", {})
        objs = {}  # fqn -> list of distinct class objects

        def note(c):
            fqn = getattr(c, "_tx_fqn", None)
            if fqn is None:
                return
            lst = objs.setdefault(fqn, [])
            if not any(x is c for x in lst):
                lst.append(c)

        def describe(c):
            if c is None:
                return None
            if not hasattr(c, "_tx_fqn"):
                return {"other": type(c).__name__}
            if base.get(c.__name__) is c:
                return {"base": c.__name__}
            note(c)
            return {"fqn": c._tx_fqn}

        files = files_of(case)
        classes, resolved = [], {}
        for ns, d in mm.namespaces.items():
            if ns == "__base__":
                continue
            for name, c in d.items():
                note(c)
                classes.append([str(ns), name, getattr(c, "_tx_fqn", None)])
                f = files.get(ns)
                r = rule_of(f, name) if f else None
                if r is None:
                    continue
                entry = {"cls": [], "peg": []}
                peg = c._tx_peg_rule
                if is_abs_name(name):
                    if len(r["refs"]) == 1:
                        entry["peg"] = [describe(getattr(peg, "_tx_class", None))]
                    else:
                        nodes = list(getattr(peg, "nodes", []))
                        entry["peg"] = [describe(getattr(n, "_tx_class", None)) for n in nodes]
                    entry["cls"] = [None] * len(r["refs"])
                    entry["inh"] = [describe(x) for x in c._tx_inh_by]
                else:
                    asg = {}

                    def walk(n, top=False):
                        rn = getattr(n, "rule_name", "") or ""
                        if rn.startswith("__asgn"):
                            asg[n._attr_name] = n
                            return
                        if getattr(n, "root", False) and not top:
                            return
                        for ch in getattr(n, "nodes", []):
                            walk(ch)

                    walk(peg, True)
                    for j, ref in enumerate(r["refs"]):
                        an = f"l{j}" if ref["how"] == "link" else f"a{j}"
                        attr = c._tx_attrs.get(an)
                        entry["cls"].append(describe(attr.cls) if attr is not None else None)
                        if ref["how"] == "link" or an not in asg:
                            entry["peg"].append(None)
                        else:
                            entry["peg"].append(describe(getattr(asg[an].nodes[0], "_tx_class", None)))
                resolved[f"{ns}:{name}"] = entry
        queries = []
        for q in case["queries"]:
            key = (nstr(q["q"]) + "." if q["q"] is not None else "") + q["n"]
            try:
                queries.append(describe(mm[key]))
            except KeyError:
                queries.append(None)
            except Exception as e:
                queries.append({"exc": type(e).__name__})
            try:
                if (key in mm) != (queries[-1] is not None and "exc" not in queries[-1]):
                    queries[-1] = {"exc": "contains-disagrees-with-getitem"}
            except Exception as e:
                queries[-1] = {"exc": "contains:" + type(e).__name__}

        def tree(o, depth=0):
            c = type(o)
            if not hasattr(c, "_tx_fqn"):
                return {"prim": repr(o)[:40]}
            note(c)
            attrs = []
            if depth < 100:
                for an in c._tx_attrs:
                    if not an.startswith("a"):
                        continue
                    v = getattr(o, an, None)
                    if isinstance(v, list):
                        if v:
                            attrs.append([an, [tree(x, depth + 1) for x in v]])
                    elif v is not None and hasattr(type(v), "_tx_fqn"):
                        attrs.append([an, [tree(v, depth + 1)]])
            return [c._tx_fqn, attrs]

        models = []
        for toks in case["texts"]:
            try:
                m = mm.model_from_str(" ".join(toks))
                models.append(tree(m))
            except TextXError as e:
                models.append("err")
            except RecursionError:
                models.append({"exc": "RecursionError"})
            except Exception as e:
                models.append({"exc": type(e).__name__, "msg": str(e)[:120]})
        dups = sorted(k for k, v in objs.items() if len(v) > 1)
        return {"load": "ok", "opened": opened, "classes": sorted(classes), "resolved": resolved, "queries": queries,
                "models": models, "dups": dups}

    # -------------------------------------------------------------- model
    def model_req(self, case, obs):
        return {"op": "imports", "main": case["main"],
                "files": [{"ns": f["ns"], "imports": f["imports"],
                           "rules": [{"name": r["name"], "refs": [{"q": x["q"], "n": x["n"]} for x in r["refs"]]}
                                     for r in f["rules"]]} for f in case["files"]],
                "queries": [{"q": q["q"], "n": q["n"]} for q in case["queries"]]}

    @staticmethod
    def model_view(out):
        """model answer in the vocabulary of the observation"""
        m = out["out"]
        cl = m["classes"]

        def tgt(t):
            if t is None:
                return None
            if "base" in t:
                return {"base": t["base"]}
            ns, n = cl[t["cls"]]
            return {"fqn": nstr(ns) + "." + n}

        table, resolved = {}, {}
        for e in m["resolved"]:
            ns = nstr(e["ns"])
            ts = [tgt(t) for t in e["targets"]]
            resolved[f"{ns}:{e['rule']}"] = ts
            table[(ns, e["rule"])] = [([nstr(cl[t["cls"]][0]), cl[t["cls"]][1]] if "cls" in t else None)
                                      for t in e["targets"]]
        fq = [nstr(ns) + "." + n for ns, n in cl]
        return {"classes": sorted([nstr(ns), n, nstr(ns) + "." + n] for ns, n in cl), "resolved": resolved,
                "table": table, "queries": [tgt(t) for t in m["queries"]], "opened": [nstr(x) for x in m["opened"]],
                "dups": sorted({x for x in fq if fq.count(x) > 1})}

    def compare(self, case, obs, out):
        if "err" in out:
            return f"model did not answer: {out}"
        m = out["out"]
        if "error" in m:
            want = {"unexisting": "semantic", "missing": "FileNotFoundError"}[m["error"]]
            if obs["load"] != want:
                return (f"model: loading fails ({m['error']} {nstr(m.get('ns', []))} {m.get('ref')}), "
                        f"implementation: {obs['load']} {obs.get('msg', '')}")
            return None
        if obs["load"] != "ok":
            return f"model loads the grammars, implementation fails: {obs['load']} {obs.get('msg', '')}"
        v = self.model_view(out)
        files = files_of(case)
        if obs["opened"] != v["opened"]:
            return f"opened files differ: impl {obs['opened']} model {v['opened']}"
        if obs["classes"] != v["classes"]:
            return f"classes / _tx_fqn differ: impl {obs['classes']} model {v['classes']}"
        if obs["dups"] != v["dups"]:
            return f"several class objects for one grammar rule: impl {obs['dups']} model {v['dups']}"
        for key, ts in sorted(v["resolved"].items()):
            e = obs["resolved"].get(key)
            if e is None:
                return f"rule {key} has no class in the implementation"
            kns, krule = key.split(":")
            for j, t in enumerate(ts):
                for lvl in ("cls", "peg"):
                    o = e[lvl][j] if j < len(e[lvl]) else "missing"
                    want = t
                    if lvl == "peg" and t is not None and "fqn" in t:
                        pf = peg_follow(files, v["table"], v["table"][(kns, krule)][j])
                        if pf is None:
                            continue
                        want = {"fqn": f"{pf[0]}.{pf[1]}"}
                    if o is not None and o != want:
                        return f"reference {j} of {key}: {lvl}-level target impl {o} model {want}"
            if "inh" in e:
                want = []
                for t in ts:
                    if t not in want:
                        want.append(t)
                if e["inh"] != want:
                    return f"_tx_inh_by of {key}: impl {e['inh']} model {want}"
        if set(obs["resolved"]) != set(v["resolved"]):
            return f"rules with classes differ: {sorted(set(obs['resolved']) ^ set(v['resolved']))}"
        for q, o, t in zip(case["queries"], obs["queries"], v["queries"]):
            if o != t:
                return f"metamodel[{q}]: impl {o} model {t}"
        for toks, o in zip(case["texts"], obs["models"]):
            want = simulate(case, v["table"], toks)
            if o != want:
                return f"text {' '.join(toks)!r}: impl {o} model-predicted {want}"
        return None

    # ------------------------------------------------------------- oracle
    def oracle_core(self, case, obs, skipmap=None):
        clos = closure(case)
        if clos is None:
            return None  # an import names a missing file: not covered by the statement
        files = files_of(case)
        tab = spec_table(case, clos, skipmap)
        unresolvable = [(k, j) for k, ts in tab.items() for j, t in enumerate(ts) if t is None]
        has_out = any(t == OUT for ts in tab.values() for t in ts)
        out_unguarded = any(t == OUT and not guarded(rule_of(files[k[0]], k[1])["refs"][j])
                            for k, ts in tab.items() for j, t in enumerate(ts))
        if obs["load"] != "ok":
            if obs["load"] != "semantic":
                return (f"loading grammar files that exist and follow the documented grammar syntax fails with "
                        f"{obs['load']}: {obs.get('msg', '')}")
            if unresolvable or has_out:
                return None
            return f"every rule name resolves by the documented order, yet loading fails: {obs['load']} {obs.get('msg', '')}"
        if unresolvable:
            (ns, rn), j = unresolvable[0]
            ref = rule_of(files[ns], rn)["refs"][j]
            return (f"{ns}:{rn} refers to {ref['n']} (q={ref['q']}) which neither the file nor a direct import defines, "
                    f"yet the grammars load (resolved to {obs['resolved'].get(ns + ':' + rn)})")
        # one set of classes per file, file-based qualified names
        want_classes = sorted([ns, r["name"], f"{ns}.{r['name']}"] for ns in clos for r in files[ns]["rules"])
        if obs["classes"] != want_classes:
            return f"classes / qualified names: expected {want_classes}, got {obs['classes']}"
        if obs["dups"]:
            return f"a grammar file yielded more than one class for {obs['dups']}"
        if sorted(obs["opened"]) != sorted(clos):
            return f"files opened {obs['opened']}, files connected by imports {clos} (each exactly once)"
        ptab = {k: [t if isinstance(t, list) else None for t in ts] for k, ts in tab.items()}
        for (ns, rn), ts in sorted(tab.items()):
            e = obs["resolved"].get(f"{ns}:{rn}")
            if e is None:
                return f"no class for rule {ns}:{rn}"
            for j, t in enumerate(ts):
                if t == OUT:
                    continue
                for lvl in ("cls", "peg"):
                    o = e[lvl][j] if j < len(e[lvl]) else "missing"
                    want = {"fqn": f"{t[0]}.{t[1]}"}
                    if lvl == "peg":
                        pf = peg_follow(files, ptab, t)
                        if pf is None:
                            continue
                        want = {"fqn": f"{pf[0]}.{pf[1]}"}
                    if o is not None and o != want:
                        ref = rule_of(files[ns], rn)["refs"][j]
                        return (f"{ns}:{rn} reference {j} ({'.'.join(ref['q']) + '.' if ref['q'] else ''}{ref['n']}) resolves to "
                                f"{o} ({lvl}); documented order gives {want['fqn']}")
        main = case["main"]
        for q, o in zip(case["queries"], obs["queries"]):
            if q["q"] is None:
                t = doc_resolve(files, main, {"q": None, "n": q["n"]}, (skipmap or {}).get(main, ()))
                if t == OUT:
                    continue
                want = None if t is None else {"fqn": f"{t[0]}.{t[1]}"}
            else:
                qn = nstr(q["q"])
                if qn not in clos:
                    continue
                want = {"fqn": f"{qn}.{q['n']}"} if defines(files, qn, q["n"]) else None
            if o != want:
                return f"metamodel[{q}] gives {o}, expected {want}"
        if not out_unguarded:
            table = {k: [t if t != OUT else None for t in ts] for k, ts in tab.items()}
            for toks, o in zip(case["texts"], obs["models"]):
                want = simulate(case, table, toks)
                if o != want:
                    return f"text {' '.join(toks)!r}: parsed objects {o}, documented resolution gives {want}"
        return None

    def oracle(self, case, obs):
        return self.oracle_core(case, obs)

    def back_edges(self, case):
        anc = load_ancestors(case)
        files = files_of(case)
        return [(ns, i) for ns, a in anc.items() if ns in files for i in abs_imports(files[ns]) if i in a]

    def classify(self, case, obs, failure):
        """Cyclic-import finding: some file imports a file that is still being loaded, and what the
        implementation did is exactly the documented resolution with those (still empty) files
        invisible.  Anything else stays a violation."""
        if not isinstance(obs, dict) or "load" not in obs:
            return None
        if not self.back_edges(case):
            return None
        if self.oracle_core(case, obs) is None:
            # the documented oracle is satisfied: this is a model/implementation disagreement, not the finding
            return None
        if self.oracle_core(case, obs, load_ancestors(case)) is None:
            return KF_CYCLE
        return None

    def nontrivial(self, case, obs):
        if obs.get("load") != "ok":
            return False
        cross = False
        for key, e in obs["resolved"].items():
            ns = key.split(":")[0]
            for t in e["cls"] + e["peg"]:
                if t and "fqn" in t and t["fqn"].rsplit(".", 1)[0] != ns:
                    cross = True
        main = case["main"]

        def has_imported(t):
            if not isinstance(t, list):
                return False
            if t[0].rsplit(".", 1)[0] != main:
                return True
            return any(has_imported(x) for _, xs in t[1] for x in xs)

        return cross and any(has_imported(t) for t in obs["models"])

    # ------------------------------------------------------------- shrink
    def shrink(self, case):
        import copy

        def mk(files):
            return finish({"main": case["main"], "files": files, "shape": case.get("shape", "shrunk")})

        fs = case["files"]
        for i in range(len(fs) - 1, 0, -1):  # drop a file and the imports naming it
            gone = nstr(fs[i]["ns"])
            files = copy.deepcopy(fs[:i] + fs[i + 1:])
            for f in files:
                f["imports"] = [x for x in f["imports"] if nstr(abs_import(f["ns"], x)) != gone]
            yield mk(files)
        for i, f in enumerate(fs):
            for k in range(len(f["imports"])):
                files = copy.deepcopy(fs)
                del files[i]["imports"][k]
                yield mk(files)
        for i, f in enumerate(fs):
            for k in range(len(f["rules"])):
                if len(f["rules"]) > 1 and not (i == 0 and k == 0):
                    files = copy.deepcopy(fs)
                    del files[i]["rules"][k]
                    yield mk(files)
        for i, f in enumerate(fs):
            for k, r in enumerate(f["rules"]):
                for j in range(len(r["refs"])):
                    if is_abs_name(r["name"]) and len(r["refs"]) == 1:
                        continue
                    files = copy.deepcopy(fs)
                    del files[i]["rules"][k]["refs"][j]
                    yield mk(files)

    def extra_search(self, rng, tier, broken):
        return [self.gen_one(rng, tier) for _ in range(600 if tier == "quick" else 4000)]

    def sample_view(self, case, obs):
        return {"files": {nstr(f["ns"]): render(case, f) for f in case["files"]}, "texts": [" ".join(t) for t in case["texts"]],
                "impl": {k: obs.get(k) for k in ("load", "opened", "models", "dups")} if isinstance(obs, dict) else obs}

    def extra_evidence(self, cases, obs, model_outs):
        dist = {"load": {}, "shape": {}, "files": {}, "with_back_edge": 0, "with_diamond": 0, "nested_dirs": 0,
                "refs": 0, "refs_into_imports": 0, "qualified_refs": 0, "texts": 0, "texts_parsed": 0,
                "finding_cases": 0}
        for c, o in zip(cases, obs):
            if not isinstance(o, dict) or "load" not in o:
                continue
            dist["load"][o["load"]] = dist["load"].get(o["load"], 0) + 1
            dist["shape"][c.get("shape", "?")] = dist["shape"].get(c.get("shape", "?"), 0) + 1
            n = str(len(c["files"]))
            dist["files"][n] = dist["files"].get(n, 0) + 1
            if self.back_edges(c):
                dist["with_back_edge"] += 1
            files = files_of(c)
            indeg = {}
            for f in c["files"]:
                for i in set(abs_imports(f)):
                    if i != nstr(f["ns"]):
                        indeg[i] = indeg.get(i, 0) + 1
            if any(v > 1 for v in indeg.values()):
                dist["with_diamond"] += 1
            if any(len(f["ns"]) > 1 for f in c["files"]):
                dist["nested_dirs"] += 1
            for f in c["files"]:
                for r in f["rules"]:
                    for x in r["refs"]:
                        dist["refs"] += 1
                        if x["q"] is not None:
                            dist["qualified_refs"] += 1
            if o["load"] == "ok":
                for key, e in o["resolved"].items():
                    ns = key.split(":")[0]
                    for t in e["cls"]:
                        if t and "fqn" in t and t["fqn"].rsplit(".", 1)[0] != ns:
                            dist["refs_into_imports"] += 1
                dist["texts"] += len(o["models"])
                dist["texts_parsed"] += sum(1 for t in o["models"] if isinstance(t, list))
            if self.oracle_core(c, o) is not None and self.classify(c, o, "") == KF_CYCLE:
                dist["finding_cases"] += 1
        return {"distribution": dist}
