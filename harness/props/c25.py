"""C25 — grammar imports resolve rules in the documented order.

A case is a tree of grammar files (nested directories, diamonds, cycles,
self-imports, overlapping rule names, qualified and unqualified references,
link references with implicit / explicit match rule, abstract / single-reference
rules, match rules — also named like the built-in rules ID, INT, … — and
references to the built-in rules) plus model texts that exercise every kind of
reference: rule references by objects, match-rule / built-in references by
values (`# token`), the match rule of a link by `@ token`.

Implementation side: the files are written to a scratch directory and loaded with
`metamodel_from_file`; observed are the classes of every namespace with their
`_tx_fqn`, what every rule reference resolved to (attribute class *and* the class
of the PEG rule that parses it), `metamodel[name]` for unqualified and qualified
names, which files were opened, whether any file yielded two class objects, and
`type(obj)._tx_fqn` of the objects of each parsed text.

Model side: `Imp.loadMain` (lean/TextxVerif/Imp.lean, Drivers/Imp.lean) on the
same file tree; the parse trees are predicted from the model's resolution table
by `simulate` (the grammars are LL(1) by construction: every rule starts with
its own keyword).

Oracle: the documented resolution computed from the files alone (`doc_resolve`).

Since V25 a case may be a *history*: `case["before"]` lists trees that were loaded earlier in the same
process from the same directory (files rewritten / removed / added in between, another tree at the same
paths, the same tree again, another main file); the case itself is the last tree.  Every step is observed,
sent to the model (`Imp.loadHistory`) and judged on the files as they are at that step.  File and
directory names come from a pool (stems ending in the characters of the extension, stems that are
prefixes of each other, the same stem in several directories, files named like directories), and
`case["entry"]` says how the main file is handed to textX (absolute / relative path, `.`/`..` components,
PathLike, `metamodel_from_str(..., file_name=)`).
"""
import builtins
import os
import re
import shutil
import tempfile

from harness.core import Check, use_repo

COMMON = ["C0", "C1", "C2", "C3", "C4"]
ABSTR = ["A0", "A1"]
VALN = ["T0", "T1"]  # match rules with overlapping names
BASE = ["ID", "STRING", "BOOL", "INT", "FLOAT", "STRICTFLOAT", "NUMBER", "BASETYPE", "OBJECT"]
BUILTIN = BASE[:-1]  # the built-in rules a grammar can reference (and define again under the same name)
BASENS = "__base__"
KF_CYCLE = "C25-cyclic-imports"

# file / directory names.  LETTERS: the names of the rounds before V25.  WORDS: stems ending in a character of the
# extension ".tx" (layout, syntax, root, text, tx, x …), stems that are prefixes / suffixes of each other (m, mm, m1,
# m10), upper case, underscores, digits, names of rules (C0, Main) - a namespace is the path of the file below the
# directory of the main file, whatever the names are.
LETTERS = ["m", "b", "c", "d", "e", "f", "g", "h"]
WORDS = ["layout", "syntax", "root", "first", "text", "context", "types", "base", "main", "grammar", "model", "tx", "t",
         "x", "xt", "txt", "ext", "mtx", "txm", "tt", "xx", "x_t", "t_x", "T", "X", "Tx", "m", "mm", "m1", "m10", "m_",
         "_m", "_", "a1", "lib", "sub", "common", "C0", "Main", "xtx", "index", "ast", "export", "tx_", "dot_tx"]
DIRWORDS = ["sub", "deep", "lib", "ext", "tx", "text", "pkg", "x", "t", "lib_x", "test", "src", "m", "Tx", "_"]
ENTRIES = ["abs", "rel", "reldir", "dot", "updown", "path", "str"]
TREE_KEYS = ("main", "files", "shape", "texts", "queries", "entry")

# The built-in rules (docs/src/grammar.md "textX base types" describes them; the regular expressions are the ones of
# the language definition - only their behaviour on the few token shapes below matters); NUMBER and BASETYPE are
# ordered choices, the first alternative matching a prefix wins.
BUILTIN_RE = {
    "ID": r"[^\d\W]\w*\b",
    "BOOL": r"(True|true|False|false|0|1)\b",
    "INT": r"[-+]?[0-9]+",
    "FLOAT": r"[+-]?(\d+(\.\d*)?|\.\d+)([eE][+-]?\d+)?(?<=[\w\.])(?![\w\.])",
    "STRICTFLOAT": r"[+-]?(((\d+\.(\d*)?|\.\d+)([eE][+-]?\d+)?)|((\d+)([eE][+-]?\d+)))(?<=[\w\.])(?![\w\.])",
    "STRING": r'("(\\"|[^"])*")|(\'(\\\'|[^\'])*\')',
}
BUILTIN_ALT = {"NUMBER": ["STRICTFLOAT", "INT"], "BASETYPE": ["NUMBER", "FLOAT", "BOOL", "ID", "STRING"]}
SAMPLE = {"ID": "x9", "BOOL": "true", "INT": "42", "FLOAT": "1.5", "STRICTFLOAT": "2.5", "STRING": '"s"',
          "NUMBER": "42", "BASETYPE": "x9"}
FULL, PART, NO = "full", "part", "no"


# --------------------------------------------------------------------------
# case helpers (pure)
# --------------------------------------------------------------------------
def nstr(ns):
    return ".".join(ns)


def is_abs_name(name):
    return name.startswith("A")


def abs_import(cur, imp):
    return list(cur[:-1]) + list(imp)


def files_of(case):
    return {nstr(f["ns"]): f for f in case["files"]}


def tree_of(case):
    """the tree of grammar files of a case / of a step, without the history"""
    return {k: case[k] for k in TREE_KEYS if k in case}


def steps_of(case):
    """the trees loaded one after the other in one process from one directory; the case itself is the last"""
    return [tree_of(t) for t in case.get("before", [])] + [tree_of(case)]


def step_obs(case, obs):
    """the observations of the steps (None when the observation does not have one per step)"""
    if not isinstance(obs, dict):
        return None
    out = list(obs.get("before", [])) + [obs]
    return out if len(out) == len(case.get("before", [])) + 1 else None


def file_index(case):
    return {nstr(f["ns"]): i for i, f in enumerate(case["files"])}


def rule_of(f, name):
    for r in f["rules"]:
        if r["name"] == name:
            return r
    return None


def defines(files, ns, name):
    f = files.get(ns)
    return f is not None and rule_of(f, name) is not None


def abs_imports(f):
    return [nstr(abs_import(f["ns"], i)) for i in f["imports"]]


def is_val_name(name):
    """names of match rules / built-in rules: referenced as `('#' a=NAME)?`, exercised by `# token`"""
    return name in BASE or name.startswith("T")


def is_match(rule):
    return rule.get("kind") == "match"


def is_link(ref):
    return ref["how"] == "link"


def link_refs(rule):
    return [x for x in rule["refs"] if is_link(x)]


def xrefs(rule):
    """Every rule name the rule mentions, in the order the tables use: its references, then the match
    rule of each link reference (`[X]` names ID implicitly, `[X:M]` names M)."""
    return rule["refs"] + [{"q": None, "n": x.get("m") or "ID", "how": "lm"} for x in link_refs(rule)]


def kw(idx, ns, name):
    return f"k{idx[ns]}{name}"


def marker(ref):
    """`('#' a=NAME)?` (value kept), `('$' NAME)?` (rule reference without assignment), `('@' l=[X:NAME])?`"""
    return "@" if is_link(ref) else "$" if ref["how"] == "bare" else "#"


def lex(i, name):
    """The one lexeme of the match rule `name` of file number i.  No built-in rule accepts it, no
    match rule of another file or name does, and the converter textX attaches to the *name* of a rule
    (INT -> int(), FLOAT -> float(), …) accepts it (int("7_1") == 71)."""
    if name == "INT":
        return f"7_{i}"
    if name == "FLOAT":
        return f"8_{i}.5"
    if name == "STRICTFLOAT":
        return f"9_{i}.5"
    return f"%{i}{name}"


def convert(name, text):
    """value of a match named `name` (docs: base types are converted to Python types)"""
    if name == "INT":
        return int(text)
    if name in ("FLOAT", "STRICTFLOAT"):
        return float(text)
    if name == "BOOL":
        return text == "1" or text.lower() == "true"
    if name == "STRING":
        return text[1:-1]
    return text


def builtin_accept(name, tok):
    """(FULL | PART | NO, value): the built-in rule `name` on a token.  PART: it matches a proper
    prefix; the rest of the token then matches nothing of the generated grammars."""
    import re

    if name in BUILTIN_ALT:
        for alt in BUILTIN_ALT[name]:
            a, v = builtin_accept(alt, tok)
            if a != NO:
                return a, v
        return NO, None
    m = re.match(BUILTIN_RE[name], tok)
    if m is None or m.end() == 0:
        return NO, None
    if m.end() < len(tok):
        return PART, None
    return FULL, convert(name, tok)


def kind_of(files, t):
    """"base" / "match" / "other" for a resolved target [ns, name]"""
    if not isinstance(t, list):
        return None
    if t[0] == BASENS:
        return "base" if t[1] in BUILTIN else None
    f = files.get(t[0])
    r = rule_of(f, t[1]) if f else None
    if r is None:
        return None
    return "match" if is_match(r) else "other"


class _Touch(Exception):
    """the parse depends on a reference the table does not decide (OUT)"""


def target_accept(files, idx, table, t, tok, depth=0):
    """(FULL | PART | NO, value) of the match rule / built-in rule t = [ns, name] on a token; None
    when t is not such a rule.  A match rule is `'lexeme' | R1 | R2 …` (ordered choice, the first
    alternative matching a prefix wins); its rule references are resolved by `table`."""
    k = kind_of(files, t)
    if k not in ("base", "match"):
        return None
    if tok is None or depth > 20:
        return NO, None
    ns, name = t
    if k == "base":
        return builtin_accept(name, tok)
    lx = lex(idx[ns], name)
    if tok == lx:
        return FULL, convert(name, tok)
    if tok.startswith(lx):
        return PART, None
    for tt in table.get((ns, name)) or []:
        if tt == OUT:
            raise _Touch()
        acc = target_accept(files, idx, table, tt, tok, depth + 1)
        if acc is not None and acc[0] != NO:
            return acc
    return NO, None


def pos_token(idx, t):
    """a token the match rule / built-in rule t accepts"""
    if t[0] == BASENS:
        return SAMPLE.get(t[1])
    return lex(idx[t[0]], t[1])


def closure(case):
    """files connected to the main file by import statements; None when an import names a missing file"""
    files = files_of(case)
    main = case["main"]
    seen, todo = [], [main]
    while todo:
        x = todo.pop(0)
        if x in seen:
            continue
        if x not in files:
            return None
        seen.append(x)
        todo.extend(abs_imports(files[x]))
    return seen


def load_ancestors(case):
    """The namespaces still being loaded when each file is loaded: depth-first, import
    order, each file once (the loader's documented 'already loaded' check)."""
    files = files_of(case)
    anc, loaded = {}, set()

    def go(ns, stack):
        loaded.add(ns)
        anc[ns] = list(stack)
        f = files.get(ns)
        if f is None:
            return
        for i in abs_imports(f):
            if i not in loaded:
                go(i, [ns] + stack)

    go(case["main"], [])
    return anc


OUT = "OUT"  # reference outside the documented fragment: the oracle does not judge it


def doc_resolve(files, ns, ref, skip=()):
    """The property statement: own file, else first direct import in import order defining
    the rule; a qualified name selects the named file's rule.  `skip` is empty for the
    documented reading (classification of the cyclic-import finding passes the files that are
    still being loaded)."""
    f = files[ns]
    name = ref["n"]
    if ref["q"] is not None:
        q = nstr(ref["q"])
        if q != ns and q not in abs_imports(f):
            return OUT
        if q in skip:
            return None
        return [q, name] if defines(files, q, name) else None
    if rule_of(f, name) is not None:
        return [ns, name]
    if name in BASE:
        # a built-in rule.  The statement does not say whether a direct import defining a rule of
        # that name comes before it (in textX the built-in rules are the first import of every file)
        if any(defines(files, i, name) for i in abs_imports(f) if i not in skip):
            return OUT
        return [BASENS, name]
    for i in abs_imports(f):
        if i in skip:
            continue
        if defines(files, i, name):
            return [i, name]
    return None


def spec_table(case, clos, skipmap=None):
    files = files_of(case)
    tab = {}
    for ns in clos:
        for r in files[ns]["rules"]:
            tab[(ns, r["name"])] = [doc_resolve(files, ns, x, (skipmap or {}).get(ns, ())) for x in xrefs(r)]
    return tab


def peg_follow(files, table, t):
    """The class of the PEG rule a reference parses with: a rule whose body is one rule
    reference (`A: C;`) takes over the PEG rule of its target, so follow such rules.
    t and table values: [ns, name]; returns None when the chain leaves the table."""
    for _ in range(50):
        if not isinstance(t, list) or t[0] not in files:
            return None
        r = rule_of(files[t[0]], t[1])
        if r is None:
            return None
        if not (is_abs_name(t[1]) and len(r["refs"]) == 1):
            return t
        nxt = table.get((t[0], t[1]))
        if not nxt:
            return None
        t = nxt[0]
    return None


class _Stuck(Exception):
    """a rule matched a proper prefix of a token: nothing of the generated grammars matches the rest"""


def simulate(case, table, tokens):
    """PEG parse of `tokens` for the generated grammar shape under a resolution table
    {(ns, rule): [target…]} (targets in the order of `xrefs`; target = [ns, name], [BASENS, name],
    None = matches nothing, OUT = not decided).  Returns the object tree, "err" (syntax error),
    "sem" (parsed, a link was read: no object has a name, so it cannot be resolved) or "unknown"
    (an OUT target was needed)."""
    files = files_of(case)
    idx = file_index(case)
    linked = [False]

    def value(t, pos):
        """`'#' a=T` / `'$' T` / `'@' l=[X:T]` after the marker: (value, new pos) or None"""
        if t == OUT:
            raise _Touch()
        if not isinstance(t, list):
            return None
        acc = target_accept(files, idx, table, t, tokens[pos] if pos < len(tokens) else None)
        if acc is None:  # a common / abstract rule in value position
            res = parse(t, pos, 0)
            return None if res is None else ({"obj": res[0]}, res[1])
        if acc[0] == PART:
            raise _Stuck()
        if acc[0] == NO:
            return None
        return {"v": repr(acc[1])}, pos + 1

    def parse(t, pos, depth):
        if t == OUT:
            raise _Touch()
        if depth > 200 or not isinstance(t, list) or t[0] not in files:
            return None
        ns, name = t
        r = rule_of(files[ns], name)
        if r is None or is_match(r):
            return None
        targets = table.get((ns, name))
        if targets is None:
            return None
        if is_abs_name(name):
            for tt in targets:
                res = parse(tt, pos, depth + 1)
                if res is not None:
                    return res
            return None
        if pos >= len(tokens) or tokens[pos] != kw(idx, ns, name):
            return None
        pos += 1
        attrs = []
        nlink = 0
        for j, ref in enumerate(r["refs"]):
            if is_link(ref):
                mt = targets[len(r["refs"]) + nlink]
                nlink += 1
                if pos < len(tokens) and tokens[pos] == "@":
                    res = value(mt, pos + 1)
                    if res is not None:
                        pos = res[1]
                        linked[0] = True
                continue
            if is_val_name(ref["n"]):
                if pos < len(tokens) and tokens[pos] == marker(ref):
                    res = value(targets[j], pos + 1)
                    if res is not None:
                        pos = res[1]
                        if ref["how"] != "bare":
                            attrs.append([f"a{j}", [res[0]["obj"] if "obj" in res[0] else res[0]]])
                continue
            items = []
            while True:
                res = parse(targets[j], pos, depth + 1)
                if res is None:
                    break
                items.append(res[0])
                pos = res[1]
            if items:
                attrs.append([f"a{j}", items])
        return [f"{ns}.{name}", attrs], pos

    main = case["main"]
    root = [main, files[main]["rules"][0]["name"]]
    try:
        res = parse(root, 0, 0)
    except _Stuck:
        return "err"
    except _Touch:
        return "unknown"
    if res is None or res[1] != len(tokens):
        return "err"
    return "sem" if linked[0] else res[0]


MAX_TEXTS = 5
MAX_PROBES = 10


def gen_texts(case, rng=None):
    """Token lists derived from the documented resolution: one text covering every reachable
    reference once (objects for rule references, `# token` for references to match rules and
    built-in rules), short texts along single reference paths, and probes: for a reachable
    reference to a match rule / built-in rule and for the match rule of a reachable link, the
    token of the documented target and the tokens of the competing rules of the same name (the
    built-in one, the ones of the other files)."""
    clos = closure(case)
    if clos is None:
        return []
    files = files_of(case)
    idx = file_index(case)
    tab = spec_table(case, clos)
    main = case["main"]
    root = (main, files[main]["rules"][0]["name"])
    covered = set()

    def ok(t):
        return isinstance(t, list) and (t[0], t[1]) in tab and not is_match(rule_of(files[t[0]], t[1]))

    def okv(t):
        return kind_of(files, t) in ("base", "match") and pos_token(idx, t) is not None

    def alt_tokens(t, depth=0):
        """tokens that reach the alternatives of a match rule (`T1: 'lexeme' | T0 | INT;`)"""
        out = []
        if kind_of(files, t) == "match" and depth < 4:
            for x in tab.get((t[0], t[1])) or []:
                if okv(x):
                    out += [pos_token(idx, x)] + alt_tokens(x, depth + 1)
        return out

    def uncovered_alt(t):
        return ok(t) and is_abs_name(t[1]) and any((t[0], t[1], j) not in covered and ok(x)
                                                   for j, x in enumerate(tab[(t[0], t[1])]))

    def expand(t, depth):
        ns, name = t
        targets = tab[(ns, name)]
        r = rule_of(files[ns], name)
        if is_abs_name(name):
            pick = None
            for j, x in enumerate(targets):
                if ok(x) and (ns, name, j) not in covered:
                    pick = j
                    break
            if pick is None:
                for j, x in enumerate(targets):
                    if ok(x):
                        pick = j
                        break
            if pick is None:
                return None
            covered.add((ns, name, pick))
            return expand(targets[pick], depth + 1)
        out = [kw(idx, ns, name)]
        if depth > 40:
            return out
        for j, ref in enumerate(r["refs"]):
            if is_link(ref):
                continue
            if is_val_name(ref["n"]):
                if okv(targets[j]) and depth < 39:
                    out += [marker(ref), pos_token(idx, targets[j])]
                continue
            if not ok(targets[j]) or (ns, name, j) in covered:
                continue
            covered.add((ns, name, j))
            first = True
            n = 0
            while (first or uncovered_alt(targets[j])) and n < 4:
                first = False
                n += 1
                sub = expand(targets[j], depth + 1)
                if sub is None:
                    break
                out += sub
        return out

    texts = []
    probes = []
    if root in tab and not is_abs_name(root[1]) and not is_match(rule_of(files[main], root[1])):
        texts.append(expand(list(root), 0))
        # single-path texts: root keyword, then one reference of the root, then one below it
        r0 = rule_of(files[main], root[1])
        for j, ref in enumerate(r0["refs"]):
            t = tab[root][j]
            if is_link(ref) or is_val_name(ref["n"]) or not ok(t):
                continue
            covered.clear()
            sub = expand(t, 39)  # keyword(s) only
            if sub:
                texts.append([kw(idx, main, root[1])] + sub)
        texts.append([kw(idx, main, root[1])])
        texts = texts[:MAX_TEXTS]

        # probes: breadth-first over the common rules reachable through rule references
        def commons(t, seen=()):
            """the common rules a reference to t can start with (through abstract rules)"""
            if not ok(t) or (t[0], t[1]) in seen:
                return []
            if not is_abs_name(t[1]):
                return [(t[0], t[1])]
            out = []
            for x in tab[(t[0], t[1])]:
                out += commons(x, seen + ((t[0], t[1]),))
            return out

        paths, todo = {root: [kw(idx, *root)]}, [root]
        while todo:
            cur = todo.pop(0)
            r = rule_of(files[cur[0]], cur[1])
            for j, ref in enumerate(r["refs"]):
                if is_link(ref) or is_val_name(ref["n"]):
                    continue
                for nxt in commons(tab[cur][j]):
                    if nxt not in paths:
                        paths[nxt] = paths[cur] + [kw(idx, *nxt)]
                        todo.append(nxt)
        groups = []
        for cur, path in paths.items():
            r = rule_of(files[cur[0]], cur[1])
            nlink = 0
            for j, ref in enumerate(r["refs"]):
                if is_link(ref):
                    t, mark, name = tab[cur][len(r["refs"]) + nlink], "@", ref.get("m") or "ID"
                    nlink += 1
                elif is_val_name(ref["n"]):
                    t, mark, name = tab[cur][j], marker(ref), ref["n"]
                else:
                    continue
                if not okv(t):
                    continue
                comp = ([SAMPLE[name]] if name in SAMPLE else []) + \
                    [lex(idx[x], name) for x in clos if (r2 := rule_of(files[x], name)) is not None and is_match(r2)]
                comp = [x for x in comp if x != pos_token(idx, t)]
                uniq = []
                for x in [pos_token(idx, t)] + comp[:1] + alt_tokens(t) + comp[1:]:
                    if x not in uniq:
                        uniq.append(x)
                # contested names (several rules of that name around) first: the documented target's token
                # together with one competitor's, then round robin
                groups.append((0 if comp else 1, len(groups), [path + [mark, x] for x in uniq], 2 if comp else 1))
        groups.sort(key=lambda g: g[:2])
        k = 0
        while len(probes) < MAX_PROBES and any(k < len(g[2]) for g in groups):
            for g in groups:
                for x in g[2][k:k + g[3]] if k == 0 else g[2][k + g[3] - 1:k + g[3]]:
                    if len(probes) < MAX_PROBES:
                        probes.append(x)
            k += 1
    seen, out = set(), []
    for t in texts + probes:
        if t and tuple(t) not in seen:
            seen.add(tuple(t))
            out.append(t)
    return out


def default_queries(case):
    qs = [{"q": None, "n": n} for n in ["Main"] + COMMON + ABSTR + VALN + ["INT", "ID", "STRING", "FLOAT", "Zz"]]
    for f in case["files"]:
        for r in f["rules"]:
            qs.append({"q": f["ns"], "n": r["name"]})
        qs.append({"q": f["ns"], "n": "Zz"})
    qs.append({"q": ["nofile"], "n": "C0"})
    return qs


def finish(case):
    case["texts"] = gen_texts(case)
    case["queries"] = default_queries(case)
    return case


def render(case, f):
    idx = file_index(case)
    ns = nstr(f["ns"])
    lines = [f"import {nstr(i)}" for i in f["imports"]]
    for r in f["rules"]:
        def rn(ref):
            return (nstr(ref["q"]) + "." if ref["q"] is not None else "") + ref["n"]
        if is_match(r):
            body = " | ".join([f"'{lex(idx[ns], r['name'])}'"] + [rn(x) for x in r["refs"]])
        elif is_abs_name(r["name"]):
            body = " | ".join(rn(x) for x in r["refs"])
        else:
            parts = [f"'{kw(idx, ns, r['name'])}'", "z?='~'"]
            for j, ref in enumerate(r["refs"]):
                if is_link(ref):
                    parts.append(f"('@' l{j}=[{rn(ref)}{':' + ref['m'] if ref.get('m') else ''}])?")
                elif is_val_name(ref["n"]) and ref["how"] == "bare":
                    parts.append(f"('$' {rn(ref)})?")
                elif is_val_name(ref["n"]):
                    parts.append(f"('#' a{j}={rn(ref)})?")
                else:
                    parts.append(f"a{j}*={rn(ref)}")
            body = " ".join(parts)
        lines.append(f"{r['name']}: {body};")
    return "\n".join(lines) + "\n"


# --------------------------------------------------------------------------
# the check
# --------------------------------------------------------------------------
class Prop(Check):
    ID = "C25"
    LEAN_MODULE = "TextxVerif.Props.C25"
    THEOREMS = [
        "Imp.C25_lookup",
        "Imp.C25_lookup_general",
        "Imp.C25_lookup_cyclic_false",
        "Imp.C25_own_first",
        "Imp.C25_builtin",
        "Imp.C25_all_rules",
        "Imp.C25_qualified",
        "Imp.C25_getitem",
        "Imp.C25_once",
        "Imp.C25_fqn",
        "Imp.C25_terminates",
        "Imp.C25_missing_sound",
        "Imp.C25_unexisting_general",
        "Imp.C25_unexisting_sound_partial",
        "Imp.C25_unexisting_sound_full_false",
        "Imp.C25_loads",
        "Imp.C25_loads_general",
        "Imp.C25_loads_check",
        "Imp.C25_connected_loaded",
        "Imp.C25_loaded_resolvable",
        "Imp.C25_load_iff",
        "Imp.C25_opened_exact",
        "Imp.C25_history",
        "Imp.C25_history_step",
    ]
    DRIVER = "Drivers/Imp.lean"
    QUICK_CASES = 340
    THOROUGH_CASES = 7000
    CASE_TIMEOUT = 90
    PROCS_QUICK = 3  # shared machine
    PROCS_THOROUGH = 3
    RULE = ("file and directory names from a pool (stems ending in the characters of the extension, prefixes of each other, "
            "the same stem in several directories, files named like directories; 30 % the letters m, b, c …), the main file "
            "named in seven ways (absolute, relative to two working directories, ./ and ../ components, PathLike, "
            "metamodel_from_str with file_name); 30 % of the cases are histories: 2..3 trees loaded one after the other in "
            "one process from one directory (files edited in place: rules removed / added / moved, imports reordered / "
            "removed / added, files removed; another tree at the same paths; the same tree again; another main file), "
            "every load observed and judged on the files of its step; each tree: "
            "trees of 1..7 grammar files in nested directories with random import graphs (chains, diamonds, cycles, "
            "self-imports, repeated imports), overlapping rule names, unqualified / qualified / link references (implicit "
            "and explicit match rule), abstract, single-reference and match rules, files that define rules named like the "
            "built-in rules (ID, INT, …) and refer to them, 1..5 model texts plus up to 10 probe texts (token of the "
            "documented match rule and of its competitors) each; non-trivial = the grammars load, at least one reference "
            "resolves into an imported file and a parsed text contains an object of an imported file's class")
    MODELLED = ("hand-modelled: metamodel.py _enter_namespace/_leave_namespace/_new_import/_init_class/_cls_fqn/__getitem__ and "
                "the load order of lang.py (imports, classes, second pass) as Imp.loadMain; tie X: classes and _tx_fqn per "
                "namespace, attribute class and PEG-rule class of every reference (the match rule of a link included), "
                "metamodel[name], opened files, duplicate class objects, fqn trees with the values of parsed texts; failed "
                "loads: the file reported missing, and the name reported unresolvable must be one of the references of the "
                "failing file that the model cannot resolve at that point; histories: Imp.loadHistory, one answer per load, each load "
                "compared with the model of the files of its own step; the files-only specification of the theorems "
                "(Lean docResolve per reference, docLoadable) against the oracle's doc_resolve and the outcome of the load; not "
                "modelled: referenced languages (reference statement), duplicate rule names inside one file, user classes, "
                "rule kinds (a match rule is a rule without references)")
    ASSUMPTIONS = [
        "a built-in rule name that the file does not define but a direct import does, and qualified names of files that "
        "the referring file does not import directly are outside the documented fragment: the oracle does not judge "
        "them (the mirror model still does); a built-in name the file defines itself is the file's rule",
        "only direct imports are searched for an unqualified name (DESIGN reading)",
    ]

    # ---------------------------------------------------------------- gen
    @staticmethod
    def gen_names(rng):
        """(style, file stems by file number, directory pool) of one case; all trees of a history use them, so
        that successive trees put other contents at the same paths"""
        style = rng.weighted([("letters", 3), ("words", 7)])
        if style == "letters":
            return style, list(LETTERS), [[], [], ["sub"], ["sub", "deep"], ["lib"]]
        stems = rng.sample(WORDS, 8)
        d1, d2, d3 = rng.sample(DIRWORDS, 3)
        if rng.chance(0.15):
            d1 = stems[0]  # a directory named like the main file
        for i in range(1, 8):
            if rng.chance(0.15):
                stems[i] = stems[rng.randint(0, i - 1)]  # the same stem once more (in another directory)
            elif rng.chance(0.1):
                stems[i] = rng.choice([d1, d2, d3])  # a file named like a directory
        return style, stems, [[], [], [d1], [d1, d2], [d3]]

    def gen_tree(self, rng, tier, names, dirs_pool, layout=None):
        """one tree of grammar files; `layout` = the namespaces of an earlier tree of the history, re-used as far
        as they go (other contents at the same paths)"""
        shape = rng.weighted([("random", 5), ("chain", 1), ("diamond", 2), ("cycle", 2), ("single", 1)])
        nfiles = 1 if shape == "single" else rng.randint(2, 7 if tier != "quick" else 6)
        files = []
        for i in range(nfiles):
            if layout is not None and i < len(layout) and rng.chance(0.85):
                ns = list(layout[i])
            else:
                for _try in range(8):
                    d = [] if i == 0 else list(rng.choice(dirs_pool))
                    ns = d + [names[i]]
                    if all(f["ns"] != ns for f in files):
                        break
            if any(f["ns"] == ns for f in files):
                ns = ns[:-1] + [f"{ns[-1]}{i}"]
            files.append({"ns": ns, "imports": [], "rules": []})

        def can_import(a, b):  # import statements cannot leave the importing file's directory
            da, db = a["ns"][:-1], b["ns"][:-1]
            return db[: len(da)] == da

        def rel(a, b):
            return b["ns"][len(a["ns"]) - 1:]

        def add_imp(a, b, dup=False):
            r = rel(a, b)
            if dup or r not in a["imports"]:
                a["imports"].append(r)

        # spanning structure: every file is imported by an earlier one
        for j in range(1, nfiles):
            cands = [i for i in range(j) if can_import(files[i], files[j])]
            if shape == "chain":
                i = max(cands)
            elif shape == "diamond":
                i = cands[0] if j <= 2 or not rng.chance(0.7) else rng.choice(cands)
            else:
                i = rng.choice(cands)
            add_imp(files[i], files[j])
        if shape == "diamond" and nfiles >= 4:
            # the last file is imported by every file that can see it
            for i in range(1, nfiles - 1):
                if can_import(files[i], files[-1]) and rng.chance(0.8):
                    add_imp(files[i], files[-1])
        extra = {"random": rng.randint(0, 3), "chain": 0, "diamond": rng.randint(0, 1), "cycle": rng.randint(1, 3),
                 "single": 0}[shape]
        for _ in range(extra):
            a = rng.choice(files)
            if shape == "cycle":  # back edges
                bs = [b for b in files if can_import(a, b) and files.index(b) <= files.index(a)]
            else:
                bs = [b for b in files if can_import(a, b) and (b is not a or rng.chance(0.15))]
            if bs:
                add_imp(a, rng.choice(bs), dup=rng.chance(0.1))
        for f in files:
            if rng.chance(0.5):
                f["imports"] = rng.shuffle(f["imports"])
        if rng.chance(0.04):
            rng.choice(files)["imports"].append(["nosuch"])

        # rules: overlapping names
        pool = COMMON[: rng.randint(2, 5)]
        for i, f in enumerate(files):
            k = rng.randint(1, min(3, len(pool)))
            chosen = rng.sample(pool, k)
            if rng.chance(0.35):
                chosen.append(rng.choice(ABSTR))
            f["rules"] = [{"name": n, "refs": []} for n in chosen]
        # match rules: overlapping names too, among them the names of the built-in rules (a file may
        # define its own ID, INT, …: "the rule of the current file if it defines one")
        vpool = [n for n in VALN if rng.chance(0.55)]
        nb = rng.weighted([(0, 4), (1, 4), (2, 2)])
        while nb > 0:
            n = rng.weighted([("ID", 4), ("INT", 4), ("STRING", 2), ("FLOAT", 2), ("BOOL", 1), ("NUMBER", 1),
                              ("STRICTFLOAT", 1), ("BASETYPE", 1)])
            if n not in vpool:
                vpool.append(n)
                nb -= 1
        pdef = rng.choice([0.25, 0.5, 0.8])
        for i, f in enumerate(files):
            for n in vpool:
                if rng.chance(pdef):
                    f["rules"].append({"name": n, "kind": "match", "refs": []})
            f["rules"] = rng.shuffle(f["rules"])
            if i == 0:
                f["rules"] = [{"name": "Main", "refs": []}] + f["rules"]
        fmap = {nstr(f["ns"]): f for f in files}

        def visible(f):
            out = [r["name"] for r in f["rules"]]
            for i in abs_imports(f):
                if i in fmap:
                    out += [r["name"] for r in fmap[i]["rules"]]
            return out

        # most trees are valid by the documented order; a sloppy minority also names rules that are
        # not visible (only transitively imported, defined nowhere) or files that are not imported
        sloppy = rng.chance(0.12)
        weights = [("vis", 54), ("qual", 18), ("any", 9), ("far", 7), ("val", 12)] if sloppy else \
            [("vis", 66), ("qual", 19), ("far", 1), ("val", 14)]

        def val_ref(f, direct, unqualified=False):
            """a reference to a match rule / built-in rule from file f"""
            own_m = [r["name"] for r in f["rules"] if is_match(r)]
            imp_m = [(i, x["name"]) for i in direct[1:] for x in fmap[i]["rules"] if is_match(x)]
            all_m = [(i, x["name"]) for i in direct for x in fmap[i]["rules"] if is_match(x)]
            kind = rng.weighted([("own", 4), ("imp", 3), ("builtin", 3), ("qual", 0 if unqualified else 2),
                                 ("nowhere", 1 if sloppy else 0)])
            if kind == "own" and own_m:
                return {"q": None, "n": rng.choice(own_m)}
            if kind == "imp" and imp_m:
                return {"q": None, "n": rng.choice(imp_m)[1]}
            if kind == "qual" and all_m:
                q, n = rng.choice(all_m)
                return {"q": fmap[q]["ns"], "n": n}
            if kind == "nowhere":
                return {"q": None, "n": rng.choice(VALN)}
            n = rng.choice(["ID", "INT"] + BUILTIN)
            if n not in own_m and any(x == n for _, x in imp_m) and rng.chance(0.7):
                # (whether a direct import's rule of that name comes before the built-in one is not
                # documented: mostly avoided)
                free = [x for x in BUILTIN if x in own_m or not any(y == x for _, y in imp_m)]
                n = rng.choice(free) if free else n
            return {"q": None, "n": n}

        for f in files:
            vis = visible(f)
            own = [r["name"] for r in f["rules"]]
            direct = [nstr(f["ns"])] + [i for i in abs_imports(f) if i in fmap]
            for r in f["rules"]:
                if is_match(r):
                    # `T1: 'lexeme' | T0 | INT;` - rule references inside match rules.  T1 may name T0 and the
                    # built-in names, T0 the built-in names, rules with built-in names nothing: whatever the
                    # names resolve to, no rule is defined in terms of itself
                    if r["name"] in VALN and rng.chance(0.35):
                        allowed = BUILTIN + (["T0"] if r["name"] == "T1" else [])
                        for _ in range(rng.randint(1, 2)):
                            for _try in range(4):
                                ref = val_ref(f, direct)
                                if ref["n"] in allowed:
                                    break
                            else:
                                ref = {"q": None, "n": rng.choice(["ID", "INT"])}
                            ref["how"] = "alt"
                            r["refs"].append(ref)
                    continue
                absr = is_abs_name(r["name"])
                nrefs = rng.weighted([(1, 4), (2, 3), (3, 2)]) if absr else rng.weighted([(0, 2), (1, 4), (2, 4), (3, 2)])
                if r["name"] == "Main":
                    nrefs = max(nrefs, 2)
                for _ in range(nrefs):
                    mode = rng.weighted(weights)
                    want_common = absr or rng.chance(0.75)
                    ok_name = (lambda n: not is_abs_name(n) and not is_val_name(n) and n != "Main") if want_common \
                        else (lambda n: is_abs_name(n))
                    ref = None
                    if mode == "qual":
                        q = rng.choice(direct)
                        cands = [x["name"] for x in fmap[q]["rules"] if ok_name(x["name"])]
                        if cands:
                            ref = {"q": fmap[q]["ns"], "n": rng.choice(cands)}
                    elif mode == "far":
                        q = rng.choice(files)
                        cands = [x["name"] for x in q["rules"] if ok_name(x["name"])]
                        if cands:
                            ref = {"q": q["ns"], "n": rng.choice(cands)}
                    elif mode == "any":
                        ref = {"q": None, "n": rng.choice([n for n in COMMON + (["C9"] if rng.chance(0.3) else [])])}
                    elif mode == "val" and not absr:
                        ref = val_ref(f, direct)
                    if ref is None:
                        cands = [n for n in vis if ok_name(n)]
                        if not cands:
                            cands = [n for n in vis if not is_abs_name(n) and not is_val_name(n) and n != "Main"]
                        # prefer names that several visible files define (overlaps decide the order question)
                        ref = {"q": None, "n": rng.choice(cands)}
                    ref["how"] = "rule" if absr or is_val_name(ref["n"]) or rng.chance(0.78) else "link"
                    if is_val_name(ref["n"]) and rng.chance(0.2):
                        ref["how"] = "bare"  # a rule reference without assignment
                    if is_link(ref) and rng.chance(0.45):
                        # `[X:M]`: the match rule of a link is a rule name like any other (`[X]` means `[X:ID]`)
                        ref["m"] = val_ref(f, direct, unqualified=True)["n"]
                    r["refs"].append(ref)
        if rng.chance(0.1):
            # a single-reference rule (A: C;) whose target lives in an import of its own file: the
            # importers of that file usually cannot see the target under that name
            cands = []
            for f in files[1:]:
                own = [r["name"] for r in f["rules"]]
                for i in abs_imports(f):
                    if i in fmap and i != nstr(f["ns"]):
                        for r in fmap[i]["rules"]:
                            if r["name"] in COMMON and r["name"] not in own:
                                cands.append((f, r["name"]))
            if cands:
                f, target = rng.choice(cands)
                f["rules"] = [r for r in f["rules"] if r["name"] != "A0"]
                f["rules"].append({"name": "A0", "refs": [{"q": None, "n": target, "how": "rule"}]})
                shape += "+alias"
        return {"main": files[0]["ns"][0], "files": files, "shape": shape}

    # edits of a tree between two loads ------------------------------------------------------------
    @staticmethod
    def edit_tree(rng, tree):
        """The files after somebody worked on them: 1..3 of — a rule removed (references to it move on to the next
        import or become unresolvable), a rule added (earlier in the documented order than the rule that was
        found before), a rule moved to another file, import statements reordered / removed / added, a file
        removed.  Every edit keeps the shape `render` / `simulate` rely on (kinds go with names)."""
        import copy

        t = copy.deepcopy({k: tree[k] for k in ("main", "files", "shape")})
        files = t["files"]
        names_used = sorted({r["name"] for f in files for r in f["rules"] if r["name"] != "Main"})
        done = 0
        for _try in range(12):
            if done >= 1 and (done >= 3 or rng.chance(0.45)):
                break
            op = rng.weighted([("del-rule", 4), ("add-rule", 4), ("move-rule", 2), ("reorder", 2), ("del-import", 1),
                               ("add-import", 1), ("del-file", 1)])
            f = rng.choice(files)
            fresh = lambda n: {"name": n, "kind": "match", "refs": []} if is_val_name(n) else \
                {"name": n, "refs": [{"q": None, "n": n2, "how": "rule"} for n2 in names_used
                                     if not is_abs_name(n2) and not is_val_name(n2)][:1]} if is_abs_name(n) else \
                {"name": n, "refs": []}
            if op == "del-rule":
                ks = [k for k, r in enumerate(f["rules"]) if not (f is files[0] and k == 0)]
                if len(f["rules"]) < 2 or not ks:
                    continue
                del f["rules"][rng.choice(ks)]
            elif op == "add-rule":
                cands = [n for n in names_used if rule_of(f, n) is None and
                         (not is_abs_name(n) or fresh(n)["refs"])]
                if not cands:
                    continue
                f["rules"].append(fresh(rng.choice(cands)))
            elif op == "move-rule":
                g = rng.choice(files)
                ks = [k for k, r in enumerate(f["rules"]) if not (f is files[0] and k == 0) and rule_of(g, r["name"]) is None
                      and (not is_abs_name(r["name"]) or fresh(r["name"])["refs"])]
                if g is f or len(f["rules"]) < 2 or not ks:
                    continue
                k = rng.choice(ks)
                g["rules"].append(fresh(f["rules"][k]["name"]))
                del f["rules"][k]
            elif op == "reorder":
                if len(f["imports"]) < 2:
                    continue
                f["imports"] = f["imports"][1:] + f["imports"][:1] if rng.chance(0.5) else f["imports"][::-1]
            elif op == "del-import":
                if not f["imports"]:
                    continue
                del f["imports"][rng.below(len(f["imports"]))]
            elif op == "add-import":
                da = f["ns"][:-1]
                bs = [g["ns"][len(da):] for g in files if g["ns"][:-1][: len(da)] == da and g is not f]
                bs = [b for b in bs if b not in f["imports"]]
                if not bs:
                    continue
                f["imports"].insert(rng.below(len(f["imports"]) + 1), rng.choice(bs))
            elif op == "del-file":
                if f is files[0] or len(files) < 3:
                    continue
                gone = nstr(f["ns"])
                files.remove(f)
                if rng.chance(0.8):  # … and the import statements naming it (else: a missing file)
                    for g in files:
                        g["imports"] = [x for x in g["imports"] if nstr(abs_import(g["ns"], x)) != gone]
            done += 1
        t["shape"] = tree["shape"] + "+edit"
        return t

    def gen_one(self, rng, tier):
        style, names, dirs_pool = self.gen_names(rng)
        tree = self.gen_tree(rng, tier, names, dirs_pool)
        trees = [tree]
        # a history: trees loaded before in the same process from the same directory
        if rng.chance(0.3):
            for _ in range(rng.weighted([(1, 7), (2, 3)])):
                how = rng.weighted([("edit", 6), ("other-tree", 3), ("again", 1), ("other-main", 1)])
                last = trees[-1]
                if how == "edit":
                    nxt = self.edit_tree(rng, last)
                elif how == "other-tree":
                    nxt = self.gen_tree(rng, tier, names, dirs_pool, layout=[f["ns"] for f in last["files"]])
                elif how == "again":
                    nxt = {k: last[k] for k in ("main", "files", "shape")}
                else:  # the same files, another file of the main directory is the main file
                    tops = [f["ns"][0] for f in last["files"] if len(f["ns"]) == 1 and f["ns"][0] != last["main"]]
                    nxt = {"main": rng.choice(tops) if tops else last["main"], "files": last["files"],
                           "shape": last["shape"] + "+main"}
                trees.append(nxt)
            if rng.chance(0.5):
                trees.reverse()  # (the edited tree first, the original after it)
        for t in trees:
            # how the main file is named in the call
            t["entry"] = rng.weighted([("abs", 6)] + [(e, 1) for e in ENTRIES[1:]])
            finish(t)
        case = dict(trees[-1])
        if len(trees) > 1:
            case["before"] = trees[:-1]
        case["names"] = style
        return case

    def gen(self, rng, n, tier):
        for _ in range(n):
            yield self.gen_one(rng, tier)
        if tier != "quick":
            yield from self.enumerate_graphs()

    def enumerate_graphs(self):
        """every import graph over three files in one directory (self-imports included), two
        import orders each, with a fixed overlapping rule layout"""
        names = ["m", "b", "c"]
        for mask in range(1 << 9):
            for rev in (False, True):
                files = []
                for i, n in enumerate(names):
                    imps = [[names[j]] for j in range(3) if mask >> (3 * i + j) & 1]
                    if rev:
                        imps.reverse()
                    files.append({"ns": [n], "imports": imps, "rules": []})
                u = {"how": "rule", "q": None}
                files[0]["rules"] = [{"name": "Main", "refs": [dict(u, n="C0"), dict(u, n="C1"), dict(u, n="C2")]},
                                     {"name": "C2", "refs": []}]
                files[1]["rules"] = [{"name": "C0", "refs": [dict(u, n="C1")]}, {"name": "C1", "refs": []}]
                files[2]["rules"] = [{"name": "C1", "refs": [dict(u, n="C0")]}, {"name": "C0", "refs": []},
                                     {"name": "C2", "refs": []}]
                yield finish({"main": "m", "files": files, "shape": "enum"})

    # --------------------------------------------------------------- impl
    _hangs = [0]

    def impl(self, case):
        """A case normally takes ~10 ms.  On the shared machine a process can be starved for tens of
        seconds, so a slow case is retried once with a long limit before it is reported as a hang
        (`load: Timeout`, which the model never predicts); after three real hangs in this worker the
        short limit alone decides, so a tree that hangs everywhere still finishes."""
        from harness.txutil import with_timeout

        hang = {"other": "Timeout"}
        self._scratch = []
        try:
            r = with_timeout(lambda: self.impl_once(case), 8 if self._hangs[0] < 3 else 4)
            if r == hang and self._hangs[0] < 3:
                r = with_timeout(lambda: self.impl_once(case), 45)
                if r == hang:
                    self._hangs[0] += 1
        finally:  # second chance for the scratch directories (e.g. rmtree hit by a RecursionError)
            builtins.open = self._real_open
            for d in self._scratch:
                shutil.rmtree(d, ignore_errors=True)
        if r == hang:
            r = {"load": "Timeout", "opened": []}
            if case.get("before"):
                r["before"] = [{"load": "Timeout", "opened": []} for _ in case["before"]]
        return r

    _real_open = builtins.open
    _scratch: list = []

    def impl_once(self, case):
        """All steps of the history in this process and in one scratch directory: the directory is brought to the
        files of the step (files whose text differs are rewritten in place, files the step does not have are
        removed), then the main file is loaded and observed."""
        use_repo()
        import textx  # noqa: F401

        shm = "/dev/shm"  # scratch files in memory when possible (outside /repo and /verif either way)
        tmp = os.path.realpath(tempfile.mkdtemp(prefix="c25_", dir=shm if os.access(shm, os.W_OK) else None))
        self._scratch.append(tmp)
        cwd = os.getcwd()
        outs = []
        try:
            for tree in steps_of(case):
                try:
                    outs.append(self.load_step(tree, tmp))
                finally:
                    builtins.open = self._real_open
                    os.chdir(cwd)
        finally:
            builtins.open = self._real_open
            os.chdir(cwd)
            shutil.rmtree(tmp, ignore_errors=True)
        out = outs[-1]
        if len(outs) > 1:
            out["before"] = outs[:-1]
        return out

    def sync_dir(self, tree, tmp):
        real_open = self._real_open
        want = {}
        for f in tree["files"]:
            want[os.path.join(tmp, *f["ns"]) + ".tx"] = render(tree, f)
        for d, _, fns in os.walk(tmp):
            for fn in fns:
                p = os.path.join(d, fn)
                if p not in want:
                    os.remove(p)
        for p, text in want.items():
            os.makedirs(os.path.dirname(p), exist_ok=True)
            old = None
            if os.path.exists(p):
                with real_open(p) as fh:
                    old = fh.read()
            if old != text:
                with real_open(p, "w") as fh:
                    fh.write(text)

    def load_step(self, tree, tmp):
        import pathlib

        from textx import metamodel_from_file, metamodel_from_str
        from textx.exceptions import TextXError, TextXSemanticError

        case = tree
        opened = []
        real_open = self._real_open

        def logging_open(file, *a, **kw_):
            try:
                p = os.path.realpath(os.fspath(file))
                if p.startswith(tmp + os.sep) and p.endswith(".tx"):
                    opened.append(os.path.relpath(p, tmp)[:-3].replace(os.sep, "."))
            except Exception:
                pass
            return real_open(file, *a, **kw_)

        self.sync_dir(tree, tmp)
        # how the main file is named in the call (the namespace of the main file is its name without the
        # extension, the other namespaces are paths below its directory - however the directory is written)
        entry = tree.get("entry", "abs")
        mainfn = case["main"] + ".tx"
        path = os.path.join(tmp, mainfn)
        if entry == "rel":
            os.chdir(tmp)
            path = mainfn
        elif entry == "reldir":
            os.chdir(os.path.dirname(tmp))
            path = os.path.join(os.path.basename(tmp), mainfn)
        elif entry == "dot":
            path = tmp + os.sep + "." + os.sep + mainfn
        elif entry == "updown":
            path = os.path.join(tmp, os.pardir, os.path.basename(tmp), mainfn)
        elif entry == "path":
            path = pathlib.Path(path)
        builtins.open = logging_open
        try:
            try:
                # (auto_init_attributes=False: an attribute no text assigned stays None whatever its type is named)
                if entry == "str":
                    with open(path, encoding="utf-8") as fh:
                        text = fh.read()
                    mm = metamodel_from_str(text, file_name=path, auto_init_attributes=False)
                else:
                    mm = metamodel_from_file(path, auto_init_attributes=False)
            finally:
                builtins.open = real_open
        except TextXSemanticError as e:
            # which name could not be resolved ("Unexisting rule" for rule references, "Unknown class/rule" for the
            # class of a link): compared with the references the model cannot resolve at that point
            mt = re.search(r'(?:Unexisting rule|Unknown class/rule) "([^"]+)"', e.message if hasattr(e, "message") else str(e))
            return {"load": "semantic", "opened": opened, "name": mt.group(1) if mt else None,
                    "msg": str(e).replace(tmp, "<tmp>")[:200]}
        except FileNotFoundError as e:
            fn = os.path.realpath(e.filename) if isinstance(e.filename, (str, os.PathLike)) else ""
            file = os.path.relpath(fn, tmp)[:-3].replace(os.sep, ".") if fn.startswith(tmp + os.sep) and fn.endswith(".tx") else None
            return {"load": "FileNotFoundError", "opened": opened, "file": file,
                    "msg": str(e).replace(tmp, "<tmp>")[:200]}
        except TextXError as e:
            return {"load": type(e).__name__, "opened": opened, "msg": str(e).replace(tmp, "<tmp>")[:200]}
        except RecursionError:
            return {"load": "RecursionError", "opened": opened}
        except Exception as e:
            return {"load": type(e).__name__, "opened": opened, "msg": str(e).replace(tmp, "<tmp>")[:200]}
        return self.observe(case, mm, opened)

    def observe(self, case, mm, opened):
        from textx.exceptions import TextXError, TextXSemanticError

        base = mm.namespaces.get("__base__", {})
        objs = {}  # fqn -> list of distinct class objects

        def note(c):
            fqn = getattr(c, "_tx_fqn", None)
            if fqn is None:
                return
            lst = objs.setdefault(fqn, [])
            if not any(x is c for x in lst):
                lst.append(c)

        def describe(c):
            if c is None:
                return None
            if not hasattr(c, "_tx_fqn"):
                return {"other": type(c).__name__}
            if base.get(c.__name__) is c:
                return {"base": c.__name__}
            note(c)
            return {"fqn": c._tx_fqn}

        files = files_of(case)
        classes, resolved = [], {}
        for ns, d in mm.namespaces.items():
            if ns == "__base__":
                continue
            for name, c in d.items():
                note(c)
                classes.append([str(ns), name, getattr(c, "_tx_fqn", None)])
                f = files.get(ns)
                r = rule_of(f, name) if f else None
                if r is None:
                    continue
                entry = {"cls": [], "peg": []}
                peg = c._tx_peg_rule
                if is_match(r):
                    # 'lexeme' | R1 | R2 …: an ordered choice when there are references
                    nodes = list(getattr(peg, "nodes", []))[1:] if r["refs"] else []
                    if len(nodes) != len(r["refs"]):  # another shape of the parser model: not observed here
                        nodes = [None] * len(r["refs"])
                    entry["peg"] = [describe(getattr(n, "_tx_class", None)) for n in nodes]
                    entry["cls"] = [None] * len(r["refs"])
                elif is_abs_name(name):
                    if len(r["refs"]) == 1:
                        entry["peg"] = [describe(getattr(peg, "_tx_class", None))]
                    else:
                        nodes = list(getattr(peg, "nodes", []))
                        entry["peg"] = [describe(getattr(n, "_tx_class", None)) for n in nodes]
                    entry["cls"] = [None] * len(r["refs"])
                    entry["inh"] = [describe(x) for x in c._tx_inh_by]
                else:
                    asg = {}

                    def walk(n, top=False):
                        rn = getattr(n, "rule_name", "") or ""
                        if rn.startswith("__asgn"):
                            asg[n._attr_name] = n
                            return
                        if getattr(n, "root", False) and not top:
                            return
                        for ch in getattr(n, "nodes", []):
                            walk(ch)

                    walk(peg, True)

                    def first_root(n):
                        if getattr(n, "root", False):
                            return n
                        for ch in getattr(n, "nodes", []):
                            x = first_root(ch)
                            if x is not None:
                                return x
                        return None

                    parts = list(getattr(peg, "nodes", []))[2:]  # after the keyword and z?='~'
                    if len(parts) != len(r["refs"]):  # another shape of the parser model: not observed here
                        parts = []
                    for j, ref in enumerate(r["refs"]):
                        an = f"l{j}" if is_link(ref) else f"a{j}"
                        attr = c._tx_attrs.get(an)
                        entry["cls"].append(describe(attr.cls) if attr is not None else None)
                        if ref["how"] == "bare":  # ('$' NAME)?: the rule the part refers to
                            x = first_root(parts[j]) if j < len(parts) else None
                            entry["peg"].append(describe(getattr(x, "_tx_class", None)) if x is not None else None)
                        elif is_link(ref) or an not in asg:
                            entry["peg"].append(None)
                        else:
                            entry["peg"].append(describe(getattr(asg[an].nodes[0], "_tx_class", None)))
                    for j, ref in enumerate(r["refs"]):
                        if is_link(ref):  # the match rule of the link: a PEG-level reference only
                            an = f"l{j}"
                            entry["cls"].append(None)
                            entry["peg"].append(describe(getattr(asg[an].nodes[0], "_tx_class", None)) if an in asg else None)
                resolved[f"{ns}:{name}"] = entry
        queries = []
        for q in case["queries"]:
            key = (nstr(q["q"]) + "." if q["q"] is not None else "") + q["n"]
            try:
                queries.append(describe(mm[key]))
            except KeyError:
                queries.append(None)
            except Exception as e:
                queries.append({"exc": type(e).__name__})
            try:
                if (key in mm) != (queries[-1] is not None and "exc" not in queries[-1]):
                    queries[-1] = {"exc": "contains-disagrees-with-getitem"}
            except Exception as e:
                queries[-1] = {"exc": "contains:" + type(e).__name__}

        def tree(o, depth=0):
            c = type(o)
            if not hasattr(c, "_tx_fqn"):
                return {"prim": repr(o)[:40]}
            note(c)
            attrs = []
            if depth < 100:
                for an in c._tx_attrs:
                    if not an.startswith("a"):
                        continue
                    v = getattr(o, an, None)
                    if isinstance(v, list):
                        if v:
                            attrs.append([an, [tree(x, depth + 1) for x in v]])
                    elif v is not None and hasattr(type(v), "_tx_fqn"):
                        attrs.append([an, [tree(v, depth + 1)]])
                    elif v is not None:
                        attrs.append([an, [{"v": repr(v)}]])
            return [c._tx_fqn, attrs]

        models = []
        for toks in case["texts"]:
            try:
                m = mm.model_from_str(" ".join(toks))
                models.append(tree(m))
            except TextXSemanticError:
                models.append("sem")
            except TextXError:
                models.append("err")
            except RecursionError:
                models.append({"exc": "RecursionError"})
            except Exception as e:
                models.append({"exc": type(e).__name__, "msg": str(e)[:120]})
        dups = sorted(k for k, v in objs.items() if len(v) > 1)
        return {"load": "ok", "opened": opened, "classes": sorted(classes), "resolved": resolved, "queries": queries,
                "models": models, "dups": dups}

    # -------------------------------------------------------------- model
    def model_req(self, case, obs):
        if case.get("before"):
            return {"op": "history", "steps": [self.model_req_tree(t) for t in steps_of(case)]}
        return self.model_req_tree(case)

    def model_req_tree(self, case):
        return {"op": "imports", "main": case["main"],
                "files": [{"ns": f["ns"], "imports": f["imports"],
                           "rules": [{"name": r["name"], "refs": [{"q": x["q"], "n": x["n"]} for x in xrefs(r)]}
                                     for r in f["rules"]]} for f in case["files"]],
                "queries": [{"q": q["q"], "n": q["n"]} for q in case["queries"]],
                "closure": self.closure_ns(case)}

    @staticmethod
    def closure_ns(case):
        """the files connected to the main file (existing ones; None when the main file itself is missing)"""
        files = files_of(case)
        if case["main"] not in files:
            return None
        seen, todo = [], [case["main"]]
        while todo:
            x = todo.pop(0)
            if x in seen or x not in files:
                continue
            seen.append(x)
            todo.extend(abs_imports(files[x]))
        return [files[x]["ns"] for x in seen]

    def compare_spec(self, case, obs, m):
        """The files-only specification the theorems are stated with (Lean `docResolve`, `docLoadable`) against the
        oracle's reading of the property (`doc_resolve`) and against what the implementation did."""
        files = files_of(case)
        rules = [(nstr(f["ns"]), r) for f in case["files"] for r in f["rules"]]
        doc = m.get("doc")
        if doc is None or len(doc) != len(rules):
            return f"model: documented-resolution table missing or of the wrong length ({doc})"
        for (ns, r), (dns, drule, ds) in zip(rules, doc):
            refs = xrefs(r)
            if nstr(dns) != ns or drule != r["name"] or len(ds) != len(refs):
                return f"model: documented-resolution table out of step at {ns}:{r['name']}"
            for x, d in zip(refs, ds):
                t = doc_resolve(files, ns, x)
                if t == OUT:
                    continue
                want = None if t is None else {"base": t[1]} if t[0] == BASENS else {"rule": [t[0], t[1]]}
                got = None if d is None else d if "base" in d else {"rule": [nstr(d["rule"][0]), d["rule"][1]]}
                if got != want:
                    return (f"documented resolution of {x['n']} (q={x['q']}) in {ns}:{r['name']}: Lean docResolve {got}, "
                            f"oracle doc_resolve {want}")
        clos = closure(case)
        if m.get("loadable") is True and not self.back_edges(case):
            # C25_loads_check: closed set of existing files, every reference resolvable by the documentation, no cycle
            if "error" in m:
                return f"model: docLoadable holds on an acyclic tree, yet the model does not load ({m['error']})"
            if obs["load"] != "ok":
                return (f"every file exists and every reference is resolvable by the documentation (docLoadable), no "
                        f"import cycle, yet the implementation fails: {obs['load']} {obs.get('msg', '')}")
        if clos is not None and not self.back_edges(case) and obs["load"] == "ok" and m.get("loadable") is False:
            # C25_load_iff: with qualified names naming the file itself or a direct import, loading implies docLoadable
            direct = all(x["q"] is None or nstr(x["q"]) == ns or nstr(x["q"]) in abs_imports(files[ns])
                         for ns in clos for r in files[ns]["rules"] for x in xrefs(r))
            if direct:
                return "the grammars load on an acyclic tree with direct qualified names, yet docLoadable is false"
        return None

    @staticmethod
    def model_view(out):
        """model answer in the vocabulary of the observation"""
        m = out["out"]
        cl = m["classes"]

        def tgt(t):
            if t is None:
                return None
            if "base" in t:
                return {"base": t["base"]}
            ns, n = cl[t["cls"]]
            return {"fqn": nstr(ns) + "." + n}

        table, resolved = {}, {}
        for e in m["resolved"]:
            ns = nstr(e["ns"])
            ts = [tgt(t) for t in e["targets"]]
            resolved[f"{ns}:{e['rule']}"] = ts
            table[(ns, e["rule"])] = [([nstr(cl[t["cls"]][0]), cl[t["cls"]][1]] if "cls" in t else [BASENS, t["base"]])
                                      for t in e["targets"]]
        fq = [nstr(ns) + "." + n for ns, n in cl]
        return {"classes": sorted([nstr(ns), n, nstr(ns) + "." + n] for ns, n in cl), "resolved": resolved,
                "table": table, "queries": [tgt(t) for t in m["queries"]], "opened": [nstr(x) for x in m["opened"]],
                "dups": sorted({x for x in fq if fq.count(x) > 1})}

    def compare(self, case, obs, out):
        if "err" in out:
            return f"model did not answer: {out}"
        if not case.get("before"):
            return self.compare_tree(case, obs, out)
        trees, os_, outs = steps_of(case), step_obs(case, obs), out["out"].get("steps")
        if os_ is None or outs is None or len(outs) != len(trees):
            return f"history of {len(trees)} loads: {None if os_ is None else len(os_)} observations, model answers {outs if outs is None else len(outs)}"
        for k, (t, o, mo) in enumerate(zip(trees, os_, outs)):
            bad = self.compare_tree(t, o, mo, later=k > 0)
            if bad:
                return f"load {k + 1} of {len(trees)} (one process, one directory): {bad}"
        return None

    def compare_tree(self, case, obs, out, later=False):
        if "err" in out:
            return f"model did not answer: {out}"
        m = out["out"]
        bad = self.compare_spec(case, obs, m)
        if bad:
            return bad
        if "error" in m:
            want = {"unexisting": "semantic", "missing": "FileNotFoundError"}[m["error"]]
            if obs["load"] != want:
                return (f"model: loading fails ({m['error']} {nstr(m.get('ns', []))} {m.get('ref')}), "
                        f"implementation: {obs['load']} {obs.get('msg', '')}")
            if m["error"] == "missing" and obs.get("file") != nstr(m["ns"]):
                return f"missing file: implementation {obs.get('file')} ({obs.get('msg', '')}), model {nstr(m['ns'])}"
            if m["error"] == "unexisting":
                # the implementation walks the rules of the failing file in its own order (rule references of the
                # whole file before class references): it must name one of the references that fail at that point
                names = sorted({(nstr(r["q"]) + "." if r["q"] is not None else "") + r["n"] for r in m["failing"]})
                if obs.get("name") not in names:
                    return (f"unresolvable name: implementation reports {obs.get('name')!r} ({obs.get('msg', '')}), "
                            f"in the model the references of {nstr(m['ns'])} that fail there are {names}")
            return None
        if obs["load"] != "ok":
            return f"model loads the grammars, implementation fails: {obs['load']} {obs.get('msg', '')}"
        v = self.model_view(out)
        files = files_of(case)
        if obs["opened"] != v["opened"] and not (later and obs["opened"] == [x for x in v["opened"] if x in obs["opened"]]):
            # (after the first load of the process a file that was read before need not be opened again)
            return f"opened files differ: impl {obs['opened']} model {v['opened']}"
        if obs["classes"] != v["classes"]:
            return f"classes / _tx_fqn differ: impl {obs['classes']} model {v['classes']}"
        if obs["dups"] != v["dups"]:
            return f"several class objects for one grammar rule: impl {obs['dups']} model {v['dups']}"
        for key, ts in sorted(v["resolved"].items()):
            e = obs["resolved"].get(key)
            if e is None:
                return f"rule {key} has no class in the implementation"
            kns, krule = key.split(":")
            for j, t in enumerate(ts):
                for lvl in ("cls", "peg"):
                    o = e[lvl][j] if j < len(e[lvl]) else "missing"
                    want = t
                    if lvl == "peg" and t is not None and "fqn" in t:
                        pf = peg_follow(files, v["table"], v["table"][(kns, krule)][j])
                        if pf is None:
                            continue
                        want = {"fqn": f"{pf[0]}.{pf[1]}"}
                    if o is not None and o != want:
                        return f"reference {j} of {key}: {lvl}-level target impl {o} model {want}"
            if "inh" in e:
                want = []
                for t in ts:
                    if t not in want:
                        want.append(t)
                if e["inh"] != want:
                    return f"_tx_inh_by of {key}: impl {e['inh']} model {want}"
        if set(obs["resolved"]) != set(v["resolved"]):
            return f"rules with classes differ: {sorted(set(obs['resolved']) ^ set(v['resolved']))}"
        for q, o, t in zip(case["queries"], obs["queries"], v["queries"]):
            if o != t:
                return f"metamodel[{q}]: impl {o} model {t}"
        for toks, o in zip(case["texts"], obs["models"]):
            want = simulate(case, v["table"], toks)
            if o != want:
                return f"text {' '.join(toks)!r}: impl {o} model-predicted {want}"
        return None

    # ------------------------------------------------------------- oracle
    def oracle_core(self, case, obs, skipmap=None, later=False):
        """`later`: not the first load of the process - a file that was read before need not be opened again (the
        statement is about classes and names, not about file access), but none is opened twice"""
        clos = closure(case)
        if clos is None:
            return None  # an import names a missing file: not covered by the statement
        files = files_of(case)
        tab = spec_table(case, clos, skipmap)
        unresolvable = [(k, j) for k, ts in tab.items() for j, t in enumerate(ts) if t is None]
        has_out = any(t == OUT for ts in tab.values() for t in ts)
        if obs["load"] != "ok":
            if obs["load"] != "semantic":
                return (f"loading grammar files that exist and follow the documented grammar syntax fails with "
                        f"{obs['load']}: {obs.get('msg', '')}")
            if unresolvable or has_out:
                return None
            return f"every rule name resolves by the documented order, yet loading fails: {obs['load']} {obs.get('msg', '')}"
        if unresolvable:
            (ns, rn), j = unresolvable[0]
            ref = xrefs(rule_of(files[ns], rn))[j]
            return (f"{ns}:{rn} refers to {ref['n']} (q={ref['q']}) which neither the file nor a direct import defines, "
                    f"yet the grammars load (resolved to {obs['resolved'].get(ns + ':' + rn)})")
        # one set of classes per file, file-based qualified names
        want_classes = sorted([ns, r["name"], f"{ns}.{r['name']}"] for ns in clos for r in files[ns]["rules"])
        if obs["classes"] != want_classes:
            return f"classes / qualified names: expected {want_classes}, got {obs['classes']}"
        if obs["dups"]:
            return f"a grammar file yielded more than one class for {obs['dups']}"
        if sorted(obs["opened"]) != sorted(clos) and not (later and len(set(obs["opened"])) == len(obs["opened"])
                                                          and set(obs["opened"]) <= set(clos)):
            return f"files opened {obs['opened']}, files connected by imports {clos} (each exactly once)"
        ptab = {k: [t if isinstance(t, list) else None for t in ts] for k, ts in tab.items()}
        for (ns, rn), ts in sorted(tab.items()):
            e = obs["resolved"].get(f"{ns}:{rn}")
            if e is None:
                return f"no class for rule {ns}:{rn}"
            for j, t in enumerate(ts):
                if t == OUT:
                    continue
                for lvl in ("cls", "peg"):
                    o = e[lvl][j] if j < len(e[lvl]) else "missing"
                    if t[0] == BASENS:
                        want = {"base": t[1]}
                    else:
                        want = {"fqn": f"{t[0]}.{t[1]}"}
                        if lvl == "peg":
                            pf = peg_follow(files, ptab, t)
                            if pf is None:
                                continue
                            want = {"fqn": f"{pf[0]}.{pf[1]}"}
                    if o is not None and o != want:
                        ref = xrefs(rule_of(files[ns], rn))[j]
                        return (f"{ns}:{rn} reference {j} ({'.'.join(ref['q']) + '.' if ref['q'] else ''}{ref['n']}"
                                f"{', match rule of a link' if ref['how'] == 'lm' else ''}) resolves to "
                                f"{o} ({lvl}); documented order gives {want.get('fqn') or 'the built-in ' + t[1]}")
        main = case["main"]
        for q, o in zip(case["queries"], obs["queries"]):
            if q["q"] is None:
                t = doc_resolve(files, main, {"q": None, "n": q["n"]}, (skipmap or {}).get(main, ()))
                if t == OUT:
                    continue
                want = None if t is None else {"base": t[1]} if t[0] == BASENS else {"fqn": f"{t[0]}.{t[1]}"}
            else:
                qn = nstr(q["q"])
                if qn not in clos:
                    continue
                want = {"fqn": f"{qn}.{q['n']}"} if defines(files, qn, q["n"]) else None
            if o != want:
                return f"metamodel[{q}] gives {o}, expected {want}"
        for toks, o in zip(case["texts"], obs["models"]):
            want = simulate(case, tab, toks)
            if want != "unknown" and o != want:  # unknown: the parse needs a reference the statement does not decide
                return f"text {' '.join(toks)!r}: parsed objects {o}, documented resolution gives {want}"
        return None

    def oracle(self, case, obs):
        """every load of the history is judged on the files as they are when it is made"""
        if not case.get("before"):
            return self.oracle_core(case, obs)
        trees, os_ = steps_of(case), step_obs(case, obs)
        if os_ is None:
            return f"history of {len(trees)} loads, but the observation is {str(obs)[:200]}"
        for k, (t, o) in enumerate(zip(trees, os_)):
            bad = self.oracle_core(t, o, later=k > 0)
            if bad:
                return (f"load {k + 1} of {len(trees)} (same process, same directory, files as they are at that "
                        f"moment): {bad}")
        return None

    def back_edges(self, case):
        anc = load_ancestors(case)
        files = files_of(case)
        return [(ns, i) for ns, a in anc.items() if ns in files for i in abs_imports(files[ns]) if i in a]

    def classify_tree(self, case, obs, later=False):
        """Cyclic-import finding: some file imports a file that is still being loaded, and what the
        implementation did is exactly the documented resolution with those (still empty) files
        invisible.  Anything else stays a violation."""
        if not isinstance(obs, dict) or "load" not in obs:
            return None
        if not self.back_edges(case):
            return None
        if self.oracle_core(case, obs, later=later) is None:
            # the documented oracle is satisfied: this is a model/implementation disagreement, not the finding
            return None
        if self.oracle_core(case, obs, load_ancestors(case), later=later) is None:
            return KF_CYCLE
        return None

    def classify(self, case, obs, failure):
        """a history is the known finding only when every load of it that fails the oracle is"""
        if not case.get("before"):
            return self.classify_tree(case, obs)
        trees, os_ = steps_of(case), step_obs(case, obs)
        if os_ is None or any(not isinstance(o, dict) or "load" not in o for o in os_):
            return None
        failing = [(t, o, k > 0) for k, (t, o) in enumerate(zip(trees, os_)) if self.oracle_core(t, o, later=k > 0) is not None]
        if failing and all(self.classify_tree(t, o, later) == KF_CYCLE for t, o, later in failing):
            return KF_CYCLE
        return None

    def nontrivial(self, case, obs):
        if obs.get("load") != "ok":
            return False
        cross = False
        for key, e in obs["resolved"].items():
            ns = key.split(":")[0]
            for t in e["cls"] + e["peg"]:
                if t and "fqn" in t and t["fqn"].rsplit(".", 1)[0] != ns:
                    cross = True
        main = case["main"]

        def has_imported(t):
            if not isinstance(t, list):
                return False
            if t[0].rsplit(".", 1)[0] != main:
                return True
            return any(has_imported(x) for _, xs in t[1] for x in xs)

        return cross and any(has_imported(t) for t in obs["models"])

    # ------------------------------------------------------------- shrink
    def shrink(self, case):
        """history first (a single load, fewer loads, the plain way of naming the main file, the plain file
        names), then each tree of it"""
        import copy

        trees = steps_of(case)

        def mkcase(ts):
            c = dict(ts[-1])
            if len(ts) > 1:
                c["before"] = ts[:-1]
            return c

        if len(trees) > 1:
            for t in reversed(trees):
                yield mkcase([t])
            for k in range(len(trees) - 1):
                yield mkcase(trees[:k] + trees[k + 1:])
        if any(t.get("entry", "abs") != "abs" for t in trees):
            yield mkcase([dict(t, entry="abs") for t in trees])
        # plain names: file number k is called m, b, c, …, directories sub / deep / lib
        segs = []
        for t in trees:
            for f in t["files"]:
                for x in f["ns"][:-1]:
                    if ("d", x) not in segs:
                        segs.append(("d", x))
        stems = []
        for t in trees:
            for f in t["files"]:
                if f["ns"][-1] not in stems:
                    stems.append(f["ns"][-1])
        dmap = {x: n for (_, x), n in zip(segs, ["sub", "deep", "lib", "dir4", "dir5", "dir6"])}
        smap = {x: n for x, n in zip(stems, LETTERS + ["i", "j", "k", "l", "n", "o", "p", "q"])}
        if len(dmap) == len(segs) and len(smap) == len(stems) and any(k != v for k, v in list(dmap.items()) + list(smap.items())):
            def ren(ns, last=True):
                return [dmap[x] for x in ns[:-1]] + [smap[ns[-1]]]

            def ren_imp(cur, imp):
                a = abs_import(cur, imp)
                return ren(a)[len(cur) - 1:]

            out = []
            for t in trees:
                t2 = copy.deepcopy(t)
                for f in t2["files"]:
                    cur = f["ns"]
                    try:
                        f["imports"] = [ren_imp(cur, i) for i in f["imports"]]
                        for r in f["rules"]:
                            for x in r["refs"]:
                                if x["q"] is not None:
                                    x["q"] = ren(x["q"])
                    except KeyError:  # an import / a qualifier naming no file of the tree
                        out = None
                        break
                    f["ns"] = ren(cur)
                if out is None:
                    break
                t2["main"] = smap.get(t2["main"], t2["main"])
                out.append(finish(t2))
            if out:
                yield mkcase(out)
        for k in range(len(trees) - 1, -1, -1):
            for t2 in self.shrink_tree(trees[k]):
                yield mkcase(trees[:k] + [t2] + trees[k + 1:])

    def shrink_tree(self, case):
        import copy

        def mk(files):
            t = {"main": case["main"], "files": files, "shape": case.get("shape", "shrunk")}
            if case.get("entry"):
                t["entry"] = case["entry"]
            return finish(t)

        fs = case["files"]
        for i in range(len(fs) - 1, 0, -1):  # drop a file and the imports naming it
            gone = nstr(fs[i]["ns"])
            files = copy.deepcopy(fs[:i] + fs[i + 1:])
            for f in files:
                f["imports"] = [x for x in f["imports"] if nstr(abs_import(f["ns"], x)) != gone]
            yield mk(files)
        for i, f in enumerate(fs):
            for k in range(len(f["imports"])):
                files = copy.deepcopy(fs)
                del files[i]["imports"][k]
                yield mk(files)
        for i, f in enumerate(fs):
            for k in range(len(f["rules"])):
                if len(f["rules"]) > 1 and not (i == 0 and k == 0):
                    files = copy.deepcopy(fs)
                    del files[i]["rules"][k]
                    yield mk(files)
        for i, f in enumerate(fs):
            for k, r in enumerate(f["rules"]):
                for j in range(len(r["refs"])):
                    if is_abs_name(r["name"]) and len(r["refs"]) == 1:
                        continue
                    files = copy.deepcopy(fs)
                    del files[i]["rules"][k]["refs"][j]
                    yield mk(files)
        for i, f in enumerate(fs):
            for k, r in enumerate(f["rules"]):
                for j, x in enumerate(r["refs"]):
                    if x.get("m"):
                        files = copy.deepcopy(fs)
                        del files[i]["rules"][k]["refs"][j]["m"]
                        yield mk(files)

    def extra_search(self, rng, tier, broken):
        return [self.gen_one(rng, tier) for _ in range(600 if tier == "quick" else 4000)]

    def sample_view(self, case, obs):
        v = {"files": {nstr(f["ns"]): render(case, f) for f in case["files"]}, "main": case["main"],
             "entry": case.get("entry", "abs"), "texts": [" ".join(t) for t in case["texts"]],
             "impl": {k: obs.get(k) for k in ("load", "opened", "models", "dups")} if isinstance(obs, dict) else obs}
        if case.get("before"):
            v["loaded_before_in_the_same_directory"] = [
                {"files": {nstr(f["ns"]): render(t, f) for f in t["files"]}, "main": t["main"], "entry": t.get("entry", "abs")}
                for t in case["before"]]
        return v

    def extra_evidence(self, cases, obs, model_outs):
        dist = {"load": {}, "shape": {}, "files": {}, "with_back_edge": 0, "with_diamond": 0, "nested_dirs": 0,
                "refs": 0, "refs_into_imports": 0, "qualified_refs": 0, "texts": 0, "texts_parsed": 0,
                "texts_link_read": 0, "finding_cases": 0, "match_rules": 0, "cases_redefining_builtin": 0,
                "refs_to_match_or_builtin": 0, "refs_to_own_rule_with_builtin_name": 0, "links_explicit_match_rule": 0,
                "links_matched_by_own_rule_with_builtin_name": 0}
        hist = {"cases_with_history": 0, "loads": 0, "loads_ok": 0, "steps_changing_a_loaded_file": 0, "entry": {}, "names": {},
                "main_stem_ends_in_t_x": 0, "main_stem_ends_in_t_x_and_cycle_through_main": 0,
                "same_stem_in_two_directories": 0, "file_named_like_a_directory": 0}
        dist["history"] = hist
        for c, o in zip(cases, obs):
            so = step_obs(c, o)
            if so is None:
                continue
            trees = steps_of(c)
            hist["cases_with_history"] += len(trees) > 1
            hist["names"][c.get("names", "letters")] = hist["names"].get(c.get("names", "letters"), 0) + 1
            prev = {}
            for t, x in zip(trees, so):
                hist["loads"] += 1
                hist["loads_ok"] += isinstance(x, dict) and x.get("load") == "ok"
                e = t.get("entry", "abs")
                hist["entry"][e] = hist["entry"].get(e, 0) + 1
                cur = {nstr(f["ns"]): render(t, f) for f in t["files"]}
                clos = closure(t) or []
                hist["steps_changing_a_loaded_file"] += any(k in prev and prev[k] != cur[k] for k in clos)
                prev = cur
                if t["main"][-1:] in ("t", "x"):
                    hist["main_stem_ends_in_t_x"] += 1
                    fm = files_of(t)
                    if any(t["main"] in abs_imports(fm[k]) for k in clos):
                        hist["main_stem_ends_in_t_x_and_cycle_through_main"] += 1
                stems = [f["ns"][-1] for f in t["files"]]
                hist["same_stem_in_two_directories"] += len(set(stems)) < len(stems)
                hist["file_named_like_a_directory"] += any(f["ns"][-1] in g["ns"][:-1] for f in t["files"] for g in t["files"])
        for c, o in zip(cases, obs):
            if not isinstance(o, dict) or "load" not in o:
                continue
            dist["load"][o["load"]] = dist["load"].get(o["load"], 0) + 1
            dist["shape"][c.get("shape", "?")] = dist["shape"].get(c.get("shape", "?"), 0) + 1
            n = str(len(c["files"]))
            dist["files"][n] = dist["files"].get(n, 0) + 1
            if self.back_edges(c):
                dist["with_back_edge"] += 1
            files = files_of(c)
            indeg = {}
            for f in c["files"]:
                for i in set(abs_imports(f)):
                    if i != nstr(f["ns"]):
                        indeg[i] = indeg.get(i, 0) + 1
            if any(v > 1 for v in indeg.values()):
                dist["with_diamond"] += 1
            if any(len(f["ns"]) > 1 for f in c["files"]):
                dist["nested_dirs"] += 1
            if any(is_match(r) and r["name"] in BUILTIN for f in c["files"] for r in f["rules"]):
                dist["cases_redefining_builtin"] += 1
            for f in c["files"]:
                for r in f["rules"]:
                    dist["match_rules"] += is_match(r)
                    for x in xrefs(r):
                        dist["refs"] += 1
                        if x["q"] is not None:
                            dist["qualified_refs"] += 1
                        if is_val_name(x["n"]):
                            dist["refs_to_match_or_builtin"] += 1
                            if x["q"] is None and x["n"] in BUILTIN and rule_of(f, x["n"]) is not None:
                                dist["refs_to_own_rule_with_builtin_name"] += 1
                                dist["links_matched_by_own_rule_with_builtin_name"] += x["how"] == "lm"
                        if x.get("m"):
                            dist["links_explicit_match_rule"] += 1
            if o["load"] == "ok":
                for key, e in o["resolved"].items():
                    ns = key.split(":")[0]
                    for t in e["cls"]:
                        if t and "fqn" in t and t["fqn"].rsplit(".", 1)[0] != ns:
                            dist["refs_into_imports"] += 1
                dist["texts"] += len(o["models"])
                dist["texts_parsed"] += sum(1 for t in o["models"] if isinstance(t, list))
                dist["texts_link_read"] += sum(1 for t in o["models"] if t == "sem")
            if self.oracle_core(c, o) is not None and self.classify(c, o, "") == KF_CYCLE:
                dist["finding_cases"] += 1
        return {"distribution": dist}
