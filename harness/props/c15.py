"""C15 — a failed load leaves nothing behind.

Same load-tree cases as C14 (harness/loadtree.py), all with a fault.  After the
attempt the exception is dropped and `gc.collect()` run: no instance of any class of
the metamodels may be alive, every user class `__dict__` must be what it was, and
loading the repaired files with the same metamodel must give the same events, the
same constructor calls and the same model dump as with a fresh metamodel.
"""
from harness import loadtree as lt
from harness.core import Check
from harness.props import c14

THEOREMS = [
    "LoadTree.C15_unreachable", "LoadTree.C15_uninstrumented", "LoadTree.C15_same_as_fresh",
    "LoadTree.C15_ids_not_reused", "LoadTree.C15_no_discard_false",
    "LoadTree.C15_no_key_left", "LoadTree.C15_nothing_registered", "LoadTree.C15_fail_iff", "LoadTree.C15_history",
    "LoadTree.C15_history_clean", "LoadTree.C15_same_as_fresh_history", "LoadTree.C15_pinned_false",
]


class Prop(c14.Prop):
    ID = "C15"
    LEAN_MODULE = "TextxVerif.Props.C15"
    THEOREMS = THEOREMS
    QUICK_CASES = 390
    THOROUGH_CASES = 6500
    RULE = ("failing load attempts: 13 fault kinds (cycled) x class of the exception user code raises at the failure point "
            "(cycled per round of the fault table: ordinary Exception, textX's TextXSemanticError, and failures that are "
            "not Exception subclasses: KeyboardInterrupt, SystemExit, GeneratorExit, user-defined BaseException; nested "
            "loads draw theirs at random, swallowed or propagated) x user classes on/off (7 variants) x single / "
            "multi-file x nested loads x global repository; non-trivial = the attempt failed after at least one model object existed "
            "(an event was logged or a class was instrumented)")
    MODELLED = (c14.Prop.MODELLED + "; roots modelled: class instrumentation state and _tx_obj_attrs keys; history: the later attempt of the probe "
                "(repaired files, same metamodel) is compared with runNext on runHist (ok, events, snapshots); weakref/gc "
                "liveness is observed on the implementation only (census of live instances after gc.collect())")
    PROBE = True
    FAULTS = [i for i, f in enumerate(lt.FAULTS) if f[0] != "none"]

    def gen(self, rng, n, tier):
        # fault table (every failure point) x class of the exception user code raises there: round r of the fault
        # table uses lt.EXC_CYCLE[r] (ordinary exception / textX's own error / KeyboardInterrupt / SystemExit /
        # GeneratorExit / user-defined BaseException); the faults of nested loads draw their class at random
        k = len(self.FAULTS)
        for i in range(n):
            yield lt.gen_case(rng.fork(str(i)), self.FAULTS[i % k], exc_index=i // k)

    def model_req(self, case, obs):
        # history: the failing attempt, then the repaired tree with the same metamodel (the probe of run_case)
        then = [lt.repaired(case["loads"][0])] if obs.get("probe_run") else None
        return lt.lean_request(case, then=then)

    def compare(self, case, obs, out):
        d = c14.compare_run(case, obs, out)
        if d or not obs.get("probe_run"):
            return d
        later = out.get("then")
        if not later or len(later) != 1:
            return f"model gave no answer for the later attempt: {later}"
        a, b = obs["probe_run"], later[0]
        if a["ok"] != b["ok"]:
            return f"later attempt (repaired files, same metamodel): implementation ok={a['ok']}, model ok={b['ok']}"
        ie, me = a["events"], b["events"]
        for i in range(max(len(ie), len(me))):
            x = ie[i] if i < len(ie) else None
            y = me[i] if i < len(me) else None
            if x != y:
                return (f"later attempt (repaired files, same metamodel), event {i}: implementation {c14.fmt_ev(x)}, "
                        f"model {c14.fmt_ev(y)}")
        return None

    def oracle(self, case, obs):
        if obs["ok"]:
            return None
        f = c14.class_state_failure(case, obs)
        if f:
            return "after a failed load: " + f
        if obs["live"]:
            return f"after a failed load (exception dropped, gc.collect()): model objects still alive: {obs['live']}"
        if not obs.get("probe_ok", True):
            return "after a failed load: loading the repaired files with a fresh metamodel fails (harness)"
        if not obs.get("probe_same", True):
            a, b = obs["probe"]
            what = [k for k in ("ok", "exc", "events", "inits", "dump") if a[k] != b[k]]
            return ("after a failed load: loading the repaired files with the same metamodel differs from a fresh "
                    f"metamodel in {what} (same: ok={a['ok']} {a['exc']}, {len(a['events'])} events; fresh: ok={b['ok']}, "
                    f"{len(b['events'])} events)")
        return None

    def nontrivial(self, case, obs):
        return (not obs["ok"]) and bool(obs["events"] or any(s[0] >= 1 for e in obs["events"] for s in e[3]))

    def classify(self, case, obs, failure):
        """C15-KF1 (= the C18 repository defect): metamodel with a global repository, the
        main model's model processor fails; only repository retention (classes are clean) and the
        failure disappears when the same case runs without the global repository."""
        main = case["loads"][0]
        if not case["mms"][main["mm"]].get("grepo"):
            return None
        if c14.class_state_failure(case, obs):
            return None
        if obs.get("ok") or not obs["events"]:
            return None
        last = obs["events"][-1]
        if not (last[0] == 5 and last[1] == main["pid"]):
            return None
        import copy

        c2 = copy.deepcopy(case)
        for mm in c2["mms"]:
            mm.pop("grepo", None)
        o2 = lt.run_case(c2, probe=True)
        if Prop.oracle(self, c2, o2) is None and o2["events"] == obs["events"]:
            return "C15-KF1"
        return None
