"""C18 — a failing multi-file load leaves the model repositories clean.

Same machinery as C17 (harness/props/c17.py: directory of model files, history
of loads over one metamodel, Lean machine `Repo.loadMain`), with fault-centred
histories: optional warm-up loads, a load in which one file fails in one phase
(syntax error, unresolvable reference, object processor, model processor,
missing import target), the reload after the file was corrected, sometimes one
more load.  For every generated import graph the (failing file, phase) pairs are
enumerated systematically.
"""
import copy

from harness.props import c17
from harness.props.c17 import (active_imports, closure_nc, eff_refs, oracle_c17, step_defs_at_load,
                               visible_definers)

PHASES = ["syn", "badref", "objf", "modf", "absent"]


def closure_clean(case, obs, k, step, cached):
    """no fault in the files the load has to read, and every reference has a visible definition"""
    files = closure_nc(case, step, cached)
    if c17.step_has_fault(case, step, files):
        return False
    for i in files:
        for name in eff_refs(step["files"][i]):
            own, direct, blt = visible_definers(case, step, i, name, lambda j: step_defs_at_load(case, obs, k, j)
                                                if j in cached else step["files"][j]["defs"])
            if not (own or direct or blt):
                return False
    return True


def oracle_c18(case, obs):
    """C18 from its statement: after a failing load the global repository and every
    repository of a surviving model are what they were; a load whose files are all
    correct succeeds."""
    for k, (step, s) in enumerate(zip(case["steps"], obs["steps"])):
        if s["res"].startswith("other:"):
            return f"step {k}: load raised {s['res'][6:]}: {s.get('msg', '')}"
        cached = {f for f, _ in (s["mm_before"] or [])}
        if s["res"] == "ok":
            continue
        # --- a failing load
        if case["glob"]:
            before = {f: j for f, j in s["mm_before"]}
            after = {f: j for f, j in s["mm"]}
            extra = sorted((f for f in after if f not in before), key=str)
            if extra:
                return (f"step {k}: load of file {step['main']} failed ({s['res']}) but files {extra} loaded during "
                        f"the attempt remain in the metamodel's global repository")
            lost = sorted((f for f in before if f not in after), key=str)
            if lost:
                return f"step {k}: failed load removed files {lost} cached by earlier successful loads"
            changed = sorted((f for f in before if after[f] != before[f]), key=str)
            if changed:
                return f"step {k}: failed load replaced the cached models of files {changed}"
        if k > 0:
            prev = obs["steps"][k - 1]
            plocs = {i: (f, d) for i, f, d in prev["locs"]}
            pall = {i: (tag, d) for i, tag, d in prev["allobj"]}
            locs = {i: (f, d) for i, f, d in s["locs"]}
            allo = {i: (tag, d) for i, tag, d in s["allobj"]}
            for i in plocs:
                if locs.get(i) != plocs[i]:
                    return (f"step {k}: failed load changed local_models of surviving model {i} (file {plocs[i][0]}): "
                            f"{plocs[i][1]} -> {locs.get(i, (None, None))[1]}")
                if allo.get(i) != pall.get(i):
                    return (f"step {k}: failed load changed all_models seen by surviving model {i} "
                            f"(file {plocs[i][0]}): {pall.get(i)} -> {allo.get(i)}")
    # --- corrected files load
    for k, (step, s) in enumerate(zip(case["steps"], obs["steps"])):
        cached = {f for f, _ in (s["mm_before"] or [])}
        if step["main"] in cached:
            expect_ok = not step["files"][step["main"]].get("modf")
        else:
            expect_ok = closure_clean(case, obs, k, step, cached)
        if expect_ok and s["res"] != "ok":
            return (f"step {k}: every file in the import closure of file {step['main']} is correct, yet the load "
                    f"failed with {s['res']} {s.get('msg', '')}")
    return None


class Prop(c17.Prop):
    ID = "C18"
    LEAN_MODULE = "TextxVerif.Props.C18"
    THEOREMS = ["Repo.C18_clean", "Repo.C18_survivors", "Repo.C18_repair"]
    QUICK_CASES = 260
    THOROUGH_CASES = 4000
    RULE = ("import graphs as in C17 (<=6 files, 6 providers, global repository on in 3 of 4 cases); for each graph the "
            "(failing file, phase) pairs over {syntax error, unresolvable reference, object processor, model processor, "
            "missing file} are enumerated; history = optional warm-up loads, the failing load, the reload after the "
            "correction, sometimes one more load; non-trivial = a load fails after it has read >=2 files or with "
            "models of earlier loads cached, and a later load of the history succeeds")
    MODELLED = c17.Prop.MODELLED + ("; failure paths: model.py:988-993,1007-1009 handlers, "
                                    "_remove_all_affected_models_in_construction, metamodel._call_model_processors (fix)")
    ASSUMPTIONS = c17.Prop.ASSUMPTIONS + [
        "faults are raised by the file itself (syntax, reference) or by processors that fail for the models of marked "
        "files; 'corrected' = the next step's files no longer carry the fault"]

    def gen(self, rng, n, tier):
        if tier == "thorough":
            # complete: every import graph over <=3 files x every failing file x phase
            for g in c17.all_graphs(3):
                tab = c17.graph_table(g)
                for victim in range(len(g)):
                    for phase in PHASES[:4]:
                        bad = copy.deepcopy(tab)
                        bad[victim][phase] = True
                        yield {"provider": "plain_uri", "glob": True, "builtin": [], "files": c17.graph_files(len(g)),
                               "exhaustive": True,
                               "steps": [{"main": len(g) - 1, "files": tab}, {"main": 0, "files": bad},
                                         {"main": 0, "files": tab}]}
        made = 0
        while made < n:
            base = self.gen_case(rng, 0.0, nsteps=1)
            if not rng.chance(0.25):
                base["glob"] = True
            files0 = base["steps"][0]["files"]
            nf = len(files0)
            pairs = [(v, p) for v in range(nf) for p in PHASES]
            pairs = rng.shuffle(pairs)[: min(len(pairs), 10)]
            for victim, phase in pairs:
                if made >= n:
                    break
                case = copy.deepcopy(base)
                # main: a file whose closure contains the victim when possible
                mains = [m for m in range(nf)
                         if victim in closure_nc(case, {"main": m, "files": files0}, set())]
                main = rng.choice(mains) if mains and not rng.chance(0.1) else rng.below(nf)
                if phase == "absent" and victim == main:
                    phase = "syn"
                steps = []
                for _ in range(rng.weighted([(0, 3), (1, 4), (2, 2)])):
                    steps.append({"main": rng.below(nf), "files": copy.deepcopy(files0)})
                bad = copy.deepcopy(files0)
                bad[victim][phase] = True
                if rng.chance(0.15):
                    v2 = rng.below(nf)
                    p2 = rng.choice(PHASES[:4])
                    bad[v2][p2] = True
                steps.append({"main": main, "files": bad})
                if rng.chance(0.2):
                    steps.append({"main": main, "files": copy.deepcopy(bad)})  # fails again
                steps.append({"main": main, "files": copy.deepcopy(files0)})  # corrected
                if rng.chance(0.4):
                    steps.append({"main": rng.below(nf), "files": copy.deepcopy(files0)})
                case["steps"] = steps
                made += 1
                yield case

    def oracle(self, case, obs):
        f = oracle_c18(case, obs)
        if f:
            return f
        f = oracle_c17(case, obs)
        if f:
            return "identity after reload: " + f
        return None

    def nontrivial(self, case, obs):
        seen_fail = False
        for s in obs["steps"]:
            if s["res"] != "ok" and (len(s["reads"]) >= 2 or s.get("mm_before")):
                seen_fail = True
            elif s["res"] == "ok" and seen_fail:
                return True
        return False
