"""C18 — a failing multi-file load leaves the model repositories clean.

Same machinery as C17 (harness/props/c17.py: directory of model files, history
of loads over one metamodel, Lean machines `Repo.loadMain` / `loadStr` /
`preload`), with fault-centred histories: optional warm-up loads, a load in
which one text fails in one phase (syntax error, unresolvable reference, object
processor, model processor, missing import target), the reload after the text
was corrected, sometimes one more load.  For every generated import graph the
(failing text, phase) pairs are enumerated systematically; the texts are the
files and the main model given as a string without file name.  Every load goes
through one of the entry points of c17 (step["kind"]: file / strfile / str /
preload), the failing one through an entry point that reaches the failing text.
"""
import copy

from harness.props import c17
from harness.props.c17 import (STR, active_imports, active_imports_any, eff_refs, oracle_c17, spec_of,
                               step_defs_at_load, step_kind, visible_definers)

PHASES = ["syn", "badref", "objf", "modf", "absent"]
# how the failing load (and its repaired reload) enters textX; weights per provider family.  A model without
# file name reaches other files only through the patterns of a GlobalRepo provider.
KINDS_GREPO = [("file", 4), ("str", 4), ("strfile", 1), ("preload", 2)]
KINDS_URI = [("file", 6), ("strfile", 2), ("str", 1)]


def gen_classes(rng, case):
    """metamodel configuration of a case: which rules of the language are user classes (none in half of the
    cases; otherwise mostly the root rule, whose objects are the models the repositories hold), and how they
    are handed to the metamodel"""
    if rng.chance(0.4):
        return case
    names = [nm for nm in c17.USER_RULES if rng.chance(0.85 if nm == "Model" else 0.35)]
    if names:
        case["classes"] = names
        if rng.chance(0.25):
            case["classes_via"] = "callable"
    return case


def closure_from(case, step, roots, cached):
    """models a load constructs when it starts at `roots` (file indices / STR): reachable
    through files that are not cached"""
    seen = [r for r in roots if r not in cached]
    todo = list(seen)
    while todo:
        i = todo.pop()
        for st in active_imports(case, step, i):
            for j in st or []:
                if j not in cached and j not in seen:
                    seen.append(j)
                    todo.append(j)
    return seen


def files_clean(case, obs, k, step, files, cached):
    """no fault in the models the load has to construct, and every reference has a visible definition"""
    if c17.step_has_fault(case, step, files):
        return False
    for i in files:
        for name in eff_refs(spec_of(step, i)):
            own, direct, blt = visible_definers(case, step, i, name, lambda j: step_defs_at_load(case, obs, k, j)
                                                if j in cached else step["files"][j]["defs"])
            if not (own or direct or blt):
                return False
    return True


def preload_calls(case, step, s):
    """the `load_model(..., is_main_model=True)` calls of an explicit pre-load: per registered pattern
    the files it denotes (order of the OS glob as observed), None for a pattern without file"""
    out = []
    for stm in s.get("stmts_x", []):
        out.append(list(stm) if stm else None)
    return out


def closure_clean(case, obs, k, step, cached):
    """the load of this step has nothing to fail at"""
    kind = step_kind(step)
    if kind == "preload":
        if any(st is None for st in active_imports_any(case, step, STR)):
            return False  # a registered pattern denotes no file: OSError
        done = set(cached)
        for st in preload_calls(case, step, obs["steps"][k]):
            for root in st or []:
                files = closure_from(case, step, [root], done)
                if not files_clean(case, obs, k, step, files, done):
                    return False
                done |= set(files)
        return True
    roots = [STR] if kind == "str" else [step["main"]]
    return files_clean(case, obs, k, step, closure_from(case, step, roots, cached), cached)


def preload_completed(case, obs, k, step, cached):
    """files of the main loads a failing pre-load had completed before the failing one: every
    `load_model(is_main_model=True)` of the pre-load is a load of its own, the completed ones are
    'earlier successful loads'"""
    done = set(cached)
    added = []
    for st in preload_calls(case, step, obs["steps"][k]):
        if st is None:
            return added
        for root in st:
            files = closure_from(case, step, [root], done)
            if not files_clean(case, obs, k, step, files, done):
                return added
            done |= set(files)
            added += files
    return added


def oracle_c18(case, obs):
    """C18 from its statement: after a failing load the global repository and every
    repository of a surviving model are what they were; a load whose files are all
    correct succeeds.  Holds for every entry point of a load (file, string with / without
    file name, explicit pre-load)."""
    for k, (step, s) in enumerate(zip(case["steps"], obs["steps"])):
        if s["res"].startswith("other:"):
            return f"step {k}: load raised {s['res'][6:]}: {s.get('msg', '')}"
        cached = {f for f, _ in (s["mm_before"] or [])}
        if s["res"] == "ok":
            continue
        kind = step_kind(step)
        what = {"file": f"file {step['main']}", "strfile": f"file {step['main']} (text given as a string)",
                "str": "a model without file name", "preload": "the registered patterns (pre-load)"}[kind]
        # --- a failing load
        completed = set()
        if case["glob"]:
            before = {f: j for f, j in s["mm_before"]}
            after = {f: j for f, j in s["mm"]}
            if kind == "preload":
                completed = set(preload_completed(case, obs, k, step, cached))
            extra = sorted((f for f in after if f not in before and f not in completed), key=str)
            if extra:
                return (f"step {k}: load of {what} failed ({s['res']}) but models {extra} loaded during "
                        f"the attempt remain in the metamodel's global repository")
            lost = sorted((f for f in before if f not in after), key=str)
            if lost:
                return f"step {k}: failed load removed models {lost} cached by earlier successful loads"
            lost = sorted((f for f in completed if f not in after), key=str)
            if lost:
                return f"step {k}: failed pre-load removed files {lost} of the main loads it had completed"
            changed = sorted((f for f in before if after[f] != before[f]), key=str)
            if changed:
                return f"step {k}: failed load replaced the cached models of files {changed}"
        if k > 0:
            prev = obs["steps"][k - 1]
            plocs = {i: (f, d) for i, f, d in prev["locs"]}
            pall = {i: (tag, d) for i, tag, d in prev["allobj"]}
            locs = {i: (f, d) for i, f, d in s["locs"]}
            allo = {i: (tag, d) for i, tag, d in s["allobj"]}
            # the main loads a pre-load completed before the failing one are in the shared global dict
            shared = bool(completed)
            for i in plocs:
                if locs.get(i) != plocs[i]:
                    return (f"step {k}: failed load changed local_models of surviving model {i} (file {plocs[i][0]}): "
                            f"{plocs[i][1]} -> {locs.get(i, (None, None))[1]}")
                now = allo.get(i)
                if shared and now is not None and now[0] == "mm":
                    now = (now[0], [e for e in now[1] if e[0] not in completed])
                if now != pall.get(i):
                    return (f"step {k}: failed load changed all_models seen by surviving model {i} "
                            f"(file {plocs[i][0]}): {pall.get(i)} -> {allo.get(i)}")
    # --- corrected files load
    for k, (step, s) in enumerate(zip(case["steps"], obs["steps"])):
        cached = {f for f, _ in (s["mm_before"] or [])}
        kind = step_kind(step)
        if kind in ("file", "strfile") and step["main"] in cached:
            expect_ok = not step["files"][step["main"]].get("modf")
        else:
            expect_ok = closure_clean(case, obs, k, step, cached)
        if expect_ok and s["res"] != "ok":
            what = {"file": f"file {step['main']}", "strfile": f"file {step['main']} (text given as a string)",
                    "str": "the model without file name", "preload": "the registered patterns"}[kind]
            return (f"step {k}: every file in the import closure of {what} is correct, yet the load "
                    f"failed with {s['res']} {s.get('msg', '')}")
    return None


class Prop(c17.Prop):
    ID = "C18"
    LEAN_MODULE = "TextxVerif.Props.C18"
    THEOREMS = ["Repo.C18_clean", "Repo.C18_survivors", "Repo.C18_repair",
                "Repo.C18_str_name_admissible", "Repo.C18_entry_clean", "Repo.C18_entry_survivors",
                "Repo.C18_entry_repair", "Repo.C18_preload_fail",
                "Repo.C18_visible_iff", "Repo.C18_semantic_cause", "Repo.C18_repair_succeeds",
                "Repo.C18_fail_then_repair", "Repo.C18_repair_succeeds_univ",
                "Repo.C18_repair_succeeds_on", "Repo.C18_repair_succeeds_dec",
                "Repo.C18_history_cache_stays", "Repo.C18_history_fail_step", "Repo.C18_preload_repair_succeeds"]
    QUICK_CASES = 260
    THOROUGH_CASES = 4000
    RULE = ("import graphs as in C17 (<=6 files, 6 providers, global repository on in 9 of 10 graphs), metamodel "
            "configuration: every subset of the rules {Model, Import, Elem, Ref} as user classes (none in 4 of 10 cases, "
            "the root rule in 85 % of the others; as a list or through a callable); for each graph the "
            "(failing text, phase) pairs over the files and the model without file name x {syntax error, unresolvable "
            "reference, object processor, model processor, missing file} are enumerated; the failing load and its "
            "repaired reload enter textX through model_from_file / model_from_str with file name / model_from_str "
            "without file name (registered as anonymousN) / GlobalRepo.load_models_in_model_repo, chosen so that the "
            "load constructs the failing text, in 6 of 10 cases the entry farthest (import levels) from it; plus the complete "
            "matrix user-class configuration x depth of the failing file in an import chain x phase; history = optional warm-up loads (any entry point), the failing load, "
            "the reload after the correction, sometimes one more load; non-trivial = a load fails after it has read "
            ">=2 files or with models of earlier loads cached, and a later load of the history succeeds")
    MODELLED = c17.Prop.MODELLED + ("; failure paths: model.py:988-993,1007-1009 handlers, "
                                    "_remove_all_affected_models_in_construction, metamodel._call_model_processors (fix), "
                                    "ModelRepository.remove_model for models under invented names (Repo.loadStr), failing "
                                    "GlobalRepo.load_models_in_model_repo (Repo.preload); user classes (attribute store of "
                                    "the parser, model.py get_model_from_str / _end_model_construction / "
                                    "_abort_model_construction) are an implementation configuration: the model has no "
                                    "counterpart, the same Lean run is the reference for every configuration")
    ASSUMPTIONS = c17.Prop.ASSUMPTIONS + [
        "which rules of the language are user classes does not change what a load does to the repositories (checked: "
        "every configuration is compared with the same model run and judged by the same oracle)",
        "faults are raised by the file itself (syntax, reference) or by processors that fail for the models of marked "
        "files; 'corrected' = the next step's files no longer carry the fault",
        "every load_model(is_main_model=True) of an explicit pre-load is a load of its own: the main loads a failing "
        "pre-load completed before the failing one are earlier successful loads and stay"]

    # ---------------------------------------------------------------- gen
    @staticmethod
    def mk_step(kind, main, files, text=None):
        st = {"main": main, "files": files}
        if kind != "file":
            st["kind"] = kind
        if kind == "str":
            st["text"] = copy.deepcopy(text)
        return st

    @staticmethod
    def reaches(case, kind, main, files, text, victim):
        """does a load through this entry point construct the victim (nothing cached)?"""
        step = {"main": main, "files": files, "kind": kind, "text": text}
        if kind == "str":
            roots = [STR]
        elif kind == "preload":
            roots = [j for st in active_imports_any(case, step, STR) for j in st or []]
        else:
            roots = [main]
        return victim in closure_from(case, step, roots, set())

    @staticmethod
    def depth(case, kind, main, files, text, victim):
        """import distance from the roots of a load through this entry point to the victim (nothing cached):
        the number of import levels (nested loads, each with its own parser and error handler) the failure
        has to pass on its way out is at least this"""
        step = {"main": main, "files": files, "kind": kind, "text": text}
        if kind == "str":
            level = [STR]
        elif kind == "preload":
            level = [j for st in active_imports_any(case, step, STR) for j in st or []]
        else:
            level = [main]
        seen, d = set(level), 0
        while level:
            if victim in level:
                return d
            nxt = []
            for i in level:
                for st in active_imports(case, step, i):
                    for j in st or []:
                        if j not in seen:
                            seen.add(j)
                            nxt.append(j)
            level, d = nxt, d + 1
        return -1

    def gen_config_family(self, tier):
        """complete matrix metamodel configuration (which rules are user classes, how they are handed over) x
        depth of the failing file in an import chain x phase, on a repository that already caches a bystander
        file; followed by the repaired reload and a load of the middle of the chain.  Quick: chain of 3 files,
        failing file at depth 1 and 2, two configurations (20 cases); thorough: chains of 2-4 files, every
        position, 4 configurations x 2 ways x global repository on / off (providers in rotation)."""
        provs = ["plain_uri", "fqn_uri", "rrel", "plain_search"]
        if tier == "quick":
            combos = [(3, v, cl, "list", None, True) for v in (1, 2) for cl in (["Model"], list(c17.USER_RULES))]
        else:
            combos = [(n, v, cl, via, pv, gl) for n in (2, 3, 4) for v in range(n)
                      for cl in ([], ["Model"], ["Import", "Elem", "Ref"], list(c17.USER_RULES))
                      for via in (("list", "callable") if cl else ("list",)) for pv in (None,) for gl in (True, False)]
        k = 0
        for n, victim, classes, via, prov, glob in combos:
            tab = [{"imports": [{"pat": f"f{i + 1}.m", "expect": [i + 1]}] if i < n - 1 else [], "defs": [c17.NAMES[i]],
                    "refs": [c17.NAMES[i]] + ([c17.NAMES[i + 1]] if i < n - 1 else [])} for i in range(n)]
            tab.append({"imports": [], "defs": [c17.NAMES[n]], "refs": []})
            for phase in PHASES:
                if phase == "absent" and victim == 0:
                    continue
                k += 1
                bad = copy.deepcopy(tab)
                bad[victim][phase] = True
                case = {"provider": prov or provs[k % len(provs)], "glob": glob, "builtin": [],
                        "files": c17.graph_files(n + 1), "exhaustive": True,
                        "steps": [{"main": n, "files": tab}, {"main": 0, "files": bad}, {"main": 0, "files": tab},
                                  {"main": min(1, n - 1), "files": tab}]}
                if classes:
                    case["classes"] = list(classes)
                    if via != "list":
                        case["classes_via"] = via
                yield case

    def gen_exhaustive(self):
        # complete: every import graph over <=3 files x every failing file x phase
        for g in c17.all_graphs(3):
            tab = c17.graph_table(g)
            for victim in range(len(g)):
                for phase in PHASES[:4]:
                    bad = copy.deepcopy(tab)
                    bad[victim][phase] = True
                    yield {"provider": "plain_uri", "glob": True, "builtin": [], "files": c17.graph_files(len(g)),
                           "exhaustive": True,
                           "steps": [{"main": len(g) - 1, "files": tab}, {"main": 0, "files": bad},
                                     {"main": 0, "files": tab}]}
        # complete: <=3 files behind a GlobalRepo provider (every file sees every file a pattern denotes) x every
        # entry point x every failing text (files and the model without file name) x phase x global repository
        # on / off, after a successful load through each entry point, followed by the repaired reload
        for nf in (1, 2, 3):
            files = c17.graph_files(nf)
            tab = [{"imports": [], "defs": [c17.NAMES[i]], "refs": [c17.NAMES[i], c17.NAMES[(i + 1) % nf]]}
                   for i in range(nf)]
            text = {"defs": [c17.NAMES[4]], "refs": [c17.NAMES[0], c17.NAMES[4]]}
            for pats in ([{"pat": "*.m", "expect": list(range(nf))}],
                         [{"pat": "f0.m", "expect": [0]}, {"pat": "*.m", "expect": list(range(nf))}]):
                for glob in (True, False):
                    for kind in ("file", "strfile", "str", "preload"):
                        for warm in ("file", "str", "preload"):
                            for victim in list(range(nf)) + ([STR] if kind == "str" else []):
                                for phase in PHASES[:4]:
                                    bad, btext = copy.deepcopy(tab), copy.deepcopy(text)
                                    spec_of({"files": bad, "text": btext}, victim)[phase] = True
                                    yield {"provider": "plain_grepo", "glob": glob, "builtin": [], "files": files,
                                           "patterns": pats, "exhaustive": True,
                                           "steps": [self.mk_step(warm, nf - 1, tab, text),
                                                     self.mk_step(kind, 0, bad, btext),
                                                     self.mk_step(kind, 0, tab, text)]}

    def gen(self, rng, n, tier):
        if tier == "thorough":
            yield from self.gen_exhaustive()
        yield from self.gen_config_family(tier)
        made = 0
        while made < n:
            base = self.gen_case(rng, 0.0, nsteps=1)
            if not rng.chance(0.25):
                base["glob"] = True
            files0 = base["steps"][0]["files"]
            nf = len(files0)
            kinds = KINDS_GREPO if base["provider"].endswith("grepo") else KINDS_URI
            # the model without file name used by the "str" loads of this graph (fault free)
            text0 = self.gen_text(rng, base, {"files": files0}, 0.0)
            # every text of the graph — the files and the model without file name — failing in every phase
            pairs = [(v, p) for v in list(range(nf)) + [STR] for p in PHASES if not (v == STR and p == "absent")]
            pairs = rng.shuffle(pairs)[: min(len(pairs), 10)]
            for victim, phase in pairs:
                if made >= n:
                    break
                case = copy.deepcopy(base)
                # entry point and main: such that the load constructs the victim when possible
                main = rng.below(nf)
                if victim == STR:
                    kind = "str"
                else:
                    kind = rng.weighted(kinds)
                    if not rng.chance(0.1):
                        cands = [(kd, m) for kd, _ in kinds for m in (range(nf) if kd in ("file", "strfile") else [main])
                                 if self.reaches(case, kd, m, files0, text0, victim)]
                        if cands and rng.chance(0.6):
                            # every depth of the import chain: prefer the entries farthest from the victim (the
                            # failure passes the handlers of all import levels in between)
                            ds = [self.depth(case, kd, m, files0, text0, victim) for kd, m in cands]
                            cands = [c for c, d in zip(cands, ds) if d == max(ds)]
                        same = [c for c in cands if c[0] == kind]
                        if same:
                            kind, main = rng.choice(same)
                        elif cands:
                            kind, main = rng.choice(cands)
                if phase == "absent" and victim == main and kind in ("file", "strfile"):
                    phase = "syn"
                steps = []
                for _ in range(rng.weighted([(0, 3), (1, 4), (2, 2)])):
                    steps.append(self.mk_step(rng.weighted(kinds), rng.below(nf), copy.deepcopy(files0), text0))
                bad = copy.deepcopy(files0)
                btext = copy.deepcopy(text0)
                spec_of({"files": bad, "text": btext}, victim)[phase] = True
                if rng.chance(0.15):
                    v2 = rng.choice(list(range(nf)) + ([STR] if kind == "str" else []))
                    p2 = rng.choice(PHASES[:4])
                    spec_of({"files": bad, "text": btext}, v2)[p2] = True
                steps.append(self.mk_step(kind, main, bad, btext))
                if rng.chance(0.2):
                    steps.append(self.mk_step(kind, main, copy.deepcopy(bad), btext))  # fails again
                steps.append(self.mk_step(kind, main, copy.deepcopy(files0), text0))  # corrected
                if rng.chance(0.4):
                    steps.append(self.mk_step(rng.weighted(kinds), rng.below(nf), copy.deepcopy(files0), text0))
                case["steps"] = steps
                made += 1
                yield gen_classes(rng, case)

    def oracle(self, case, obs):
        f = oracle_c18(case, obs)
        if f:
            return f
        f = oracle_c17(case, obs)
        if f:
            return "identity after reload: " + f
        return None

    def nontrivial(self, case, obs):
        seen_fail = False
        for s in obs["steps"]:
            if s["res"] != "ok" and (len(s["reads"]) >= 2 or s.get("mm_before")):
                seen_fail = True
            elif s["res"] == "ok" and seen_fail:
                return True
        return False
