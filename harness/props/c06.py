"""C06 — object source spans and locations are exact.

Implementation side: the grammar / model family of harness/objgen.py rendered with random
layouts (leading, trailing and interleaved whitespace, `\\r\\n`, line and block comments,
tokens glued together where lexically possible, non-ASCII identifiers), plus a small "mini"
family (every maximal run of letters in a string over {a, b, space, \\n, \\r} is an object)
a "multi" family (2-4 files that refer to each other's items, so several models, parsers and
file names coexist: mode "import" = importURI imports, mode "repo" = global-repository scope
providers with a file pattern or add_model, file 0 then also given as a string, optionally one
repository shared by all loads) and a "lang" family (grammars that use the same literal at many
places — keyword-like words and symbols, directly or through one-literal match rules —, interior
matches with the suppress operator '-', meta-models with autokwd / ignore_case / memoization).

Every text is turned into a model in one of the ways the quantifier names ("loaded from
strings and from files"): `model_from_str(text)`, `model_from_str(text, file_name=...)`,
`model_from_file(absolute path)`, `model_from_file(relative path)`; the meta-model comes from
`metamodel_from_str(grammar)`, `metamodel_from_str(grammar, file_name=...)` or
`metamodel_from_file(path)`; other models may be loaded with the same meta-model before and
after the observed one (history).  All of these put *other* file names / parsers into the
system (the grammar's file name on every class, other models' names and parsers).

Observed: `_tx_position`, `_tx_position_end`, `get_location(obj)` of every object of every
model (on the finished model and, in some cases, also from an object processor while loading), `parser.pos_to_linecol` on a sample of positions, and the Arpeggio parse tree.

Model side (Drivers/Obj.lean): `posToLineCol`, `getLocation` (per-root input and file name),
`build` (spans assigned by process_node from the dumped real parse tree) and the
well-formedness predicate `PT.wfB` on the real parse tree (the hypothesis of the span theorems).

Oracle: from the statement — the expected first / last token offsets of every object are
known from the derivation and the layout; line / column are recomputed with str.count /
str.rfind; the file name is the one of the model that contains the object.
"""
import os
import posixpath
import re
import tempfile

from harness.core import Check, use_repo
from harness import objgen as G

MINI_GRAMMAR = "Model: items+=W;\nW: v=/[ab]+/;\n"
MINI_OTHER = "b a\n ab"
# several models at once: every file imports others (importURI, PlainNameImportURI) and refers to their items
MULTI_GRAMMAR = ("Model: imports*=Imp items+=Item;\nImp: 'import' importURI=STRING;\n"
                 "Item: 'item' name=ID ('->' ref=[Item])?;\n" + G.COMMENT_RULE + "\n")
MULTI_NAMES = ["Imp", "Item", "Model"]
MULTI_LAYOUT_GRAM = {"comment": True}
TRIVIAL_LAYOUT = {"lead": None, "trail": None, "seps": []}

# How a text becomes a model (the quantifier: "loaded from strings and from files") and how the grammar became
# a meta-model.  Every way has its own idea of "a file name" that get_location must not confuse with the model's:
#   model   str    model_from_str(text)                        -> file name None
#           named  model_from_str(text, file_name=path)        -> path (the text is NOT read from the file)
#           file   model_from_file(absolute path)              -> path (universal newlines)
#           rel    model_from_file(relative path)              -> the absolute path
#   grammar str    metamodel_from_str(grammar)                 (classes carry _tx_filename None)
#           named  metamodel_from_str(grammar, file_name=path) (classes carry the grammar's path)
#           file   metamodel_from_file(path)                   (ditto)
# "hist": other models loaded with the same meta-model before ("pre") / after ("post") the observed one.
# "proc": object processors of all object classes call get_location too (its documented use: filling exceptions),
#         i.e. the location is also observed *during* the load, not only on the finished model.
MODEL_SRCS = ("str", "named", "file", "rel")
MM_SRCS = ("str", "named", "file")


def src_of(case):
    s = case.get("src")
    if s in MODEL_SRCS:
        return s
    return "file" if case.get("file") else "str"


def with_src(case, s):
    return dict(case, src=s, file=s in ("file", "rel"))


def translated(case):
    """the text reaches the parser through Python's text-mode file reading"""
    return src_of(case) in ("file", "rel")


def gen_cfg(r, multi=False):
    cfg = {"mm_src": r.weighted([("str", 4), ("file", 3), ("named", 1)])}
    if multi:  # a string-loaded model without a file name cannot import (no base directory)
        src = r.weighted([("file", 4), ("named", 2), ("rel", 1)])
    else:
        src = r.weighted([("str", 8), ("file", 6), ("named", 3), ("rel", 2)])
        if r.chance(0.35):
            kinds = ["str", "file", "named"]
            cfg["hist"] = {"pre": [r.choice(kinds) for _ in range(r.weighted([(0, 2), (1, 3), (2, 1)]))],
                           "post": [r.choice(kinds) for _ in range(r.weighted([(0, 2), (1, 3), (2, 1)]))]}
    cfg["src"] = src
    cfg["file"] = src in ("file", "rel")
    cfg["proc"] = r.chance(0.3)  # get_location is also asked from object processors (while the load is still running)
    return cfg


def linecol(text, pos):
    return [1 + text.count("\n", 0, pos), pos - (text.rfind("\n", 0, pos) + 1) + 1]


# ---------------------------------------------------------------------- the multi-file family
def multi_tokens(case, i):
    """tokens of file i and its objects as (class, name, first token, last token)"""
    f = case["files"][i]
    base = posixpath.dirname(f["path"])
    toks, objs = [], []
    for j in f["imports"]:
        rel = posixpath.relpath(case["files"][j]["path"], base or ".")
        objs.append(("Imp", None, len(toks), len(toks) + 1))
        toks += ["import", '"%s"' % rel]
    for name, ref in f["items"]:
        k = len(toks)
        toks += ["item", name] + ([] if ref is None else ["->", ref])
        objs.append(("Item", name, k, len(toks) - 1))
    return toks, objs


def multi_src(case, i):
    """how file i becomes a model: file 0 as the load configuration says; the others are read from their files by the
    scope provider — or, mode "repo" with lib "add_str" / "add_file", loaded by the user and handed to the provider
    with add_model (the documented way of combining models parsed from strings)"""
    if i == 0:
        return src_of(case)
    if case.get("mode") == "repo" and case.get("lib") == "add_str":
        return "str"
    return "file"


def multi_translated(case, i):
    return multi_src(case, i) in ("file", "rel")


def multi_visible(case, i):
    """files whose items file i can refer to"""
    n = len(case["files"])
    if case.get("mode") != "repo":
        return [i] + list(case["files"][i]["imports"])
    if i == 0:
        return list(range(n))
    if case.get("lib", "pattern") == "pattern":
        return list(range(1, n))
    return list(range(1, i + 1))  # added one after the other


def multi_expected(case, i, translate=None):
    """(text of file i as the parser sees it, expected objects in the format of objgen.expected)"""
    if translate is None:
        translate = multi_translated(case, i)
    toks, objs = multi_tokens(case, i)
    text, offs = G.assemble(MULTI_LAYOUT_GRAM, toks, case["files"][i]["layout"], translate)
    ni = len(case["files"][i]["imports"])
    exp = [{"eid": 0, "cls": "Model", "name": None, "span": [offs[0][0], offs[-1][1]], "parent": None,
            "attrs": [["imports", "cont", list(range(1, ni + 1)), True],
                      ["items", "cont", list(range(ni + 1, len(objs) + 1)), True]]}]
    for k, (cls, name, a, b) in enumerate(objs):
        exp.append({"eid": k + 1, "cls": cls, "name": name, "span": [offs[a][0], offs[b][1]], "parent": 0, "attrs": []})
    return text, exp


def multi_valid(case):
    """every file reachable from file 0, every reference visible (own file or a directly imported one)"""
    files = case["files"]
    if not files or any(not f["items"] for f in files):
        return False
    if any(j == i or not (0 <= j < len(files)) for i, f in enumerate(files) for j in f["imports"]):
        return False
    if any(len(set(f["imports"])) != len(f["imports"]) for f in files):
        return False
    seen, todo = {0}, [0]
    while todo:
        for j in files[todo.pop()]["imports"]:
            if j not in seen:
                seen.add(j)
                todo.append(j)
    if case.get("mode") == "repo":
        if any(f["imports"] for f in files) or (len(files) < 2 and case.get("lib", "pattern") == "pattern"):
            return False
    elif len(seen) != len(files):
        return False
    where = {}
    for i, f in enumerate(files):
        for name, _ in f["items"]:
            if name in where:
                return False
            where[name] = i
    for i, f in enumerate(files):
        for _, ref in f["items"]:
            if ref is not None and where.get(ref) not in multi_visible(case, i):
                return False
    return True


def gen_multi_repo(r):
    """mode "repo": no imports — the other files are found by a global-repository scope provider (FQNGlobalRepo /
    PlainNameGlobalRepo) through a file pattern, or were loaded before (from strings / files) and added with
    add_model.  File 0 may now be given as a string without file name: the provider enters it into the model
    repository under an invented name, which is not "the model's file name"."""
    nf = r.randint(2, 4)
    dirs = ["", "", "sub", "sub/deep", "lib"]
    files = [{"path": posixpath.join(r.choice(dirs) if i else "", f"f{i}.txt"), "imports": [],
              "items": [[f"n{i}x{k}", None] for k in range(r.randint(1, 3))]} for i in range(nf)]
    case = {"kind": "multi", "mode": "repo", "files": files, "provider": r.choice(["fqn", "plain"]),
            "lib": r.weighted([("pattern", 3), ("add_str", 1), ("add_file", 1)]), "global_repo": r.chance(0.25)}
    for i, f in enumerate(files):
        visible = [it[0] for j in multi_visible(case, i) for it in files[j]["items"]]
        for it in f["items"]:
            if r.chance(0.65):
                it[1] = r.choice(visible)
        f["layout"] = G.gen_layout(r, MULTI_LAYOUT_GRAM, len(multi_tokens(case, i)[0]))
    c = r.fork("cfg")
    src = c.weighted([("str", 5), ("file", 2), ("named", 1), ("rel", 1)])
    case.update({"mm_src": c.weighted([("str", 4), ("file", 3), ("named", 1)]), "src": src, "file": src in ("file", "rel"),
                 "proc": c.chance(0.3)})
    if src == "named":
        # a shared repository caches models by file name: a text given *for* a file that an earlier load has already
        # read from disk is (by design) not parsed again — the "editor buffer" would not be the input
        case["global_repo"] = False
    if c.chance(0.4):  # further string models with the same meta-model (and provider) before / after
        case["hist"] = {"pre": ["str"] * c.randint(0, 2), "post": ["str"] * c.randint(0, 2)}
    return case


def gen_multi(r):
    if r.fork("mode").chance(0.5):
        return gen_multi_repo(r)
    nf = r.randint(2, 4)
    dirs = ["", "", "sub", "sub/deep", "lib"]
    files = [{"path": posixpath.join(r.choice(dirs) if i else "", f"f{i}.txt"), "imports": [], "items": []}
             for i in range(nf)]
    for i in range(1, nf):
        files[r.below(i)]["imports"].append(i)
    for i in range(nf):
        for j in range(nf):
            if i != j and j not in files[i]["imports"] and r.chance(0.2 if i < j else 0.08):  # i > j: import cycles
                files[i]["imports"].append(j)
        files[i]["imports"] = r.shuffle(files[i]["imports"])
        files[i]["items"] = [[f"n{i}x{k}", None] for k in range(r.randint(1, 3))]
    for i, f in enumerate(files):
        visible = [it[0] for j in [i] + f["imports"] for it in files[j]["items"]]
        for it in f["items"]:
            if r.chance(0.65):
                it[1] = r.choice(visible)
    case = {"kind": "multi", "files": files}
    for i, f in enumerate(files):
        f["layout"] = G.gen_layout(r, MULTI_LAYOUT_GRAM, len(multi_tokens(case, i)[0]))
    case.update(gen_cfg(r.fork("cfg"), multi=True))
    return case


# ---------------------------------------------------------------------- the "lang" family
# Grammar-language constructs and meta-model options that decide how a *match* becomes (or does not become) a parse
# tree node — the first / last matched character of an object is a keyword more often than not:
#   * the same literal at several places of the grammar (the objgen family draws a fresh keyword for every place),
#     keyword-like words and symbols, as a string match ('w') or through a one-literal match rule (K: 'w';);
#   * meta-model options autokwd / ignore_case (keywords become regex matches; text in mixed case) / memoization;
#   * the suppress operator '-' on *interior* occurrences (an object never starts or ends with a suppressed match:
#     what "first matched character" means there is left open by the statement; the other occurrences of the same
#     literal are what is observed).
# Every common rule R<i> starts with a literal of its own (`first`, distinct, prefix-free pool), contains only rules with
# a larger index and never ends with a list, so the PEG parse is the derivation.
LANG_WORDS = ["note", "sec", "end", "item", "of", "to", "with", "begin"]
LANG_SYMS = ["#", "::", "=>", "%", "~"]
LANG_LAYOUT_GRAM = {"comment": True}


def lang_lit_name(g, w):
    return "K%d" % g["pool"].index(w)


def lang_render(g):
    def lit(e):
        s = lang_lit_name(g, e["w"]) if e.get("via") else "'%s'" % e["w"]
        return s + ("-" if e.get("sup") else "")

    lines = ["Model: cmds+=Cmd;", "Cmd: " + " | ".join(f"R{i}" for i in g["top"]) + ";"]
    for i, r in enumerate(g["rules"]):
        parts = []
        for j, e in enumerate(r):
            if e["k"] == "lit":
                parts.append(lit(e))
            elif e["k"] == "name":
                parts.append("name=ID")
            elif e["k"] == "str":
                parts.append(f"s{j}=STRING")
            else:
                parts.append(f"k{j}{e['op']}=R{e['t']}")
        lines.append(f"R{i}: " + " ".join(parts) + ";")
    for w in g["pool"]:
        if any(e["k"] == "lit" and e.get("via") and e["w"] == w for r in g["rules"] for e in r):
            lines.append(f"{lang_lit_name(g, w)}: '{w}';")
    lines.append(G.COMMENT_RULE)
    return "\n".join(lines) + "\n"


def lang_names(g):
    return sorted(["Model", "Cmd"] + [f"R{i}" for i in range(len(g["rules"]))] + [f"K{i}" for i in range(len(g["pool"]))])


def lang_opts(g):
    return {k: bool(v) for k, v in g.get("opts", {}).items()}


def gen_lang_grammar(r):
    nw = r.randint(4, 6)
    pool = r.sample(LANG_WORDS, min(nw, len(LANG_WORDS)))[:nw]
    if r.chance(0.5):
        pool += r.sample(LANG_SYMS, r.randint(1, 2))
    nr = r.randint(2, 4)
    firsts = r.sample(pool, nr)
    rules = []
    for i in range(nr):
        def lit(first=False, last=False, avoid=()):
            cands = [w for w in pool if w not in avoid] or [w for w in pool]
            w = r.choice(cands)
            # preferably a literal that is also the first literal of a rule (the interesting coincidence)
            if r.chance(0.5):
                w = r.choice([f for f in firsts if f not in avoid] or cands)
            return {"k": "lit", "w": w, "sup": (not last) and r.chance(0.35), "via": r.chance(0.2)}

        els = [{"k": "lit", "w": firsts[i], "sup": False, "via": r.chance(0.2)}]
        for _ in range(r.randint(1, 4)):
            kind = r.weighted([("lit", 5), ("name", 2), ("str", 2), ("kids", 3 if i < nr - 1 else 0)])
            prev = els[-1]
            avoid = [firsts[prev["t"]]] if prev["k"] == "kids" else []
            if kind == "lit":
                els.append(lit(avoid=avoid))
            elif kind == "name":
                if prev["k"] != "kids" and not any(e["k"] == "name" for e in els):
                    els.append({"k": "name"})
            elif kind == "str":
                if prev["k"] != "kids":
                    els.append({"k": "str"})
            elif prev["k"] != "kids":
                els.append({"k": "kids", "t": r.randint(i + 1, nr - 1), "op": r.choice(["*", "+"])})
        last = els[-1]
        if last["k"] == "kids" or (last["k"] == "lit" and last["sup"]) or r.chance(0.4) or len(els) == 1:
            avoid = [firsts[last["t"]]] if last["k"] == "kids" else []
            els.append(dict(lit(last=True, avoid=avoid), sup=False))
        if not any(e["k"] != "lit" for e in els):  # a rule without assignment would be a match rule
            els.insert(1, {"k": "name"})
        rules.append(els)
    top = sorted(set([0] + [i for i in range(1, nr) if r.chance(0.6)]))
    return {"pool": pool, "rules": rules, "top": top,
            "opts": {"autokwd": r.chance(0.6), "ignore_case": r.chance(0.3), "memoization": r.chance(0.2)}}


def gen_lang_node(r, g, i, depth, cnt):
    node = {"r": i, "kids": {}}
    for j, e in enumerate(g["rules"][i]):
        if e["k"] == "name":
            node["name"] = "n%d" % cnt[0]
            cnt[0] += 1
        elif e["k"] == "kids":
            lo = 1 if e["op"] == "+" else 0
            n = r.randint(lo, 2) if depth > 0 else lo
            node["kids"][str(j)] = [gen_lang_node(r, g, e["t"], depth - 1, cnt) for _ in range(n)]
    return node


def gen_lang(r):
    g = gen_lang_grammar(r.fork("g"))
    cnt = [0]
    cmds = [gen_lang_node(r, g, r.choice(g["top"]), 2, cnt) for _ in range(r.randint(1, 4))]
    case = {"kind": "lang", "g": g, "cmds": cmds, "casing": r.randint(0, 1 << 30)}
    ntoks = len(lang_tokens(case)[0])
    case["layout"] = G.gen_layout(r, LANG_LAYOUT_GRAM, ntoks)
    return case


def lang_tokens(case):
    """tokens (suppressed ones included: they are in the text) and the objects in document order as
    [class, name, first kept token, last kept token, parent, {attr: [children]}]"""
    g = case["g"]
    toks, kept, objs = [], [], []
    seed = [case.get("casing", 0)]

    def cased(w):
        if not g.get("opts", {}).get("ignore_case"):
            return w
        out = []
        for c in w:
            seed[0] = (seed[0] * 1103515245 + 12345) % (1 << 31)
            out.append(c.upper() if (seed[0] >> 16) & 1 else c)
        return "".join(out)

    def walk(node, parent):
        me = len(objs)
        o = [f"R{node['r']}", node.get("name"), None, None, parent, {}]
        objs.append(o)
        for j, e in enumerate(g["rules"][node["r"]]):
            if e["k"] == "kids":
                o[5][f"k{j}"] = [walk(k, me) for k in node["kids"].get(str(j), [])]
                continue
            if e["k"] == "lit":
                toks.append(cased(e["w"]))
                kept.append(not e.get("sup"))
            elif e["k"] == "name":
                toks.append(node["name"])
                kept.append(True)
            else:
                toks.append('"s%d // %d"' % (me, j) if (me + j) % 3 == 0 else '"s%d"' % me)
                kept.append(True)
        return me

    objs.append(["Model", None, None, None, None, {}])  # the root is object 0
    tops = [walk(c, 0) for c in case["cmds"]]
    objs[0][5]["cmds"] = tops
    return toks, (kept, objs)


def lang_expected(case, translate=False):
    toks, (kept, objs) = lang_tokens(case)
    text, offs = G.assemble(LANG_LAYOUT_GRAM, toks, case["layout"], translate)
    # token ranges of the objects: pre-order numbering, an object's tokens are contiguous
    g = case["g"]
    spans = {}
    ti = [0]

    def walk(node, me_box):
        me = me_box[0]
        me_box[0] += 1
        a = b = None
        for j, e in enumerate(g["rules"][node["r"]]):
            if e["k"] == "kids":
                for k in node["kids"].get(str(j), []):
                    ka, kb = walk(k, me_box)
                    a = ka if a is None else a
                    b = kb
                continue
            if kept[ti[0]]:
                a = offs[ti[0]][0] if a is None else a
                b = offs[ti[0]][1]
            ti[0] += 1
        spans[me] = [a, b]
        return a, b

    box = [1]
    ab = [walk(c, box) for c in case["cmds"]]
    spans[0] = [ab[0][0], ab[-1][1]]
    exp = []
    for i, (cls, name, _, _, parent, kids) in enumerate(objs):
        exp.append({"eid": i, "cls": cls, "name": name, "span": spans[i], "parent": parent,
                    "attrs": [[a, "cont", v, True] for a, v in kids.items()]})
    return text, exp


def lang_valid(case):
    g = case["g"]
    used = {c["r"] for c in case["cmds"]}
    return bool(case["cmds"]) and used <= set(g["top"])


class Prop(Check):
    ID = "C06"
    LEAN_MODULE = "TextxVerif.Props.C06"
    THEOREMS = [
        "Obj.C06_bisect",
        "Obj.C06_linecol",
        "Obj.C06_linecol_inj",
        "Obj.C06_line_monotone",
        "Obj.C06_col_monotone",
        "Obj.C06_linecol_strict_mono",
        "Obj.C06_linecol_origin",
        "Obj.C06_linecol_after_newline",
        "Obj.C06_linecol_next",
        "Obj.C06_linecol_unique",
        "Obj.C06_linecol_bounds",
        "Obj.C06_tree_span",
        "Obj.C06_tree_nesting",
        "Obj.C06_tree_siblings",
        "Obj.C06_span",
        "Obj.C06_nesting",
        "Obj.C06_siblings_ordered",
        "Obj.C06_location",
        "Obj.C06_location_nchar",
        "Obj.C06_span_in_input",
        "Obj.C06_location_built",
    ]
    DRIVER = "Drivers/Obj.lean"
    QUICK_CASES = 380
    THOROUGH_CASES = 5000
    PROCS_THOROUGH = 4
    RULE = ("random grammar + derived model rendered with a random layout (whitespace incl. \\r\\n and bare \\r, line / "
            "block comments, glued tokens, non-ASCII names); 'mini' texts over {a,b,space,\\n,\\r}; 'multi': 2-4 files "
            "importing each other (importURI, also cyclic) with cross-file references, or (mode repo) found through "
            "FQNGlobalRepo / PlainNameGlobalRepo with a file pattern or add_model (string models too), file 0 from a "
            "string or a file, optionally global_repository=True and further string models before / after; 'lang': "
            "grammars repeating the same literals (words, symbols, one-literal match rules) at many places, interior "
            "matches suppressed with '-', autokwd / ignore_case / memoization; each with a random load "
            "configuration: model from string / string with file_name / absolute / relative file, grammar from string / "
            "string with file_name / file, other models loaded with the same meta-model before and after, get_location "
            "also asked from object processors during the load; "
            "non-trivial = >= 3 objects, text starts with whitespace or a comment, some object starts on a line > 1 at a "
            "column > 1, and some object's slice contains a newline or a comment (multi: >= 2 models and a cross-file "
            "reference)")
    MODELLED = ("hand-modelled: Arpeggio Parser.pos_to_linecol incl. bisect_left loop (Obj/LineCol.lean), "
                "NonTerminal.position / position_end and process_node's span assignment (Obj/Build.lean), get_location "
                "(model found with get_model; input and file name per model root); "
                "tie X: pos_to_linecol on sampled positions, get_location and spans of every object of every loaded "
                "model, process_node on the real parse tree, WF predicate on the real parse tree; the Arpeggio "
                "interpreter itself is not modelled here (well-formedness of its trees is checked on every case, not "
                "proved); how textx/lang.py builds parser expressions from the grammar (shared / per-occurrence match "
                "objects, suppress flags) and the model repository of textx/scoping are not modelled (correspondence "
                "and direct oracle only); Python attribute lookup (instance vs class `_tx_filename`) is not modelled: the model reads "
                "the file name of the model root, the grammar's file name does not exist in it")
    ASSUMPTIONS = [
        "'matched' = retained in the parse tree: empty string literals are outside the fragment; suppressed matches "
        "('-') are generated at interior places only (no object starts or ends with one)",
        "lines are separated by \\n (a bare \\r does not start a new line); for files the input is the text as read "
        "by Python (universal newlines)",
        "Arpeggio parse trees have ordered, non-overlapping, non-empty terminals and no empty NonTerminal "
        "(PT.wfB; checked on every generated case)",
        "the model's file name is None for model_from_str(text), the absolute path for model_from_file(path) (also "
        "when a relative path was given) and for model_from_str(text, file_name=path); a name a model repository "
        "invents for a string model is not a file name",
    ]

    # ------------------------------------------------------------------ generation
    def gen(self, rng, n, tier):
        nmini = n // 5
        nmulti = n // 8
        nlang = n // 6
        for k in range(nlang):
            r = rng.fork(f"lang{k}")
            case = gen_lang(r)
            case.update(gen_cfg(r.fork("cfg")))
            yield case
        for k in range(n - nmini - nmulti - nlang):
            r = rng.fork(f"case{k}")
            gram = G.gen_grammar(r, want_user=r.chance(0.5))
            tree = G.derive(r, gram, maxdepth=r.randint(2, 4))
            ntoks = len([1 for x in G.tokens(gram, tree) if x[0] == "tok"])
            case = {"kind": "gen", "gram": gram, "tree": tree, "layout": G.gen_layout(r, gram, ntoks)}
            case.update(gen_cfg(r.fork("cfg")))
            yield case
        for k in range(nmulti):
            yield gen_multi(rng.fork(f"multi{k}"))
        if tier == "thorough":
            # complete: all texts up to length 6 over the alphabet
            alpha = "ab \n\r"
            texts = [""]
            frontier = [""]
            for _ in range(6):
                frontier = [t + c for t in frontier for c in alpha]
                texts += frontier
            for t in texts:
                yield {"kind": "mini", "text": t, "file": False}
            for t in texts[::7]:
                yield {"kind": "mini", "text": t, "file": True}
            for k, t in enumerate(texts[3::11]):  # every load configuration over a slice of them
                yield with_src({"kind": "mini", "text": t, "mm_src": MM_SRCS[k % 3]}, MODEL_SRCS[(k // 3) % 4])
        for k in range(nmini):
            r = rng.fork(f"mini{k}")
            ln = r.randint(0, 24)
            text = "".join(r.weighted([("a", 4), ("b", 2), (" ", 3), ("\n", 3), ("\r", 1), ("\r\n", 1)]) for _ in range(ln))
            case = {"kind": "mini", "text": text}
            case.update(gen_cfg(r.fork("cfg")))
            yield case

    # ------------------------------------------------------------------ implementation
    def impl(self, case):
        use_repo()
        from textx.exceptions import TextXError

        L = G.Loaded()
        L.tmp = L.file = L.gfile = None
        L.others = []
        try:
            try:
                if case["kind"] == "multi":
                    self.load_multi(case, L)
                    return self.observe_multi(case, L)
                self.load_single(case, L)
            except TextXError as e:
                return {"outcome": "error", "type": type(e).__name__, "msg": str(e)[:300], "text": self.case_text(case)}
            except RecursionError:
                return {"outcome": "other", "type": "RecursionError", "msg": ""}
            except Exception as e:
                return {"outcome": "other", "type": type(e).__name__, "msg": str(e)[:300]}
            return self.observe(case, L)
        finally:
            G.cleanup(L)

    def case_text(self, case):
        """the text the parser is expected to see (single-model kinds)"""
        if case["kind"] == "mini":
            return G.universal_newlines(case["text"]) if translated(case) else case["text"]
        if case["kind"] == "gen":
            return G.expected(case["gram"], case["tree"], case["layout"], translate=translated(case))[0]
        if case["kind"] == "lang":
            return lang_expected(case, translate=translated(case))[0]
        return None

    def tmpdir(self, L):
        if L.tmp is None:
            L.tmp = tempfile.mkdtemp(prefix="verif-obj-")
        return L.tmp

    def make_mm(self, case, L, grammar, procs=(), **kw):
        """the meta-model, created the way case['mm_src'] says"""
        import textx
        from textx import metamodel_from_file, metamodel_from_str

        how = case.get("mm_src", "str")
        if how == "str":
            mm = metamodel_from_str(grammar, **kw)
        else:
            L.gfile = os.path.join(self.tmpdir(L), "grammar.tx")
            if how == "named":
                mm = metamodel_from_str(grammar, file_name=L.gfile, **kw)
            else:
                with open(L.gfile, "wb") as f:
                    f.write(grammar.encode("utf-8"))
                mm = metamodel_from_file(L.gfile, **kw)
        L.ploc = {}
        if case.get("proc") and procs:
            def record(obj):
                if not G.is_txobj(obj):
                    return obj
                try:
                    loc = textx.get_location(obj)
                    L.ploc[id(obj)] = [loc.get("line"), loc.get("col"), loc.get("nchar"), loc.get("filename")]
                except Exception as e:
                    L.ploc[id(obj)] = {"exc": type(e).__name__}
                return None

            mm.register_obj_processors({name: record for name in procs})
        return mm

    def load_text(self, L, mm, how, raw, fname):
        """(model, absolute file name or None)"""
        if how == "str":
            return mm.model_from_str(raw), None
        path = os.path.join(self.tmpdir(L), *fname.split("/"))
        os.makedirs(os.path.dirname(path), exist_ok=True)
        with open(path, "wb") as f:  # "named": an editor buffer of an existing file
            f.write(raw.encode("utf-8"))
        if how == "named":
            return mm.model_from_str(raw, file_name=path), path
        if how == "rel":
            return mm.model_from_file(os.path.relpath(path)), path
        return mm.model_from_file(path), path

    def load_single(self, case, L):
        import textx

        if case["kind"] == "mini":
            grammar, kw = MINI_GRAMMAR, {}
            raw = case["text"]
            L.text, L.exp = self.expected_of(case, {"text": self.case_text(case)})
            other = (case.get("hist") or {}).get("text", MINI_OTHER)
            procs = ["Model", "W"]
        elif case["kind"] == "lang":
            grammar, kw = lang_render(case["g"]), lang_opts(case["g"])
            L.text, L.exp = lang_expected(case, translate=translated(case))
            raw = lang_expected(case, translate=False)[0]
            other = lang_expected(dict(case, layout=dict(TRIVIAL_LAYOUT)), translate=False)[0]
            procs = ["Model"] + [f"R{i}" for i in range(len(case["g"]["rules"]))]
        else:
            gram = case["gram"]
            grammar = G.render_grammar(gram)
            kw = dict(gram.get("opts", {}))
            kw["classes"] = [G.make_user_class(r["name"], r["user"]) for r in gram["rules"] if r.get("user")]
            L.text, L.exp = G.expected(gram, case["tree"], case["layout"], translate=translated(case))
            raw = G.expected(gram, case["tree"], case["layout"], translate=False)[0]
            other = G.expected(gram, case["tree"], TRIVIAL_LAYOUT, translate=False)[0]
            procs = [r["name"] for r in case["gram"]["rules"] if r["kind"] == "common"]
        L.grammar = grammar
        L.mm = self.make_mm(case, L, grammar, procs=procs, **kw)
        hist = case.get("hist") or {}
        L.keep = []  # the other models stay alive (no recycled object ids)

        def others(hows):
            for how in hows:
                m, fn = self.load_text(L, L.mm, how, other, f"other{len(L.others)}.txt")
                L.others.append(fn)
                L.keep.append(m)
                try:  # use the other model's parser the way the observation uses the observed one's
                    textx.get_location(m)
                    for o in textx.get_children(lambda x: True, m)[-1:]:
                        textx.get_location(o)
                except Exception:
                    pass

        others(hist.get("pre", []))
        L.model, L.file = self.load_text(L, L.mm, src_of(case), raw, "model.txt")
        others(hist.get("post", []))

    def file_code(self, L, paths=None):
        def code(fn):
            if fn is None:
                return None
            if paths is not None:
                if fn in paths:
                    return f"f{paths.index(fn)}"
            elif fn == L.file:
                return "same"
            if fn == L.gfile:
                return "grammar"
            if fn in L.others:
                return f"other{L.others.index(fn)}"
            return str(fn)
        return code

    def observe_model(self, L, model, real, idx, names, code):
        """spans / locations of the objects `real` of one model, its parser's line / column function, its parse tree"""
        import textx

        objs, heap, plocs = [], [], []
        for ro in real:
            pl = L.ploc.get(id(ro))
            plocs.append(pl[:3] + [code(pl[3])] if isinstance(pl, list) else pl)
            pos, end = getattr(ro, "_tx_position", None), getattr(ro, "_tx_position_end", None)
            try:
                loc = textx.get_location(ro)
                loc = [loc.get("line"), loc.get("col"), loc.get("nchar"), code(loc.get("filename"))]
            except Exception as e:
                loc = {"exc": type(e).__name__}
            objs.append([pos, end, loc])
            attrs = []
            for name, a in type(ro)._tx_attrs.items():
                v = getattr(ro, name, None)
                items = v if isinstance(v, list) else [v]
                ids = [idx.get(id(x), -1) for x in items if G.is_txobj(x)]
                attrs.append([bool(a.cont), ids, name])
            p = getattr(ro, "parent", None)
            heap.append([names.index(type(ro).__name__), None if p is None else idx.get(id(p), -1), attrs, pos, end])
        parser = model._tx_parser
        text = parser.input
        poss = sorted({0, len(text)} | {o[0] for o in objs if isinstance(o[0], int)} |
                      {o[1] for o in objs if isinstance(o[1], int)} |
                      {i for i, c in enumerate(text) if c in "\n\r"} | {i + 1 for i, c in enumerate(text) if c in "\n\r"})
        poss = [p for p in poss if 0 <= p <= len(text)][:400]
        lcs = []
        for p in poss:
            try:
                lcs.append(list(parser.pos_to_linecol(p)))
            except Exception as e:
                lcs.append({"exc": type(e).__name__})
        sub = {"input": text, "objs": objs, "heap": heap, "positions": poss, "linecols": lcs, "plocs": plocs}
        one = G.Loaded()
        one.model, one.mm = model, L.mm
        sub.update(G.dump_ptree(one, names))
        return sub

    def observe(self, case, L):
        real, why = G.match_objects(L)
        if real is None:
            return {"outcome": "shape", "why": why, "text": L.text}
        idx = {id(o): i for i, o in enumerate(real)}
        if case["kind"] == "gen":
            names = sorted(r["name"] for r in case["gram"]["rules"])
        else:
            names = lang_names(case["g"]) if case["kind"] == "lang" else ["Model", "W"]
        sub = self.observe_model(L, L.model, real, idx, names, self.file_code(L))
        text = L.text
        obs = {"outcome": "ok", "text": text, "input_same": sub.pop("input") == text, "names": names,
               "file": L.file is not None}
        obs.update(sub)
        return obs

    # ---- multi
    def load_multi(self, case, L):
        from textx.scoping.providers import PlainNameImportURI

        import textx
        from textx.scoping.providers import FQNGlobalRepo, PlainNameGlobalRepo

        L.grammar = MULTI_GRAMMAR
        repo = case.get("mode") == "repo"
        kw = {"global_repository": True} if case.get("global_repo") else {}
        L.mm = self.make_mm(case, L, MULTI_GRAMMAR, procs=MULTI_NAMES, **kw)
        root = self.tmpdir(L)
        lib = case.get("lib", "pattern")
        if repo:
            cls = FQNGlobalRepo if case.get("provider") == "fqn" else PlainNameGlobalRepo
            if lib == "pattern":
                provider = cls(os.path.join(root, "**", "*.txt"), glob_args={"recursive": True})
            else:
                provider = cls()
            L.mm.register_scope_providers({"*.*": provider})
        else:
            L.mm.register_scope_providers({"*.*": PlainNameImportURI()})
        L.paths = []
        L.libs = {}
        for i, f in enumerate(case["files"]):
            path = os.path.join(root, *f["path"].split("/"))
            os.makedirs(os.path.dirname(path), exist_ok=True)
            if multi_src(case, i) != "str":  # a model given as a string has no file (the pattern must not find one)
                with open(path, "wb") as fh:
                    fh.write(multi_expected(case, i, translate=False)[0].encode("utf-8"))
            L.paths.append(path)
        hist = case.get("hist") or {}
        L.keep = []

        def others(hows):
            for how in hows:  # only "str" in this family: a file would be found by the pattern
                m = L.mm.model_from_str("item zq%d" % len(L.keep))
                L.keep.append(m)
                try:
                    textx.get_location(m.items[0])
                except Exception:
                    pass

        if repo and lib != "pattern":
            for i in range(1, len(case["files"])):
                raw = multi_expected(case, i, translate=False)[0]
                L.libs[i] = self.load_text(L, L.mm, multi_src(case, i), raw, case["files"][i]["path"])[0]
                provider.add_model(L.libs[i])
        others(hist.get("pre", []))
        raw = multi_expected(case, 0, translate=False)[0]
        L.model, L.file = self.load_text(L, L.mm, src_of(case), raw, case["files"][0]["path"])
        others(hist.get("post", []))

    def observe_multi(self, case, L):
        files = case["files"]
        models = [None] * len(files)
        models[0] = L.model
        todo = [0]
        if case.get("mode") == "repo":
            # the models of the repository of file 0 (and the added ones), told apart by the names of their items
            todo = []
            cands = list(L.libs.values())
            try:
                cands += list(L.model._tx_model_repository.all_models.filename_to_model.values())
            except Exception as e:
                return {"outcome": "shape", "why": f"no model repository on file 0 ({type(e).__name__})"}
            for m in cands:
                items = getattr(m, "items", None)
                mt = re.fullmatch(r"n(\d+)x\d+", str(getattr(items[0], "name", ""))) if isinstance(items, list) and items else None
                if mt is None or int(mt.group(1)) >= len(files):
                    continue  # a history model
                i = int(mt.group(1))
                if models[i] is None:
                    models[i] = m
                elif models[i] is not m:
                    return {"outcome": "shape", "why": f"file {i} was loaded as two different models"}
            if any(m is None for m in models):
                return {"outcome": "shape", "why": f"files {[i for i, m in enumerate(models) if m is None]} are not in the repository"}
        while todo:
            i = todo.pop()
            imps = getattr(models[i], "imports", None)
            if not isinstance(imps, list) or len(imps) != len(files[i]["imports"]):
                return {"outcome": "shape", "why": f"file {i}: imports are {imps!r}"}
            for imp, j in zip(imps, files[i]["imports"]):
                lm = getattr(imp, "_tx_loaded_models", None)
                if not isinstance(lm, list) or len(lm) != 1:
                    return {"outcome": "shape", "why": f"file {i}: the import of file {j} loaded {lm!r}"}
                if models[j] is None:
                    models[j] = lm[0]
                    todo.append(j)
                elif models[j] is not lm[0]:
                    return {"outcome": "shape", "why": f"file {j} was loaded as two different models"}
        reals, offs, n = [], [], 0
        for i in range(len(files)):
            one = G.Loaded()
            one.model = models[i]
            text, one.exp = multi_expected(case, i)
            real, why = G.match_objects(one)
            if real is None:
                return {"outcome": "shape", "why": f"file {i}: {why}"}
            reals.append(real)
            offs.append(n)
            n += len(real)
        idx = {id(o): offs[i] + k for i, real in enumerate(reals) for k, o in enumerate(real)}
        code = self.file_code(L, L.paths)
        subs = []
        for i in range(len(files)):
            sub = self.observe_model(L, models[i], reals[i], idx, MULTI_NAMES, code)
            sub["off"] = offs[i]
            # reference targets as (file, object) and the location asked *through* the reference
            refs = []
            for o in reals[i]:
                t = getattr(o, "ref", None)
                if type(o).__name__ == "Item" and t is not None:
                    g = idx.get(id(t), -1)
                    refs.append([idx[id(o)], g])
            sub["refs"] = refs
            subs.append(sub)
        return {"outcome": "ok", "models": subs, "names": MULTI_NAMES, "nobj": n}

    # ------------------------------------------------------------------ model
    @staticmethod
    def heap_ok(heap):
        return not any(p == -1 or any(i == -1 for _, ids, _ in attrs for i in ids) for _, p, attrs, _, _ in heap)

    @staticmethod
    def lean_heap(heap):
        return [[c, p, [[cont, ids] for cont, ids, _ in attrs], pos, end] for c, p, attrs, pos, end in heap]

    def model_req(self, case, obs):
        if obs.get("outcome") != "ok":
            return None
        subs = obs["models"] if case["kind"] == "multi" else [obs]
        for s in subs:
            if any(not isinstance(o[0], int) or not isinstance(o[1], int) for o in s["objs"]) or not self.heap_ok(s["heap"]):
                return None
        if case["kind"] == "multi":
            heap = [h for s in subs for h in self.lean_heap(s["heap"])]
            # file i of the case has the file name i + 1; a model without file name has none
            roots = [[s["off"], s["input"], (i + 1) if multi_src(case, i) != "str" else None]
                     for i, s in enumerate(subs)]
            reqs = [{"op": "locm", "heap": heap, "roots": roots, "xs": list(range(len(heap)))}]
            for s in subs:
                reqs.append({"op": "linecol", "text": s["input"], "pos": s["positions"]})
                if s.get("ptree") is not None:
                    reqs.append({"op": "build", "mm": s["mm"], "tree": s["ptree"]})
                    reqs.append({"op": "wf", "tree": s["ptree"], "len": len(s["input"])})
            return {"op": "multi", "reqs": reqs}
        heap = self.lean_heap(obs["heap"])
        reqs = [{"op": "linecol", "text": obs["text"], "pos": obs["positions"]},
                {"op": "loc", "heap": heap, "text": obs["text"], "file": 1 if obs["file"] else None,
                 "xs": list(range(len(heap)))}]
        if obs.get("ptree") is not None:
            reqs.append({"op": "build", "mm": obs["mm"], "tree": obs["ptree"]})
            reqs.append({"op": "wf", "tree": obs["ptree"], "len": len(obs["text"])})
        return {"op": "multi", "reqs": reqs}

    @staticmethod
    def cmp_linecol(sub, lc, label=""):
        if "lc" not in lc:
            return f"model rejected the request: {lc}"
        for p, want, got in zip(sub["positions"], lc["lc"], sub["linecols"]):
            if want != got:
                return f"{label}pos_to_linecol({p}): implementation {got}, model {want}"
        return None

    @staticmethod
    def cmp_loc(objs, plocs, loc, fmap, first=0, label=""):
        if "loc" not in loc:
            return f"model rejected the request: {loc}"
        for i, o in enumerate(objs):
            for got, when in ((o[2], ""), (plocs[i] if i < len(plocs) else None, " in its object processor")):
                want = loc["loc"][first + i]
                if got is None and when:
                    continue
                if isinstance(got, dict):
                    return f"{label}get_location(object {i}){when} raised {got}"
                g = [got[0], got[1], got[2], fmap(got[3])]
                if want != g:
                    return f"{label}get_location(object {i}){when}: implementation {g}, model {want}"
        return None

    @staticmethod
    def cmp_build(heap, off, b, wf, label=""):
        if "objs" not in b:
            return f"{label}model process_node failed on the real parse tree: {b}"
        if wf.get("wf") is not True:
            return f"{label}the real parse tree is not well-formed (ordered non-empty terminals, no empty NonTerminal): {wf}"
        objs = {o[0]: o for o in b["objs"]}
        if b["root"] not in objs:
            return f"{label}model process_node returned {b['root']} for the root"
        pairs = [(b["root"], off)]
        while pairs:
            lid, gid = pairs.pop()
            lo = objs[lid]
            cls, par, attrs, pos, end = heap[gid - off]
            eid = gid - off
            if [lo[3], lo[4]] != [pos, end]:
                return f"{label}object {eid}: span [{pos}, {end}) in the implementation, [{lo[3]}, {lo[4]}) in the model"
            if len(lo[5]) != len(attrs):
                return f"{label}object {eid}: attribute count differs"
            for (cont, ids, name), (_, lcont, lids) in zip(attrs, lo[5]):
                if not cont:
                    continue
                if len(ids) != len(lids):
                    return f"{label}object {eid}.{name}: {len(ids)} contained objects in the implementation, {len(lids)} in the model"
                pairs.extend(zip(lids, ids))
        return None

    def compare(self, case, obs, out):
        if "outs" not in out:
            return f"model rejected the request: {out}"
        outs = out["outs"]
        if case["kind"] == "multi":
            def fmap(c):
                return int(c[1:]) + 1 if isinstance(c, str) and re.fullmatch(r"f\d+", c) else c
            k = 1
            for i, s in enumerate(obs["models"]):
                label = f"file {i}: "
                d = (self.cmp_loc(s["objs"], s.get("plocs") or [], outs[0], fmap, first=s["off"], label=label)
                     or self.cmp_linecol(s, outs[k], label))
                k += 1
                if d:
                    return d
                if s.get("ptree") is not None:
                    d = self.cmp_build(s["heap"], s["off"], outs[k], outs[k + 1], label)
                    k += 2
                    if d:
                        return d
            return None
        d = self.cmp_linecol(obs, outs[0]) or self.cmp_loc(obs["objs"], obs.get("plocs") or [], outs[1],
                                                           lambda c: 1 if c == "same" else c)
        if d:
            return d
        if len(outs) > 2:
            return self.cmp_build(obs["heap"], 0, outs[2], outs[3])
        return None

    # ------------------------------------------------------------------ oracle
    def expected_of(self, case, obs):
        if case["kind"] == "mini":
            text = obs.get("text")
            runs = [(m.start(), m.end()) for m in re.finditer(r"[ab]+", text)]
            exp = []
            if runs:
                exp.append({"eid": 0, "cls": "Model", "name": None, "span": [runs[0][0], runs[-1][1]], "parent": None,
                            "attrs": [["items", "cont", list(range(1, len(runs) + 1)), True]]})
                exp += [{"eid": i + 1, "cls": "W", "name": None, "span": [s, e], "parent": 0, "attrs": []}
                        for i, (s, e) in enumerate(runs)]
            return text, exp
        if case["kind"] == "lang":
            return lang_expected(case, translate=translated(case))
        return G.expected(case["gram"], case["tree"], case["layout"], translate=translated(case))

    @staticmethod
    def oracle_model(text, exp, objs, want_file, want_name, label="", plocs=()):
        """the statement, for the objects of one model"""
        n = len(text)
        for o, ploc, (pos, end, loc) in zip(exp, plocs, objs):
            if ploc is not None and ploc != loc and isinstance(loc, list):
                # asked while loading (object processor) and asked on the finished model: the same object, the same answer
                return (f"{label}get_location(object {o['eid']}) was {ploc} in its object processor and is {loc} on the "
                        f"finished model")
        for o, (pos, end, loc) in zip(exp, objs):
            i = o["eid"]
            if not isinstance(pos, int) or not isinstance(end, int):
                return f"{label}object {i}: _tx_position/_tx_position_end missing ({pos}, {end})"
            if not (0 <= pos < end <= n):
                return f"{label}object {i}: [{pos}, {end}) is not a non-empty slice of the input (length {n})"
            if [pos, end] != o["span"]:
                return (f"{label}object {i}: slice [{pos}, {end}) = {text[pos:end][:40]!r}, but its first matched character is at "
                        f"{o['span'][0]} and its last one ends at {o['span'][1]} ({text[o['span'][0]:o['span'][1]][:40]!r})")
            if isinstance(loc, dict):
                return f"{label}get_location(object {i}) raised {loc}"
            line, col = linecol(text, pos)
            if loc[0] != line or loc[1] != col:
                return f"{label}get_location(object {i}) = line {loc[0]}, col {loc[1]}; position {pos} is line {line}, col {col}"
            if loc[2] != end - pos:
                return f"{label}get_location(object {i}): nchar {loc[2]}, slice length {end - pos}"
            if loc[3] != want_file:
                return f"{label}get_location(object {i}): filename {loc[3]!r}, expected {want_name}"
        for o in exp:
            for attr, kind, vals, many in o["attrs"]:
                if kind != "cont":
                    continue
                kids = [v for v in vals if v is not None]
                for c in kids:
                    cp, ce, _ = objs[c]
                    pp, pe, _ = objs[o["eid"]]
                    if not (pp <= cp and ce <= pe):
                        return f"{label}object {c} [{cp}, {ce}) is not inside its parent {o['eid']} [{pp}, {pe})"
                for a, b in zip(kids, kids[1:]):
                    if objs[a][1] > objs[b][0]:
                        return f"{label}objects {a} and {b} of list {o['eid']}.{attr} overlap or are out of order"
        return None

    def oracle(self, case, obs):
        oc = obs.get("outcome")
        if case["kind"] == "mini" and not re.search(r"[ab]", case["text"]):
            if oc == "error" or (oc == "other" and src_of(case) == "named" and case["text"] == ""):
                return None  # no object in the text: `items+=W` rejects it (named + empty text: textX reads the file)
        if oc in ("error", "other"):
            return f"loading the derived model failed: {obs.get('type')} {obs.get('msg')}"
        if oc == "shape":
            return f"model does not have the derived shape: {obs['why']}"
        if case["kind"] == "multi":
            return self.oracle_multi(case, obs)
        text, exp = self.expected_of(case, obs)
        if not obs["input_same"] or obs["text"] != text:
            return "the parser input differs from the text given"
        named = src_of(case) != "str"
        return self.oracle_model(text, exp, obs["objs"], "same" if named else None,
                                 "the model file" if named else "None (the model was given as a string)",
                                 plocs=obs.get("plocs") or ())

    def oracle_multi(self, case, obs):
        where = {}
        exps = []
        for i in range(len(case["files"])):
            text, exp = multi_expected(case, i)
            exps.append((text, exp))
            for o in exp:
                if o["cls"] == "Item":
                    where[o["name"]] = (i, o["eid"])
        for i, ((text, exp), s) in enumerate(zip(exps, obs["models"])):
            if s["input"] != text:
                return f"file {i}: the parser input differs from the text of the file"
            if multi_src(case, i) == "str":
                want = (None, "None (the model was given as a string)")
            else:
                want = (f"f{i}", f"file {i} of the case ('f{i}')")
            f = self.oracle_model(text, exp, s["objs"], want[0], want[1], label=f"file {i}: ", plocs=s.get("plocs") or ())
            if f:
                return f
            want = [[s["off"] + o["eid"], obs["models"][where[ref][0]]["off"] + where[ref][1]]
                    for o, (_, ref) in zip(exp[1 + len(case["files"][i]["imports"]):], case["files"][i]["items"]) if ref is not None]
            if s["refs"] != want:
                return f"file {i}: references (global object ids) {s['refs']}, expected {want}"
        return None

    # ------------------------------------------------------------------ bookkeeping
    def nontrivial(self, case, obs):
        if obs.get("outcome") != "ok":
            return False
        if case["kind"] == "multi":
            subs = obs["models"]
            ends = [s["off"] + len(s["objs"]) for s in subs]
            cross = any(not (s["off"] <= t < e) for s, e in zip(subs, ends) for _, t in s["refs"])
            return len(subs) >= 2 and cross
        if len(obs["objs"]) < 3:
            return False
        text = obs["text"]
        if not text or not (text[0].isspace() or text[0] == "/"):
            return False
        deep = any(linecol(text, o[0])[0] > 1 and linecol(text, o[0])[1] > 1 for o in obs["objs"])
        inner = any(("\n" in text[o[0]:o[1]]) or ("/*" in text[o[0]:o[1]]) for o in obs["objs"])
        return deep and inner

    def sample_view(self, case, obs):
        v = {"kind": case["kind"], "outcome": obs.get("outcome"), "src": src_of(case), "mm_src": case.get("mm_src", "str"),
             "hist": case.get("hist")}
        if case["kind"] == "multi":
            v["files"] = [[f["path"], (s.get("input") or "")[:200], (s.get("objs") or [])[:4]]
                          for f, s in zip(case["files"], obs.get("models") or [])]
            return v
        v.update({"text": (obs.get("text") or "")[:400], "objs": (obs.get("objs") or [])[:6]})
        if case["kind"] == "gen":
            v["grammar"] = G.render_grammar(case["gram"])
        if case["kind"] == "lang":
            v["grammar"] = lang_render(case["g"])
            v["opts"] = lang_opts(case["g"])
        return v

    def shrink(self, case):
        # the load configuration first: which ingredient is needed?
        if case.get("hist"):
            yield {k: v for k, v in case.items() if k != "hist"}
            h = case["hist"]
            for side in ("pre", "post"):
                if h.get(side):
                    yield dict(case, hist=dict(h, **{side: h[side][:-1]}))
        if case.get("proc"):
            yield dict(case, proc=False)
        if case.get("mm_src", "str") != "str":
            yield dict(case, mm_src="str")
            if case["mm_src"] == "file":
                yield dict(case, mm_src="named")
        src = src_of(case)
        simpler = {"rel": ["str", "file"], "file": ["str"], "named": ["str", "file"], "str": []}[src]
        for s in simpler:
            if not (case["kind"] == "multi" and s == "str" and case.get("mode") != "repo"):
                yield with_src(case, s)
        if case["kind"] == "mini":
            t = case["text"]
            for i in range(len(t)):
                yield dict(case, text=t[:i] + t[i + 1:])
            return
        if case["kind"] == "multi":
            yield from self.shrink_multi(case)
            return
        if case["kind"] == "lang":
            yield from self.shrink_lang(case)
            return
        lay = case["layout"]
        if lay["seps"] or lay["lead"] is not None or lay["trail"] is not None:
            yield dict(case, layout=dict(TRIVIAL_LAYOUT))
            yield dict(case, layout=dict(lay, seps=[]))
            yield dict(case, layout=dict(lay, lead=None, trail=None))
            half = len(lay["seps"]) // 2
            yield dict(case, layout=dict(lay, seps=lay["seps"][:half]))
        for t in G.shrink_tree(case["gram"], case["tree"]):
            yield dict(case, tree=t)

    def shrink_lang(self, case):
        def cp():
            return G._copy(case)

        g = case["g"]
        for k, v in sorted(g.get("opts", {}).items()):  # which option is needed?
            if v:
                c = cp()
                c["g"]["opts"][k] = False
                yield c
        for k in reversed(range(len(case["cmds"]))):
            if len(case["cmds"]) > 1:
                c = cp()
                del c["cmds"][k]
                yield c

        def paths(node, pre):
            for j, ks in sorted(node["kids"].items()):
                for k, kid in enumerate(ks):
                    yield pre + [(j, k)]
                    yield from paths(kid, pre + [(j, k)])

        for ci, cmd in enumerate(case["cmds"]):
            for path in paths(cmd, []):
                c = cp()
                node = c["cmds"][ci]
                for j, k in path[:-1]:
                    node = node["kids"][j][k]
                j, k = path[-1]
                if g["rules"][node["r"]][int(j)]["op"] == "+" and len(node["kids"][j]) == 1:
                    continue
                del node["kids"][j][k]
                yield c
        lay = case["layout"]
        if lay["seps"] or lay["lead"] is not None or lay["trail"] is not None:
            yield dict(case, layout=dict(TRIVIAL_LAYOUT))
            yield dict(case, layout=dict(lay, seps=[]))
            yield dict(case, layout=dict(lay, lead=None, trail=None))
        for i, r in enumerate(g["rules"]):  # grammar: a suppression, a match-rule indirection
            for j, e in enumerate(r):
                for key in ("sup", "via"):
                    if e["k"] == "lit" and e.get(key):
                        c = cp()
                        c["g"]["rules"][i][j][key] = False
                        yield c

    def shrink_multi(self, case):
        def cp():
            return G._copy(case)

        files = case["files"]
        if case.get("global_repo"):
            yield dict(case, global_repo=False)
        if case.get("mode") == "repo" and case.get("lib", "pattern") != "pattern":
            c = dict(case, lib="pattern")
            if multi_valid(c):
                yield c
        for k in reversed(range(1, len(files))):  # drop a whole file
            c = cp()
            del c["files"][k]
            for f in c["files"]:
                f["imports"] = [j - (j > k) for j in f["imports"] if j != k]
            if multi_valid(c):
                yield c
        for i, f in enumerate(files):
            for k in range(len(f["imports"])):  # an import
                c = cp()
                del c["files"][i]["imports"][k]
                if multi_valid(c):
                    yield c
            for k in range(len(f["items"])):
                if len(f["items"]) > 1:  # an item
                    c = cp()
                    del c["files"][i]["items"][k]
                    if multi_valid(c):
                        yield c
                if f["items"][k][1] is not None:  # a reference
                    c = cp()
                    c["files"][i]["items"][k][1] = None
                    yield c
            lay = f["layout"]
            if lay["seps"] or lay["lead"] is not None or lay["trail"] is not None:
                c = cp()
                c["files"][i]["layout"] = dict(TRIVIAL_LAYOUT)
                yield c
                c = cp()
                c["files"][i]["layout"]["seps"] = []
                yield c
            if "/" in f["path"]:
                c = cp()
                c["files"][i]["path"] = posixpath.basename(f["path"])
                yield c

    def extra_search(self, rng, tier, broken):
        return list(self.gen(rng, 600, "quick"))

    def extra_evidence(self, cases, obs, outs):
        outcomes = {}
        for o in obs:
            k = o.get("outcome", "crash") if isinstance(o, dict) else "crash"
            outcomes[k] = outcomes.get(k, 0) + 1
        ok = [(c, o) for c, o in zip(cases, obs) if isinstance(o, dict) and o.get("outcome") == "ok"]
        subs = [s for c, o in ok for s in (o["models"] if c["kind"] == "multi" else [o])]
        cfg = {}
        for c in cases:
            k = f"grammar:{c.get('mm_src', 'str')} model:{src_of(c)}"
            cfg[k] = cfg.get(k, 0) + 1
        absn = None
        for s in subs:
            if isinstance(s, dict) and s.get("ptree") is not None:
                absn = G.abs_stats(s["ptree"], absn)
        return {"distribution": {"outcomes": outcomes, "objects_total": sum(len(s["objs"]) for s in subs),
                                 "abstract_nodes_with_several_children": absn,
                                 "linecol_positions": sum(len(s["positions"]) for s in subs),
                                 "mini_cases": sum(1 for c in cases if c["kind"] == "mini"),
                                 "multi_cases": sum(1 for c in cases if c["kind"] == "multi"),
                                 "multi_repo_cases": sum(1 for c in cases if c.get("mode") == "repo"),
                                 "multi_repo_main_from_string": sum(1 for c in cases if c.get("mode") == "repo" and src_of(c) == "str"),
                                 "lang_cases": sum(1 for c in cases if c["kind"] == "lang"),
                                 "lang_autokwd": sum(1 for c in cases if c["kind"] == "lang" and c["g"]["opts"].get("autokwd")),
                                 "lang_ignore_case": sum(1 for c in cases if c["kind"] == "lang" and c["g"]["opts"].get("ignore_case")),
                                 "lang_suppressed_literals": sum(1 for c in cases if c["kind"] == "lang" for r in c["g"]["rules"]
                                                                 for e in r if e.get("sup")),
                                 "models_in_multi_cases": sum(len(o["models"]) for c, o in ok if c["kind"] == "multi"),
                                 "cases_from_file": sum(1 for c in cases if translated(c)),
                                 "cases_with_history": sum(1 for c in cases if c.get("hist")),
                                 "locations_seen_by_object_processors": sum(1 for s in subs for p in s.get("plocs") or [] if p),
                                 "load_configurations": cfg,
                                 "cases_with_comments": sum(1 for c in cases if c["kind"] == "gen" and c["gram"].get("comment"))}}
