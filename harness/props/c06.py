"""C06 — object source spans and locations are exact.

Implementation side: the grammar / model family of harness/objgen.py rendered with random
layouts (leading, trailing and interleaved whitespace, `\\r\\n`, line and block comments,
tokens glued together where lexically possible, non-ASCII identifiers), loaded from strings
and from files (universal-newline translation applies), plus a small "mini" family:
every maximal run of letters in a string over {a, b, space, \\n, \\r} is an object.
Observed: `_tx_position`, `_tx_position_end`, `get_location(obj)` of every object,
`parser.pos_to_linecol` on a sample of positions, and the Arpeggio parse tree.

Model side (Drivers/Obj.lean): `posToLineCol`, `getLocation`, `build` (spans assigned by
process_node from the dumped real parse tree) and the well-formedness predicate `PT.wfB`
on the real parse tree (the hypothesis of the span theorems).

Oracle: from the statement — the expected first / last token offsets of every object are
known from the derivation and the layout; line / column are recomputed with str.count /
str.rfind.
"""
import os
import re

from harness.core import Check, use_repo
from harness import objgen as G

MINI_GRAMMAR = "Model: items+=W;\nW: v=/[ab]+/;\n"


def linecol(text, pos):
    return [1 + text.count("\n", 0, pos), pos - (text.rfind("\n", 0, pos) + 1) + 1]


class Prop(Check):
    ID = "C06"
    LEAN_MODULE = "TextxVerif.Props.C06"
    THEOREMS = [
        "Obj.C06_bisect",
        "Obj.C06_linecol",
        "Obj.C06_linecol_inj",
        "Obj.C06_tree_span",
        "Obj.C06_tree_nesting",
        "Obj.C06_tree_siblings",
        "Obj.C06_span",
        "Obj.C06_nesting",
        "Obj.C06_siblings_ordered",
        "Obj.C06_location",
        "Obj.C06_location_nchar",
    ]
    DRIVER = "Drivers/Obj.lean"
    QUICK_CASES = 350
    THOROUGH_CASES = 5000
    PROCS_THOROUGH = 4
    RULE = ("random grammar + derived model rendered with a random layout (whitespace incl. \\r\\n and bare \\r, line / "
            "block comments, glued tokens, non-ASCII names), from string or file; plus 'mini' texts over {a,b,space,\\n,\\r}; "
            "non-trivial = >= 3 objects, text starts with whitespace or a comment, some object starts on a line > 1 at a "
            "column > 1, and some object's slice contains a newline or a comment")
    MODELLED = ("hand-modelled: Arpeggio Parser.pos_to_linecol incl. bisect_left loop (Obj/LineCol.lean), "
                "NonTerminal.position / position_end and process_node's span assignment (Obj/Build.lean), get_location; "
                "tie X: pos_to_linecol on sampled positions, get_location and spans of every object, process_node on the "
                "real parse tree, WF predicate on the real parse tree; the Arpeggio interpreter itself is not modelled "
                "here (well-formedness of its trees is checked on every case, not proved)")
    ASSUMPTIONS = [
        "'matched' = retained in the parse tree: suppressed matches ('-') and empty string literals are outside the fragment",
        "lines are separated by \\n (a bare \\r does not start a new line); for files the input is the text as read "
        "by Python (universal newlines)",
        "Arpeggio parse trees have ordered, non-overlapping, non-empty terminals and no empty NonTerminal "
        "(PT.wfB; checked on every generated case)",
    ]

    # ------------------------------------------------------------------ generation
    def gen(self, rng, n, tier):
        nmini = n // 5
        for k in range(n - nmini):
            r = rng.fork(f"case{k}")
            gram = G.gen_grammar(r, want_user=r.chance(0.5))
            tree = G.derive(r, gram, maxdepth=r.randint(2, 4))
            ntoks = len([1 for x in G.tokens(gram, tree) if x[0] == "tok"])
            yield {"kind": "gen", "gram": gram, "tree": tree, "layout": G.gen_layout(r, gram, ntoks),
                   "file": r.chance(0.3)}
        if tier == "thorough":
            # complete: all texts up to length 6 over the alphabet
            alpha = "ab \n\r"
            texts = [""]
            frontier = [""]
            for _ in range(6):
                frontier = [t + c for t in frontier for c in alpha]
                texts += frontier
            for t in texts:
                yield {"kind": "mini", "text": t, "file": False}
            for t in texts[::7]:
                yield {"kind": "mini", "text": t, "file": True}
        for k in range(nmini):
            r = rng.fork(f"mini{k}")
            ln = r.randint(0, 24)
            text = "".join(r.weighted([("a", 4), ("b", 2), (" ", 3), ("\n", 3), ("\r", 1), ("\r\n", 1)]) for _ in range(ln))
            yield {"kind": "mini", "text": text, "file": r.chance(0.3)}

    # ------------------------------------------------------------------ implementation
    def impl(self, case):
        use_repo()
        from textx.exceptions import TextXError

        L = None
        try:
            try:
                L = self.load_mini(case) if case["kind"] == "mini" else G.load(case)
            except TextXError as e:
                return {"outcome": "error", "type": type(e).__name__, "msg": str(e)[:300],
                        "text": G.universal_newlines(case["text"]) if case.get("file") else case.get("text")}
            except RecursionError:
                return {"outcome": "other", "type": "RecursionError", "msg": ""}
            except Exception as e:
                return {"outcome": "other", "type": type(e).__name__, "msg": str(e)[:300]}
            return self.observe(case, L)
        finally:
            if L is not None:
                G.cleanup(L)

    def load_mini(self, case):
        import tempfile
        from textx import metamodel_from_str

        L = G.Loaded()
        L.tmp = L.file = None
        L.mm = metamodel_from_str(MINI_GRAMMAR)
        raw = case["text"]
        L.text = G.universal_newlines(raw) if case.get("file") else raw
        runs = [(m.start(), m.end()) for m in re.finditer(r"[ab]+", L.text)]
        L.exp = []
        if runs:
            L.exp.append({"eid": 0, "cls": "Model", "name": None, "span": [runs[0][0], runs[-1][1]], "parent": None,
                          "attrs": [["items", "cont", list(range(1, len(runs) + 1)), True]]})
            for i, (s, e) in enumerate(runs):
                L.exp.append({"eid": i + 1, "cls": "W", "name": None, "span": [s, e], "parent": 0, "attrs": []})
        if case.get("file"):
            L.tmp = tempfile.mkdtemp(prefix="verif-obj-")
            L.file = os.path.join(L.tmp, "mini.txt")
            try:
                with open(L.file, "wb") as f:
                    f.write(raw.encode("utf-8"))
                L.model = L.mm.model_from_file(L.file)
            except BaseException:
                G.cleanup(L)
                raise
        else:
            L.model = L.mm.model_from_str(raw)
        return L

    def observe(self, case, L):
        import textx

        real, why = G.match_objects(L)
        if real is None:
            return {"outcome": "shape", "why": why, "text": L.text}
        idx = {id(o): i for i, o in enumerate(real)}
        names = sorted(r["name"] for r in case["gram"]["rules"]) if case["kind"] == "gen" else ["Model", "W"]
        objs, heap = [], []
        for i, ro in enumerate(real):
            pos, end = getattr(ro, "_tx_position", None), getattr(ro, "_tx_position_end", None)
            try:
                loc = textx.get_location(ro)
                fn = loc.get("filename")
                loc = [loc.get("line"), loc.get("col"), loc.get("nchar"),
                       None if fn is None else ("same" if fn == L.file else str(fn))]
            except Exception as e:
                loc = {"exc": type(e).__name__}
            objs.append([pos, end, loc])
            attrs = []
            for name, a in type(ro)._tx_attrs.items():
                v = getattr(ro, name, None)
                items = v if isinstance(v, list) else [v]
                ids = [idx.get(id(x), -1) for x in items if G.is_txobj(x)]
                attrs.append([bool(a.cont), ids, name])
            p = getattr(ro, "parent", None)
            heap.append([names.index(type(ro).__name__), None if p is None else idx.get(id(p), -1), attrs, pos, end])
        parser = L.model._tx_parser
        text = L.text
        poss = sorted({0, len(text)} | {o[0] for o in objs if isinstance(o[0], int)} |
                      {o[1] for o in objs if isinstance(o[1], int)} |
                      {i for i, c in enumerate(text) if c in "\n\r"} | {i + 1 for i, c in enumerate(text) if c in "\n\r"})
        poss = [p for p in poss if 0 <= p <= len(text)][:400]
        lcs = []
        for p in poss:
            try:
                lcs.append(list(parser.pos_to_linecol(p)))
            except Exception as e:
                lcs.append({"exc": type(e).__name__})
        obs = {"outcome": "ok", "text": text, "input_same": parser.input == text, "objs": objs, "heap": heap,
               "positions": poss, "linecols": lcs, "names": names, "file": L.file is not None}
        obs.update(G.dump_ptree(L, names))
        return obs

    # ------------------------------------------------------------------ model
    def model_req(self, case, obs):
        if obs.get("outcome") != "ok":
            return None
        if any(not isinstance(o[0], int) or not isinstance(o[1], int) for o in obs["objs"]):
            return None
        if any(p == -1 or any(i == -1 for _, ids, _ in attrs for i in ids) for _, p, attrs, _, _ in obs["heap"]):
            return None
        heap = [[c, p, [[cont, ids] for cont, ids, _ in attrs], pos, end] for c, p, attrs, pos, end in obs["heap"]]
        reqs = [{"op": "linecol", "text": obs["text"], "pos": obs["positions"]},
                {"op": "loc", "heap": heap, "text": obs["text"], "file": 1 if obs["file"] else None,
                 "xs": list(range(len(heap)))}]
        if obs.get("ptree") is not None:
            reqs.append({"op": "build", "mm": obs["mm"], "tree": obs["ptree"]})
            reqs.append({"op": "wf", "tree": obs["ptree"], "len": len(obs["text"])})
        return {"op": "multi", "reqs": reqs}

    def compare(self, case, obs, out):
        if "outs" not in out:
            return f"model rejected the request: {out}"
        lc, loc = out["outs"][0], out["outs"][1]
        if "lc" not in lc or "loc" not in loc:
            return f"model rejected the request: {lc} {loc}"
        for p, want, got in zip(obs["positions"], lc["lc"], obs["linecols"]):
            if want != got:
                return f"pos_to_linecol({p}): implementation {got}, model {want}"
        for i, (want, o) in enumerate(zip(loc["loc"], obs["objs"])):
            got = o[2]
            if isinstance(got, dict):
                return f"get_location(object {i}) raised {got}"
            g = [got[0], got[1], got[2], None if got[3] is None else (1 if got[3] == "same" else got[3])]
            if want != g:
                return f"get_location(object {i}): implementation {g}, model {want}"
        if len(out["outs"]) > 2:
            b, wf = out["outs"][2], out["outs"][3]
            if "objs" not in b:
                return f"model process_node failed on the real parse tree: {b}"
            if wf.get("wf") is not True:
                return f"the real parse tree is not well-formed (ordered non-empty terminals, no empty NonTerminal): {wf}"
            objs = {o[0]: o for o in b["objs"]}
            if b["root"] not in objs:
                return f"model process_node returned {b['root']} for the root"
            pairs = [(b["root"], 0)]
            while pairs:
                lid, eid = pairs.pop()
                lo = objs[lid]
                cls, par, attrs, pos, end = obs["heap"][eid]
                if [lo[3], lo[4]] != [pos, end]:
                    return f"object {eid}: span [{pos}, {end}) in the implementation, [{lo[3]}, {lo[4]}) in the model"
                if len(lo[5]) != len(attrs):
                    return f"object {eid}: attribute count differs"
                for (cont, ids, name), (_, lcont, lids) in zip(attrs, lo[5]):
                    if not cont:
                        continue
                    if len(ids) != len(lids):
                        return f"object {eid}.{name}: {len(ids)} contained objects in the implementation, {len(lids)} in the model"
                    pairs.extend(zip(lids, ids))
        return None

    # ------------------------------------------------------------------ oracle
    def expected_of(self, case, obs):
        if case["kind"] == "mini":
            text = obs.get("text")
            runs = [(m.start(), m.end()) for m in re.finditer(r"[ab]+", text)]
            exp = []
            if runs:
                exp.append({"eid": 0, "span": [runs[0][0], runs[-1][1]], "parent": None,
                            "attrs": [["items", "cont", list(range(1, len(runs) + 1)), True]]})
                exp += [{"eid": i + 1, "span": [s, e], "parent": 0, "attrs": []} for i, (s, e) in enumerate(runs)]
            return text, exp
        return G.expected(case["gram"], case["tree"], case["layout"], translate=bool(case.get("file")))

    def oracle(self, case, obs):
        oc = obs.get("outcome")
        if case["kind"] == "mini" and oc == "error" and not re.search(r"[ab]", obs.get("text") or ""):
            return None  # no object in the text: `items+=W` rejects it
        if oc in ("error", "other"):
            return f"loading the derived model failed: {obs.get('type')} {obs.get('msg')}"
        if oc == "shape":
            return f"model does not have the derived shape: {obs['why']}"
        text, exp = self.expected_of(case, obs)
        if not obs["input_same"] or obs["text"] != text:
            return "the parser input differs from the text given"
        n = len(text)
        for o, (pos, end, loc) in zip(exp, obs["objs"]):
            i = o["eid"]
            if not isinstance(pos, int) or not isinstance(end, int):
                return f"object {i}: _tx_position/_tx_position_end missing ({pos}, {end})"
            if not (0 <= pos < end <= n):
                return f"object {i}: [{pos}, {end}) is not a non-empty slice of the input (length {n})"
            if [pos, end] != o["span"]:
                return (f"object {i}: slice [{pos}, {end}) = {text[pos:end][:40]!r}, but its first matched character is at "
                        f"{o['span'][0]} and its last one ends at {o['span'][1]} ({text[o['span'][0]:o['span'][1]][:40]!r})")
            if isinstance(loc, dict):
                return f"get_location(object {i}) raised {loc}"
            line, col = linecol(text, pos)
            if loc[0] != line or loc[1] != col:
                return f"get_location(object {i}) = line {loc[0]}, col {loc[1]}; position {pos} is line {line}, col {col}"
            if loc[2] != end - pos:
                return f"get_location(object {i}): nchar {loc[2]}, slice length {end - pos}"
            want_file = "same" if obs["file"] else None
            if loc[3] != want_file:
                return f"get_location(object {i}): filename {loc[3]!r}, expected {'the model file' if obs['file'] else None}"
        for o in exp:
            for attr, kind, vals, many in o["attrs"]:
                if kind != "cont":
                    continue
                kids = [v for v in vals if v is not None]
                for c in kids:
                    cp, ce, _ = obs["objs"][c]
                    pp, pe, _ = obs["objs"][o["eid"]]
                    if not (pp <= cp and ce <= pe):
                        return f"object {c} [{cp}, {ce}) is not inside its parent {o['eid']} [{pp}, {pe})"
                for a, b in zip(kids, kids[1:]):
                    if obs["objs"][a][1] > obs["objs"][b][0]:
                        return f"objects {a} and {b} of list {o['eid']}.{attr} overlap or are out of order"
        return None

    # ------------------------------------------------------------------ bookkeeping
    def nontrivial(self, case, obs):
        if obs.get("outcome") != "ok" or len(obs["objs"]) < 3:
            return False
        text = obs["text"]
        if not text or not (text[0].isspace() or text[0] == "/"):
            return False
        deep = any(linecol(text, o[0])[0] > 1 and linecol(text, o[0])[1] > 1 for o in obs["objs"])
        inner = any(("\n" in text[o[0]:o[1]]) or ("/*" in text[o[0]:o[1]]) for o in obs["objs"])
        return deep and inner

    def sample_view(self, case, obs):
        v = {"kind": case["kind"], "text": (obs.get("text") or "")[:400], "objs": (obs.get("objs") or [])[:6],
             "outcome": obs.get("outcome"), "file": case.get("file")}
        if case["kind"] == "gen":
            v["grammar"] = G.render_grammar(case["gram"])
        return v

    def shrink(self, case):
        if case["kind"] == "mini":
            t = case["text"]
            for i in range(len(t)):
                yield dict(case, text=t[:i] + t[i + 1:])
            return
        if case.get("file"):
            yield dict(case, file=False)
        lay = case["layout"]
        if lay["seps"] or lay["lead"] is not None or lay["trail"] is not None:
            yield dict(case, layout={"lead": None, "trail": None, "seps": []})
            yield dict(case, layout=dict(lay, seps=[]))
            yield dict(case, layout=dict(lay, lead=None, trail=None))
            half = len(lay["seps"]) // 2
            yield dict(case, layout=dict(lay, seps=lay["seps"][:half]))
        for t in G.shrink_tree(case["gram"], case["tree"]):
            yield dict(case, tree=t)

    def extra_search(self, rng, tier, broken):
        return list(self.gen(rng, 600, "quick"))

    def extra_evidence(self, cases, obs, outs):
        outcomes = {}
        for o in obs:
            k = o.get("outcome", "crash") if isinstance(o, dict) else "crash"
            outcomes[k] = outcomes.get(k, 0) + 1
        nobj = sum(len(o["objs"]) for o in obs if isinstance(o, dict) and o.get("outcome") == "ok")
        npos = sum(len(o["positions"]) for o in obs if isinstance(o, dict) and o.get("outcome") == "ok")
        return {"distribution": {"outcomes": outcomes, "objects_total": nobj, "linecol_positions": npos,
                                 "mini_cases": sum(1 for c in cases if c["kind"] == "mini"),
                                 "cases_from_file": sum(1 for c in cases if c.get("file")),
                                 "cases_with_comments": sum(1 for c in cases if c["kind"] == "gen" and c["gram"].get("comment"))}}
