"""C24 — the self-hosted textX grammar (textx/textx.tx) agrees with the grammar compiler (textx/lang.py).

Implementation side, per generated grammar text:
  * compiler:   metamodel_from_str(text) — rejected iff it raises TextXSyntaxError whose cause is Arpeggio's
                NoMatch (DESIGN "Reading": the parse stage; visitor-stage errors are not syntax errors of the
                grammar language); cross-checked with a direct run of the ParserPython parser textX uses;
  * self-hosted: metamodel_for_language('textx').grammar_model_from_str(text) — rejected iff TextXSyntaxError;
                 any other exception means an accepted text cannot be inspected as a model.
Model side: the Lean recogniser `Rec.parse` runs on the three generated graphs (`lang`, `tx`,
`unsep tx unproved`) with the token tables of the text (real `re` / string matching); the driver also evaluates
the lexer hypotheses of theorem C24_agree_partial on those tables.

Configurations and histories: the grammar compiler is reached through metamodel_from_str(text, **options) and keeps
a process-wide parser cache (textx.lang.textX_parsers); the 'textx' language is a registered, cached meta-model.
Neither the options of the language being defined nor earlier uses of textX in the same process may change which
grammar texts are accepted.  `history_cases` runs (history, options, batch of texts) triples in FRESH processes
(harness/c24_worker.py) and applies the same direct oracle per text; a fraction of the in-process cases is
compiled with random options.  The generator also changes the letter case of tokens (the language is case-sensitive).

Tie T: harness/c24_gen.py regenerates lean/TextxVerif/Gen/Grammars.lean from the two live parser models on every
run; Props/C24.lean re-checks `Rec.check` on them in Lean's kernel.
"""
import os

from harness.core import REPO, Check, use_repo
from harness import c24_gen
from harness.txutil import with_timeout

# ---------------------------------------------------------------------------
# generator of grammar texts over the full textX syntax
# ---------------------------------------------------------------------------
IDENTS = ["A", "B", "Model", "Rule1", "x", "name", "items", "_t", "a1", "INT", "ID", "STRING", "BOOL", "FLOAT", "NUMBER",
          "BASETYPE", "INTx", "IDs", "parent", "eolterm", "as", "import", "reference", "1A", "2", "Ünï", "p", "m"]
RREL_IDS = ["a", "b", "parent", "items", "_x", "ref", "p", "m", "x1"]
STRINGS = ["'a'", '"b"', "'kw'", "','", "'a\\'b'", '"x\\"y"', "''", '""', "'//'", "'/*'", "'\\\\'", "'+'", "'['", "']'",
           '"\'"', "'a b'", "'\\n'"]
REGEXES = ["/a/", "/\\d+/", "/a\\/b/", "/[^\\/]*/", "/ /", "/\\\\/", "/x|y/", "/\\w+\\b/", "/(a|b)*/", "/\\s*/", "/#.*$/",
           "/a'b/", "/\"/", "/[a-z]+/"]
PARAM_NAMES = ["skipws", "noskipws", "ws", "split", "myparam", "p1"]
COMMENTS = ["// c\n", "//\n", "/* c */", "/**/", "/* a\n b */", "// 'x' /* \n"]
SEPS = [(" ", 10), ("\n", 3), ("", 4), ("  ", 1), ("\t", 1), ("\n    ", 1)]
OPS = ["=", "*=", "+=", "?="]
JUNK = ["[", "]", "(", ")", "|", ":", ";", ",", ".", "..", "^", "~", "*", "+", "?", "#", "-", "!", "&", "=", "+=", "/",
        "'", '"', "+m:", "+p:", "+pm:", "+mm:", "+x:", "eolterm", "import", "reference", "as", "//", "/*", "*/", "\\",
        "parent", "0", "9a", "a.b", "a.b.c", ".a", "a-b", "é",
        # letter-case variants of the keywords of the textX language (the language is case-sensitive)
        "EOLTERM", "Eolterm", "IMPORT", "Import", "REFERENCE", "Reference", "AS", "As", "PARENT", "Parent", "+M:", "+P:",
        "+Pm:", "+mP:"]

# The keywords of the textX language, each in a context where it is required / allowed; `{}` is replaced by the
# keyword in several letter cases (probe texts for the configurations / histories below and for the crafted list).
KEYWORD_CONTEXTS = [
    ("eolterm", "A: x+=ID[{}];"), ("eolterm", "A: 'a'*[',' {}];"), ("import", "{} base A: 'a';"),
    ("reference", "{} lang as l A: 'a';"), ("as", "reference lang {} l A: 'a';"), ("parent", "A: b=[B|ID|{}(A).b];"),
    ("+m:", "A: b=[B|ID|{}x];"), ("+p:", "A: b=[B|ID|{}x];"), ("+mp:", "A: b=[B:ID|{}x.y];"),
    ("ID", "A: x={};"), ("INT", "A: x+={}[','];"), ("STRING", "A: {};"),
]


def case_variants(kw):
    out = []
    for v in (kw, kw.upper(), kw.lower(), kw.title(), kw[:-2] + kw[-2:].swapcase()):
        if v not in out:
            out.append(v)
    return out


KEYWORD_PROBES = [ctx.format(v) for kw, ctx in KEYWORD_CONTEXTS for v in case_variants(kw)]
# texts that depend on the whitespace / keyword-boundary settings of the parser that reads the grammar
LAYOUT_PROBES = [
    "A:\n\t'a'\r\n;\n", "A :\t'a' ;", "importbase A:'a';", "referencel asx A:'a';", "A:x+=ID[eolterm','];",
    "A:x+=ID[','eolterm];", "A:b=[B|ID|parent(A).b];", "A: b=[B|ID|parentx];", "A: b=[B|ID| +m: x];", "A:'a'\x0c;",
    "A: 'a' ;\x0b", "A:\xa0'a';", "import\tbase\nA\n:\n'a'\n;", "A: x=INTx y=IDs;", "A: /a/ //c\n/b/;",
]

# Meta-model options (TextXMetaModel keyword arguments).  None of them may influence which grammar texts the
# grammar compiler parses: they configure the language being defined, not the textX language itself.
MM_OPTIONS = [
    ("ignore_case", [True]), ("skipws", [False]), ("ws", ["\t", " ", "\n\r\t .;:"]), ("autokwd", [True]),
    ("memoization", [True]), ("use_regexp_group", [True]), ("auto_init_attributes", [False]),
    ("textx_tools_support", [True]), ("debug", [True]),
]
# earlier, unrelated uses of textX in the same process (histories): (grammar, model or None)
HISTORY_GRAMMARS = [
    ("Program: 'begin' commands*=Command 'end'; Command: 'print' what=STRING;", 'begin print "x" end'),
    ("Model: items+=Item[',']; Item: name=ID ('=' v=INT)?;", "a=1, b"),
    ("M: 'x';", None),
    ("Model: refs+=[Model|ID|+m:^refs];", None),
    ("A: 'unclosed", None),       # a syntax error is part of a realistic history
    ("A: x=Unknown;", None),      # so is a semantic error
    ("import nowhere A: 'a';", None),
]
HISTORY_TEXTX = ["A: 'a';", "A: b=[B|ID|parent(A).b];", "A: 'a'*[eolterm", ""]


class TextGen:
    def __init__(self, rng, size):
        self.r = rng
        self.size = size  # budget of tokens

    def ident(self):
        return self.r.choice(IDENTS)

    def simple_match(self):
        return [self.r.choice(STRINGS)] if self.r.chance(0.65) else [self.r.choice(REGEXES)]

    def mods(self):
        out = ["["]
        for _ in range(self.r.weighted([(1, 6), (2, 3), (3, 1)])):
            out += ["eolterm"] if self.r.chance(0.35) else self.simple_match()
        return out + ["]"]

    def rrel_elem(self, depth):
        k = self.r.weighted([("nav", 6), ("nc", 3), ("fixed", 2), ("parent", 2), ("br", 1 if depth < 2 else 0)])
        if k == "nav":
            return [self.r.choice(RREL_IDS)]
        if k == "nc":
            return ["~", self.r.choice(RREL_IDS)]
        if k == "fixed":
            return [self.r.choice(STRINGS), "~", self.r.choice(RREL_IDS)]
        if k == "parent":
            return ["parent", "(", self.r.choice(RREL_IDS + ["Model", "A"]), ")"]
        return ["("] + self.rrel_seq(depth + 1) + [")"]

    def rrel_path(self, depth):
        out = []
        lead = self.r.weighted([("", 6), ("^", 2), (".", 1), ("..", 1), ("...", 1)])
        if lead:
            out.append(lead)
            if self.r.chance(0.25):
                return out
        for i in range(self.r.weighted([(1, 5), (2, 4), (3, 2), (4, 1)])):
            if i:
                out.append(".")
            out += self.rrel_elem(depth)
            if self.r.chance(0.25):
                out.append("*")
        return out

    def rrel_seq(self, depth):
        out = self.rrel_path(depth)
        for _ in range(self.r.weighted([(0, 6), (1, 3), (2, 1)])):
            out += [","] + self.rrel_path(depth)
        return out

    def rrel(self):
        out = []
        if self.r.chance(0.4):
            out.append(self.r.choice(["+m:", "+p:", "+pm:", "+mp:", "+mm:", "+pp:", "+mpm:"]))
        return out + self.rrel_seq(0)

    def obj_ref(self):
        out = ["[", self.r.choice(["A", "B", "Model", "a.B", "x.y", "1A", "INT"])]
        if self.r.chance(0.6):
            out += [self.r.choice([":", ":", "|"]), self.ident()]
            if self.r.chance(0.6):
                out += ["|"] + self.rrel()
        return out + ["]"]

    def assignment(self):
        out = [self.ident(), self.r.choice(OPS)]
        k = self.r.weighted([("m", 4), ("r", 4), ("o", 4)])
        out += self.simple_match() if k == "m" else [self.ident()] if k == "r" else self.obj_ref()
        if self.r.chance(0.25):
            out += self.mods()
        return out

    def expr(self, depth):
        self.size -= 1
        if self.r.chance(0.35):
            return self.assignment()
        out = [self.r.choice(["!", "&"])] if self.r.chance(0.12) else []
        k = self.r.weighted([("m", 5), ("r", 4), ("b", 2 if depth < 3 and self.size > 0 else 0)])
        if k == "m":
            return out + self.simple_match()
        if k == "r":
            return out + [self.ident()]
        return out + ["("] + self.body(depth + 1) + [")"]

    def rexpr(self, depth):
        out = self.expr(depth)
        if self.r.chance(0.3):
            out.append(self.r.choice(["*", "?", "+", "#"]))
            if self.r.chance(0.35):
                out += self.mods()
        if self.r.chance(0.1):
            out.append("-")
        return out

    def seq(self, depth):
        out = []
        for _ in range(self.r.weighted([(1, 4), (2, 4), (3, 2), (4, 1)])):
            out += self.rexpr(depth)
            if self.size <= 0:
                break
        return out

    def body(self, depth):
        out = self.seq(depth)
        for _ in range(self.r.weighted([(0, 6), (1, 3), (2, 1)])):
            if self.size <= 0:
                break
            out += ["|"] + self.seq(depth)
        return out

    def rule(self):
        out = [self.ident()]
        if self.r.chance(0.25):
            out.append("[")
            for i in range(self.r.weighted([(1, 5), (2, 3), (3, 1)])):
                if i:
                    out.append(",")
                out.append(self.r.choice(PARAM_NAMES))
                if self.r.chance(0.4):
                    out += ["=", self.r.choice(STRINGS)]
            out.append("]")
        return out + [":"] + self.body(0) + [";"]

    def grammar(self):
        out = []
        for _ in range(self.r.weighted([(0, 6), (1, 2), (2, 1)])):
            if self.r.chance(0.5):
                out += ["import", self.r.choice(["base", "a.b", "pkg.sub.g", "1x", "x-y"])]
            else:
                out += ["reference", self.r.choice(["lang", "some-lang", "l_1", "a.b"])]
                if self.r.chance(0.5):
                    out += ["as", self.r.choice(["l", "o1", "1x", "ID"])]
        for _ in range(self.r.weighted([(1, 5), (2, 4), (3, 2)])):
            out += self.rule()
            if self.size <= 0:
                break
        return out


def render(rng, toks):
    out = []
    for i, t in enumerate(toks):
        if i:
            out.append(rng.weighted(SEPS))
            if rng.chance(0.04):
                out.append(rng.choice(COMMENTS))
        out.append(t)
    if rng.chance(0.5):
        out.append(rng.choice(["\n", " ", " // end\n", "/* e */", " //e"]))
    return "".join(out)


def mutate(rng, toks):
    toks = list(toks)
    for _ in range(rng.weighted([(1, 6), (2, 3), (3, 1)])):
        if not toks:
            break
        k = rng.weighted([("drop", 4), ("dup", 2), ("swap", 2), ("ins", 4), ("rep", 3), ("trunc", 1), ("case", 3)])
        i = rng.below(len(toks))
        if k == "drop":
            del toks[i]
        elif k == "dup":
            toks.insert(i, toks[i])
        elif k == "swap" and i + 1 < len(toks):
            toks[i], toks[i + 1] = toks[i + 1], toks[i]
        elif k == "ins":
            toks.insert(i, rng.choice(JUNK + IDENTS[:6] + STRINGS[:4] + REGEXES[:3]))
        elif k == "rep":
            toks[i] = rng.choice(JUNK + IDENTS[:6] + STRINGS[:4] + REGEXES[:3])
        elif k == "trunc":
            del toks[i:]
        elif k == "case":
            # the textX language is case-sensitive: change the letter case of a token that has letters
            # (prefer keyword-like tokens, they are the ones whose case matters)
            cand = [j for j, t in enumerate(toks) if t.lower() in CASE_TOKENS] or \
                   [j for j, t in enumerate(toks) if t.lower() != t.upper()]
            if cand:
                j = rng.choice(cand)
                t = toks[j]
                toks[j] = rng.choice([t.upper(), t.lower(), t.title(), t.swapcase(), t[:1] + t[1:].swapcase()])
    return toks


CASE_TOKENS = {"eolterm", "import", "reference", "as", "parent", "+m:", "+p:", "+pm:", "+mp:", "+mm:", "+pp:", "+mpm:"}


def random_options(rng, allow_debug=False, p=0.25):
    """a random meta-model configuration (each option with probability p)"""
    out = {}
    for name, vals in MM_OPTIONS:
        if name == "debug" and not allow_debug:
            continue
        if rng.chance(p):
            out[name] = rng.choice(vals)
    return out


def random_history(rng, first_opts=None):
    """a sequence of earlier uses of textX; `first_opts` (if given) configures the first compilation"""
    steps = []
    for i in range(rng.weighted([(1, 5), (2, 3), (3, 2)]) if first_opts is not None else rng.weighted([(0, 2), (1, 4), (2, 3), (3, 1)])):
        if i == 0 and first_opts is not None:
            g, m = rng.choice(HISTORY_GRAMMARS[:4])
            steps.append({"do": "compile", "grammar": g, "opts": dict(first_opts), "model": m})
        elif rng.chance(0.3):
            steps.append({"do": "textx", "text": rng.choice(HISTORY_TEXTX)})
        else:
            g, m = rng.choice(HISTORY_GRAMMARS)
            o = random_options(rng, p=0.2)
            if m is not None and (o.get("skipws") is False or "ws" in o):
                m = None  # the example model is written for the default whitespace handling
            steps.append({"do": "compile", "grammar": g, "opts": o, "model": m})
    return steps


def history_cases(rng, tier):
    """configurations x histories, each run in a fresh process (harness/c24_worker.py).

    For a set of meta-model options o: (a) o configures the FIRST compilation of the process and the checked texts
    are compiled with default options afterwards (state kept between compilations), (b) no history, the checked
    texts themselves are compiled with o (option reaching the parser of the textX language).  Quick: o = all
    options at once, a random half, a random set + debug; thorough: additionally one option at a time.  Then random
    combinations of options and histories (incl. failed compilations and uses of the 'textx' language)."""
    def texts(r, k, small=False):
        probes = KEYWORD_PROBES + LAYOUT_PROBES
        if small:
            probes = r.sample(probes, 20)
        out = list(probes)
        for i in range(k):
            rr = r.fork(i)
            g = TextGen(rr, rr.weighted([(4, 3), (8, 4), (14, 2)]))
            toks = g.grammar()
            if rr.chance(0.5):
                toks = mutate(rr, toks)
            out.append(render(rr, toks))
        return out

    k = 10 if tier == "quick" else 40
    quick = tier == "quick"

    def pair(r, o, label, small):
        # (the debug variant of the compiler is a separate parser: it is reached only by debug compilations)
        yield {"kind": "history", "history": random_history(r, first_opts=o), "opts": {"debug": True} if o.get("debug") else {},
               "texts": texts(r.fork("a"), 0 if small else k, small), "origin": f"history:first-compilation-with-{label}"}
        yield {"kind": "history", "history": [], "opts": o,
               "texts": texts(r.fork("b"), 0 if small else k, small), "origin": f"history:texts-compiled-with-{label}"}

    # all options at once (any option that reaches the parser of the textX language shows; the shrinker isolates it)
    r = rng.fork("all")
    yield from pair(r, {name: r.choice(vals) for name, vals in MM_OPTIONS if name != "debug"}, "all-options", False)
    r = rng.fork("half")
    yield from pair(r, random_options(r, p=0.5), "half-of-the-options", quick)
    # the debug variant of the grammar compiler is a separate (cached) parser; it traces every step: small batches
    r = rng.fork("debug")
    yield from pair(r, dict(random_options(r, p=0.5), debug=True), "debug", True)
    if not quick:  # one factor at a time
        for name, vals in MM_OPTIONS:
            r = rng.fork("opt:" + name)
            yield from pair(r, {name: r.choice(vals)}, name, name == "debug")
    for i in range(3 if quick else 24):
        r = rng.fork(f"rnd:{i}")
        first = random_options(r, p=0.35) if r.chance(0.6) else None
        yield {"kind": "history", "history": random_history(r, first_opts=first), "opts": random_options(r, p=0.3),
               "texts": texts(r.fork("t"), k, quick), "origin": "history:random"}


# near-miss texts around the constructs where the two grammars were (or could be) different
CRAFTED = [
    "", " ", "// only a comment\n", "A: 'a';", "1A: 'a';", "A: b=[B:ID];", "A: b=[B|ID];", "A: b=[B:1x];",
    "A: 'a'*[',' eolterm];", "A: 'a'*[eolterm ','];", "A: 'a'*[eolterm eolterm];", "A: 'a'*[];", "A: x+=INT[',' /;/ eolterm];",
    "A: b=[B:ID|+p:x];", "A: b=[B:ID|+pm:x];", "A: b=[B:ID|+mm:x];", "A: b=[B:ID|+:x];", "A: b=[B:ID|+m: x];", "A: b=[B:ID|+m:+p:x];",
    "A: b=[B:ID|'x'~a];", "A: b=[B:ID|'x' ~ a.~b];", "A: b=[B:ID|'x'a];", "A: b=[B:ID|~'x'~a];", "A: b=[B:ID|\"x\"~a*];",
    "A: a+=INTx[','];", "A: a=IDs b=INT;", "A: INTx;", "A: BASETYPEs*;",
    "A: /a//b/;", "A: /a/* 'x'*/b/;", "A: /  //x/;\n", "A: / /;", "A: /a/ /* c */ /b/;", "A: x=/a/#[/b/];",
    "A: b=[B:ID|a.];", "A: b=[B:ID|a.b.];", "A: b=[B:ID|a,];", "A: b=[B:ID|a..b];", "A: b=[B:ID|..a.b*,^c];", "A: b=[B:ID|^];",
    "A: b=[B:ID|(a,b.)];", "A: b=[B:ID|(a,).c];", "A: b=[B:ID|parent(A).b];", "A: b=[B:ID|parentx];", "A: b=[B:ID|.];", "A: b=[B:ID|];",
    "A: b=[B:ID|a.*];", "A: b=[B:ID|a**];", "A: b=[B:ID|~];", "A: b=[B:ID|...~a];",
    "reference l as 1x A: 'a';", "reference l as A: 'a';", "import 1x A: 'a';", "import a.b.c; A: 'a';", "reference a-b as c A:'a';",
    "A[1p]: 'a';", "A[skipws,]: 'a';", "A[ws='\\t']: 'a';", "A[]: 'a';", "A[skipws noskipws]: 'a';",
    "A: 'a' ;;", "A: ;", "A: 'a'", "A 'a';", "A: ('a' | );", "A: !'a' &B -;", "A: 'a'?[','];", "A: 'a'#[','] 'b'-*;", "A: 'a'*-;",
    "A: x?=INT[','];", "A: x = y = 'a';", "A: x=('a');", "A: x=[A];", "A: x=[A.B.C];", "A: x+=[A:ID|a][','];", "A: 'unclosed;",
    "A: /unclosed;", "A: 'a'; /* unclosed", "A: 'a'; // trailing", "A: 'a';\n/**/B: A;", "A:'a';B:A;C:B|A;",
] + [ctx.format(kw.upper()) for kw, ctx in KEYWORD_CONTEXTS] + LAYOUT_PROBES


# ---------------------------------------------------------------------------
_CACHE = {}


def parsers():
    if "p" not in _CACHE:
        use_repo()
        _CACHE["p"] = c24_gen.real_parsers()
        from textx import metamodel_for_language

        _CACHE["mm"] = metamodel_for_language("textx")
        toks = c24_gen.TokenTable()
        c24_gen.dump(_CACHE["p"][0], toks)
        c24_gen.dump(_CACHE["p"][1], toks)
        _CACHE["toks"] = toks
    return _CACHE["p"][0], _CACHE["p"][1], _CACHE["mm"], _CACHE["toks"]


def token_rows(toks, text):
    """sparse token tables: rows[t] = [[pos, len], …] for the positions where token t matches"""
    rows, n = [], len(text)
    for e in toks.objs:
        row = []
        if type(e).__name__ == "StrMatch":
            tm = e.to_match
            low = tm.lower()
            for p in range(n + 1):
                seg = text[p:p + len(tm)]
                if seg == tm or (e.ignore_case and seg.lower() == low):
                    row.append([p, len(tm)])
        else:
            for p in range(n + 1):
                m = e.regex.match(text, p)
                if m:
                    row.append([p, len(m.group())])
        rows.append(row)
    return rows


def lex_hypotheses(toks, alts_limit=6):
    """exhaustive check, on short strings, of the token-level hypotheses the translator emitted"""
    import itertools

    info = _CACHE.get("info") or c24_gen.build()
    _CACHE["info"] = info
    bad, n = [], 0
    alphabets = {"quote": "ab'\"\\ ", "word": "IDNTx1_ ", "flag": "+mp:x"}
    for t, ts in info["alts"]:
        pats = [toks.objs[i] for i in [t] + ts]
        src = toks.objs[t].to_match
        alpha = alphabets["quote"] if "'" in src else alphabets["flag"] if "+" in src else alphabets["word"]
        for L in range(0, alts_limit + 1):
            for tup in itertools.product(alpha, repeat=L):
                s = "".join(tup)
                n += 1
                m0 = pats[0].regex.match(s)
                first = None
                for e in pats[1:]:
                    m = e.regex.match(s)
                    if m:
                        first = len(m.group())
                        break
                got = len(m0.group()) if m0 else None
                if got != first:
                    bad.append([src, s, got, first])
    for t in info["nonempty"]:
        e = toks.objs[t]
        for s in ["", " ", "a", "\n"]:
            n += 1
            m = e.regex.match(s)
            if m and len(m.group()) == 0:
                bad.append([e.to_match, s, 0, "nonempty"])
    return {"checked": n, "violations": bad[:5]}


class Prop(Check):
    ID = "C24"
    LEAN_MODULE = "TextxVerif.Props.C24"
    THEOREMS = ["Rec.C24_bisim_sound", "Rec.C24_accept_iff", "Rec.C24_not_both", "Rec.C24_tables", "Rec.C24_check",
                "Rec.C24_agree_partial", "Rec.C24_sep_forms_differ",
                "Rec.C24_bisim_sound_sep", "Rec.C24_accept_iff_sep", "Rec.C24_check_tx", "Rec.C24_unsep_agree",
                "Rec.C24_agree_tx_partial", "Rec.C24_notrail_scan", "Rec.C24_notrail_table", "Rec.C24_lexok_table",
                "Rec.C24_notrail_needed", "Rec.C24_accepts_example", "Rec.C24_trailing_example",
                "Rec.C24_check_trap", "Rec.C24_agree_tx_run_partial", "Rec.C24_cleanrun_example",
                "Rec.C24_unvisited_example", "Rec.C24_trailing_trap_example", "Rec.C24_never_bad"]
    DRIVER = "Drivers/Rec.lean"
    QUICK_CASES = 200
    THOROUGH_CASES = 6000
    CASE_TIMEOUT = 30
    RULE = ("grammar texts over the full textX syntax (imports, references with alias, rule parameters, sequences, choices, "
            "all repeat operators with modifiers, predicates, suppression, the four assignment operators, match / rule / "
            "link references with match rule and RREL incl. flags, fixed names, parent(), brackets, dots, comments) rendered "
            "with random whitespace / glued tokens / comments; ~45% token-level mutations (incl. letter-case changes of "
            "keywords); 30% of the texts compiled with random meta-model options; (history, options, texts) triples in "
            "fresh processes: first compilation of the process / the checked texts configured with all, half, one "
            "(thorough) of the meta-model options incl. debug, random histories of compilations, failed compilations and "
            "uses of the 'textx' language, keyword-case and layout probe texts; crafted near-miss texts and the "
            "repo's own .tx files; each text parsed by both real parsers and by the Lean recogniser on both generated "
            "graphs; non-trivial = accepted, or rejected with the furthest failure at position >= 4")
    MODELLED = ("regenerated every run (T): both Arpeggio parser models (lang.py via ParserPython, compiled textx.tx), common "
                "token table (regex identity by Python's parsed regex AST), shape tables, candidate relation, lexer hypotheses "
                "-> Gen/Grammars.lean, checked by Rec.check in Lean's kernel; hand-modelled: Rec.parse = acceptance abstraction "
                "of Arpeggio's interpreter for models without ws/skipws overrides, eolterm, unordered groups, memoization "
                "(comment-position cache and furthest-failure record left out); tie X: accept/reject of Rec.parse on both "
                "graphs vs the real parsers; tx vs `unsep tx unproved` (RRELSequence / RRELPath `+=[sep]` against rrel.py's "
                "`(x sep)* x`): proved for every input whose run meets no trailing RREL separator (C24_agree_tx_run_partial, "
                "hypothesis CleanRun evaluated by the driver on the instrumented graph `trap tx unproved`), correspondence "
                "only for the others (`txo_vs_tx_agree`, `cleanrun_false_all_rejected` in the evidence)")
    ASSUMPTIONS = [
        "lexer hypotheses of C24_agree_partial (regexes marked non-empty never match empty; STRING = first of the two "
        "quoted-string regexes; \\w+ absorbs the builtin-name regex; \\+[mp]+: = first of multi/proxy flag regexes): facts "
        "about Python's re, checked on the token tables of every case by the Lean driver and exhaustively on short strings",
        "token identity = equal literal / equal parsed regex AST and flags (re._parser)",
        "unproved pairs: the two RREL separator repetitions (tx nodes listed in Gen.Grammars.unproved) - agreement with the "
        "(x sep)* x formulation is proved under CleanRun (the run meets no trailing separator; all accepted texts) or "
        "NoTrailingSep (all positions); for texts with a trailing RREL separator it is covered by correspondence on every case",
        "compiler side = parse stage: TextXSyntaxError caused by NoMatch (DESIGN Reading)",
        "configurations / histories are observed on the implementation only (fresh-process worker + direct oracle); the "
        "Lean recogniser is a function of the text and the regenerated graphs (token identity includes ignore_case and "
        "the regex flags), so a history-dependent acceptance shows as an oracle failure, not as a model disagreement",
    ]

    def TRANSLATE(self):
        info = c24_gen.translate()
        _CACHE["info"] = info

    # -- cases ---------------------------------------------------------------
    def gen(self, rng, n, tier):
        yield {"kind": "lexhyp"}
        for i, t in enumerate(CRAFTED):
            yield {"text": t, "origin": f"crafted:{i}"}
        files = self.repo_files()
        pick = files if tier != "quick" else rng.fork("files").sample(files, 6)
        for fn in pick:
            try:
                txt = open(fn, encoding="utf-8").read()
            except Exception:
                continue
            if len(txt) <= (20000 if tier != "quick" else 1500):
                yield {"text": txt, "origin": "repo:" + os.path.relpath(fn, REPO)}
        for i in range(n):
            r = rng.fork(i)
            g = TextGen(r, r.weighted([(4, 3), (8, 4), (14, 2), (25, 1)]))
            toks = g.grammar()
            kind = "valid"
            if r.chance(0.45):
                toks = mutate(r, toks)
                kind = "mutated"
            case = {"text": render(r, toks), "toks": toks, "origin": kind}
            if r.chance(0.3):
                # the compiling meta-model's configuration must not matter (in-process; fresh processes below)
                case["copts"] = random_options(r.fork("copts"), p=0.3)
            yield case
        yield from history_cases(rng.fork("histories"), tier)

    def repo_files(self):
        out = []
        for root in ("tests", "examples", "textx"):
            for d, _, fs in os.walk(os.path.join(REPO, root)):
                for f in sorted(fs):
                    if f.endswith(".tx"):
                        out.append(os.path.join(d, f))
        return sorted(out)

    # -- implementation --------------------------------------------------------
    def impl(self, case):
        lp, tp, mm, toks = parsers()
        if case.get("kind") == "lexhyp":
            return {"lexhyp": lex_hypotheses(toks, 6)}
        from arpeggio import NoMatch
        from textx import metamodel_from_str
        from textx.exceptions import TextXSyntaxError

        if case.get("kind") == "history":
            return self.impl_history(case)
        text = case["text"]
        copts = case.get("copts") or {}

        def compiler():
            try:
                metamodel_from_str(text, **copts)
                return {"acc": True, "stage": "ok"}
            except TextXSyntaxError as e:
                if isinstance(e.__cause__, NoMatch):
                    return {"acc": False, "line": e.line, "col": e.col}
                return {"acc": True, "stage": "TextXSyntaxError(visitor)"}
            except RecursionError:
                return {"acc": True, "stage": "RecursionError"}
            except Exception as e:
                return {"acc": True, "stage": type(e).__name__}

        def direct():
            try:
                lp.parse(text)
                return {"acc": True}
            except NoMatch as e:
                return {"acc": False, "pos": e.position}
            except RecursionError:
                return {"acc": None, "other": "RecursionError"}

        def selfhosted():
            try:
                mm.grammar_model_from_str(text)
                return {"acc": True}
            except TextXSyntaxError as e:
                return {"acc": False, "line": e.line, "col": e.col, "nomatch": isinstance(e.__cause__, NoMatch)}
            except RecursionError:
                return {"acc": None, "other": "RecursionError"}
            except Exception as e:
                return {"acc": None, "other": type(e).__name__, "msg": str(e)[:200]}

        # hang detection, not a performance requirement: on an overloaded machine the limit grows with the load
        # (beyond CASE_TIMEOUT the runner's own alarm fires and the case is retried alone with a 6x limit)
        try:
            lim = 10 * max(1.0, min(6.0, os.getloadavg()[0] / (os.cpu_count() or 1)))
        except OSError:
            lim = 10
        obs = {"compiler": with_timeout(compiler, lim), "direct": with_timeout(direct, lim),
               "tx": with_timeout(selfhosted, lim), "len": len(text)}
        obs["rows"] = token_rows(toks, text)
        return obs

    def impl_history(self, case):
        """history + configuration + texts in a fresh Python process"""
        import json
        import subprocess
        import sys

        req = {"repo": REPO, "history": case.get("history", []), "opts": case.get("opts", {}), "texts": case["texts"]}
        worker = os.path.join(os.path.dirname(os.path.dirname(os.path.abspath(__file__))), "c24_worker.py")
        env = dict(os.environ, PYTHONHASHSEED="0", PYTHONDONTWRITEBYTECODE="1")
        # no timeout of its own: the runner's per-case alarm interrupts (subprocess.run then kills the child) and
        # the runner retries a timed-out case alone with a 6x limit
        p = subprocess.run([sys.executable, worker], input=json.dumps(req), capture_output=True, text=True, env=env)
        if p.returncode != 0 or not p.stdout.strip():
            return {"hist": True, "worker_error": f"exit {p.returncode}: {(p.stderr or '')[-400:]}"}
        out = json.loads(p.stdout)
        return {"hist": True, "steps": out["history"], "results": out["results"]}

    # -- model -----------------------------------------------------------------
    def model_req(self, case, obs):
        if "hist" in obs:
            return None  # the Lean recogniser has no history / configuration: acceptance is a function of the text
        if "lexhyp" in obs:
            return {"op": "info"}
        return {"op": "accept", "input": case["text"], "toks": obs["rows"], "fuel": 3000 + 80 * len(case["text"])}

    @staticmethod
    def _acc(o):
        return o.get("acc") if isinstance(o, dict) else None

    def compare(self, case, obs, out):
        if "lexhyp" in obs:
            if obs["lexhyp"]["violations"]:
                return f"lexer hypothesis of C24_agree_partial is false: {obs['lexhyp']['violations'][:2]}"
            info = _CACHE.get("info")
            if info is not None and (sorted(out.get("unproved", [])) != sorted(info["unproved"])):
                return "driver and translator disagree about the generated tables"
            return None
        if "err" in out:
            return f"model: {out}"
        want = {True: "ok", False: "fail"}
        d, t = self._acc(obs["direct"]), self._acc(obs["tx"])
        if d is not None and out["lang"] != want[d]:
            return f"lang.py parser {'accepts' if d else 'rejects'} but the recogniser on the generated lang graph says {out['lang']}"
        if t is not None and obs["tx"].get("other") is None and out["tx"] != want[t]:
            return f"textx.tx parser {'accepts' if t else 'rejects'} but the recogniser on the generated tx graph says {out['tx']}"
        if out.get("trap") in ("ok", "fail") and not (out["trap"] == out["tx"] == out["txo"]):
            return (f"instrumented run terminates with {out['trap']} (CleanRun holds) but tx gives {out['tx']} and the "
                    f"(x sep)* x formulation {out['txo']}: contradicts theorem C24_agree_tx_run_partial (model bug)")
        if out.get("trap") not in ("ok", "fail", "fuel"):
            return f"model: instrumented graph gives {out.get('trap')}"
        if out.get("trap") == "fuel" and out["tx"] == "ok":
            return ("textx.tx accepts a text on which its run meets a trailing RREL separator (the instrumented run does "
                    "not terminate): outside C24_agree_tx_run_partial and against the follow-set argument of the notes")
        nt = out.get("notrail")
        if not isinstance(nt, list) or any(h not in ("ends", "scan", "no", "long") for h in nt):
            return f"model: driver did not evaluate the NoTrailingSep hypothesis: {nt}"
        if out["txo"] != out["tx"]:
            covered = "no" not in nt
            return (f"unproved pair: tx gives {out['tx']} but the (x sep)* x formulation gives {out['txo']} "
                    + ("although NoTrailingSep holds (contradicts theorem C24_unsep_agree: model bug)" if covered else
                       "(trailing RREL separator: the two formulations are not equivalent in this context)"))
        if not out["lexok"]:
            return "lexer hypotheses of C24_agree_partial do not hold on the token tables of this text"
        return None

    # -- direct oracle -----------------------------------------------------------
    def oracle(self, case, obs):
        if "lexhyp" in obs:
            return None
        if "hist" in obs:
            return self.oracle_history(case, obs)
        c, d, t = obs["compiler"], obs["direct"], obs["tx"]
        for o, nm in ((c, "metamodel_from_str"), (d, "lang parser"), (t, "grammar_model_from_str")):
            if isinstance(o, dict) and o.get("other") == "Timeout":
                return f"{nm} did not finish"
        if self._acc(d) is not None and self._acc(c) != self._acc(d):
            return (f"observation points disagree: metamodel_from_str syntax error = {not c['acc']}, "
                    f"parse stage NoMatch = {not d['acc']}")
        if t.get("acc") is None:
            return f"textx.tx: text accepted by the parser cannot be inspected as a model: {t.get('other')} {t.get('msg', '')}"
        if c["acc"] != t["acc"]:
            if c["acc"]:
                return f"grammar compiler parses the text, textx.tx rejects it at {t.get('line')}:{t.get('col')}"
            return f"textx.tx accepts the text, grammar compiler reports a syntax error at {c.get('line')}:{c.get('col')}"
        return None

    def oracle_history(self, case, obs):
        if "worker_error" in obs:
            return f"fresh-process worker failed: {obs['worker_error']}"
        where = (f"after the history {[self._step(s) for s in case.get('history', [])]} "
                 f"with meta-model options {case.get('opts', {})}")
        for text, r in zip(case["texts"], obs["results"]):
            c, t = r["c"], r["t"]
            if t.get("acc") is None:
                return (f"{where}: text {text!r} accepted by the textx.tx parser cannot be inspected as a model: "
                        f"{t.get('other')} {t.get('msg', '')}")
            if c["acc"] != t["acc"]:
                if c["acc"]:
                    return (f"{where}: grammar compiler parses {text!r}, textx.tx rejects it at "
                            f"{t.get('line')}:{t.get('col')}")
                return (f"{where}: textx.tx accepts {text!r}, grammar compiler reports a syntax error at "
                        f"{c.get('line')}:{c.get('col')}")
        return None

    @staticmethod
    def _step(s):
        if s.get("do") == "compile":
            return f"metamodel_from_str({s['grammar']!r}, **{s.get('opts', {})})"
        return f"grammar_model_from_str({s.get('text')!r})"

    def classify(self, case, obs, failure):
        return None

    def nontrivial(self, case, obs):
        if "lexhyp" in obs:
            return True
        if "hist" in obs:
            return bool(case.get("history") or case.get("opts")) and any(r["c"]["acc"] for r in obs.get("results", []))
        d = obs["direct"]
        return bool(d.get("acc")) or (d.get("pos") or 0) >= 4

    def shrink(self, case):
        if case.get("kind") == "history":
            texts, hist, opts = case["texts"], case.get("history", []), case.get("opts", {})
            base = {"kind": "history", "origin": "shrunk"}
            if len(texts) > 1:
                # bisect the batch first (each candidate costs one fresh process), then single texts
                h = len(texts) // 2
                yield dict(base, history=hist, opts=opts, texts=texts[:h])
                yield dict(base, history=hist, opts=opts, texts=texts[h:])
                return
            for i in range(len(hist)):
                yield dict(base, history=hist[:i] + hist[i + 1:], opts=opts, texts=texts)
            for i, st in enumerate(hist):
                for k in sorted(st.get("opts", {})):
                    st2 = dict(st, opts={a: b for a, b in st["opts"].items() if a != k})
                    yield dict(base, history=hist[:i] + [st2] + hist[i + 1:], opts=opts, texts=texts)
                if st.get("model") is not None:
                    yield dict(base, history=hist[:i] + [dict(st, model=None)] + hist[i + 1:], opts=opts, texts=texts)
            for k in sorted(opts):
                yield dict(base, history=hist, opts={a: b for a, b in opts.items() if a != k}, texts=texts)
            return
        if "text" not in case:
            return
        toks = case.get("toks")
        if toks:
            for i in range(len(toks)):
                t2 = toks[:i] + toks[i + 1:]
                yield dict({"text": " ".join(t2), "toks": t2, "origin": "shrunk"},
                           **({"copts": case["copts"]} if case.get("copts") else {}))
            if case.get("copts"):
                for k in sorted(case["copts"]):
                    yield dict(case, copts={a: b for a, b in case["copts"].items() if a != k}, origin="shrunk")
        else:
            text = case["text"]
            lines = text.split("\n")
            if len(lines) > 1:
                for i in range(len(lines)):
                    yield {"text": "\n".join(lines[:i] + lines[i + 1:]), "origin": "shrunk"}
            elif len(text) <= 80:
                for i in range(len(text)):
                    yield {"text": text[:i] + text[i + 1:], "origin": "shrunk"}

    def extra_search(self, rng, tier, broken):
        cases = [{"text": t, "origin": f"crafted:{i}"} for i, t in enumerate(CRAFTED)]
        for i in range(3000 if tier == "quick" else 12000):
            r = rng.fork(i)
            g = TextGen(r, r.weighted([(4, 3), (8, 4), (14, 2)]))
            toks = g.grammar()
            if r.chance(0.5):
                toks = mutate(r, toks)
            cases.append({"text": render(r, toks), "toks": toks, "origin": "search"})
        return list(history_cases(rng.fork("histories"), tier)) + cases

    def sample_view(self, case, obs):
        if "lexhyp" in obs:
            return {"case": case, "impl": obs}
        if "hist" in obs:
            rs = obs.get("results", [])
            return {"origin": case.get("origin"), "history": case.get("history"), "opts": case.get("opts"),
                    "steps": obs.get("steps"), "texts": len(case["texts"]),
                    "accepted_by_both": sum(1 for r in rs if r["c"]["acc"] and r["t"]["acc"]),
                    "rejected_by_both": sum(1 for r in rs if not r["c"]["acc"] and r["t"]["acc"] is False)}
        return {"text": case["text"][:300], "origin": case.get("origin"), "compiler": obs["compiler"], "direct": obs["direct"],
                "tx": obs["tx"]}

    def extra_evidence(self, cases, obs, outs):
        acc = rej = 0
        agree = lexok = n = 0
        nt_hold = nt_hold_acc = nt_false = nt_false_acc = 0
        clean = clean_acc = unclean = 0
        nt_how = {"ends": 0, "scan": 0, "no": 0, "long": 0}
        for c, o, m in zip(cases, obs, outs):
            if not isinstance(o, dict) or "compiler" not in o:
                continue
            n += 1
            if o["compiler"].get("acc"):
                acc += 1
            else:
                rej += 1
            if m and "tx" in m:
                agree += m["tx"] == m["txo"]
                lexok += bool(m["lexok"])
                if m.get("trap") in ("ok", "fail"):
                    clean += 1
                    clean_acc += m["tx"] == "ok"
                else:
                    unclean += 1
                nt = m.get("notrail") or []
                for h in nt:
                    nt_how[h] = nt_how.get(h, 0) + 1
                if "long" in nt and "no" not in nt:
                    pass
                elif "no" in nt:
                    nt_false += 1
                    nt_false_acc += m["tx"] == "ok"
                else:
                    nt_hold += 1
                    nt_hold_acc += m["tx"] == "ok"
        info = _CACHE.get("info") or {}
        lh = next((o["lexhyp"] for o in obs if isinstance(o, dict) and "lexhyp" in o), None)
        return {"texts": n, "accepted": acc, "rejected": rej, "txo_vs_tx_agree": agree, "lexer_hypotheses_hold": lexok,
                # hypothesis of C24_agree_tx_run_partial (run level): texts on which the theorem speaks about tx itself
                "cleanrun_holds": clean, "cleanrun_holds_accepted": clean_acc, "cleanrun_false_all_rejected": unclean,
                # hypothesis of C24_agree_tx_partial (all positions): texts on which the theorem speaks about tx itself
                "notrailingsep_holds": nt_hold, "notrailingsep_holds_accepted": nt_hold_acc,
                "notrailingsep_false": nt_false, "notrailingsep_false_accepted": nt_false_acc,
                "notrailingsep_how": nt_how,
                "lexer_hypotheses_exhaustive": lh,
                "unproved_pairs": [{"tx_node": i, "rule": (info["tx"]["nodes"][i].get("rule") if info else None)}
                                   for i in info.get("unproved", [])],
                "translation": {"lang_nodes": len(info["lang"]["nodes"]) if info else None,
                                "tx_nodes": len(info["tx"]["nodes"]) if info else None,
                                "relation_pairs": len(info.get("rel", [])), "alts": info.get("alts"),
                                "problem": info.get("problem")}}
