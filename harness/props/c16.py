"""C16 — loading is independent of the metamodel's history.

One case = a pool of metamodels (hand-written template grammars with references,
imports, user classes, object / model processors, plus randomly generated
grammars; memoization on and off; all of them share textX's base-type rule
objects), a set of model files, and several *histories*: sequences of loads from
strings and files, valid and invalid, interleaved over the pool, optionally with
further metamodels created in the middle of the history.  Round V: metamodels compiled from grammar *files*
(several from the same paths, rewritten in between), model files in several directories found through the
search path of the import provider (two providers may share the list object), options mixed within a pool and
*probe* inputs on which the configurations of a pool disagree (letter case, white space, keyword spacing),
every other history dwelling on one metamodel and its relatives.

Implementation side (harness/c16_world.py, a server process per harness worker; a *fresh state* =
textx and arpeggio removed from sys.modules and imported again, user classes / processors rebuilt):
  * every history runs on a fresh state in which the pool has been created;
  * reference r1: every distinct load alone on a fresh state "pool created" (DESIGN.md Reading);
  * reference r2: the load on a fresh state in which only its metamodel was created
    (the statement, literally: "the same metamodel configuration on a fresh process state"); for every distinct load;
  * configuration fingerprint of every existing metamodel after every operation (parser options, compiled parser
    model with the regular expressions of the shared base-type rules, class table) against its solo creation;
  * reference r3 (a sample): r2 once more in a really new interpreter.
Direct oracle: each outcome inside a history (structural dump of the model incl.
positions, imported models, user-class construction / processor call log; or the
error with class, location, message) equals r1 and r2.

Correspondence (tie X): the Lean machine `History` (TextxVerif/Load/History.lean)
replays every history on the *dumped real parser models* (Arpeggio mirror with the
memo cache living on the shared rule objects, blueprint / clone containers with
Python's aliasing, user-class instrumentation, grammar-parser cache, base-type
back-pointer) and must reproduce the real parse tree / failure position of every
load, the number of memo-cache stores, and the observable hidden state after
every operation.
"""
import atexit
import json
import os
import shutil
import subprocess
import tempfile

from harness import gen_grammar as G
from harness.core import PY, REPO, VERIF, Check, InfraError
from harness.c16_world import op_key

# ----------------------------------------------------------------------------
# template grammars
# ----------------------------------------------------------------------------
ENT = r"""
Model: imports*=Import items*=Item refs*=Ref;
Import: 'import' importURI=STRING;
Item: 'item' name=ID ('=' val=Value)? ('tag' tag=ID)? ('{' subs+=Item '}')?;
Ref: 'ref' name=ID '->' target=[Item] (',' more+=[Item][','])?;
Value: NUMBER | STRING | BOOL;
Comment: /#.*$/;
"""

ENT_FQN = r"""
Model: imports*=Import items*=Item refs*=Ref;
Import: 'import' importURI=STRING;
Item: 'item' name=ID ('=' val=Value)? ('tag' tag=ID)? ('{' subs+=Item '}')?;
Ref: 'ref' name=ID '->' target=[Item:FQN] (',' more+=[Item:FQN][','])?;
Value: NUMBER | STRING | BOOL;
FQN: ID('.'ID)*;
Comment: /#.*$/;
"""

CALC = r"""
Calc: stmts+=Stmt;
Stmt: Assign | Print;
Assign: name=ID '=' e=Expr ';';
Print: 'print' e=Expr (',' more+=Expr)* ';';
Expr: t=Term (ops+=AddOp ts+=Term)*;
Term: f=Factor (ops+=MulOp fs+=Factor)*;
Factor: n=NUMBER | 'b' b=BASETYPE | v=[Assign] | '(' e=Expr ')' | s=STRING;
AddOp: '+' | '-';
MulOp: '*' | '/';
Comment: /\/\/.*$/;
"""

WSG = r"""
Doc: lines+=Line;
Line[noskipws]: /\s*/ key=ID ':' vals+=Val[','] /[ \t]*\n/;
Val[skipws]: i=INT | w=Word;
Word: /[a-z]+/;
"""

# memoization-sensitive: the same sub-rule (`Key`) is tried at the same position without and with whitespace
# skipping (Arpeggio's memo table is keyed by rule and position only), so a parser that memoizes although its
# metamodel was configured not to (or the other way round) returns other results on this language
WSMIX = r"""
Config: entries+=Entry;
Entry: Tight | Loose;
Tight[noskipws]: key=Key '=' value=INT ';';
Loose: key=Key ':' value=INT ';';
Key: ID ('.' ID)*;
Comment: /\/\*(.|\n)*?\*\//;
"""

# the entity language with its grammar split over files; several metamodels of a case may be compiled from
# the *same paths* holding different versions (grammar files edited between two metamodel_from_file calls)
GF_MAIN = r"""import values
Model: imports*=Import items*=Item refs*=Ref;
Import: 'import' importURI=STRING;
Item: 'item' name=ID ('=' val=Value)? ('tag' tag=ID)? ('{' subs+=Item '}')?;
Ref: 'ref' name=ID '->' target=[Item] (',' more+=[Item][','])?;
Comment: /#.*$/;
"""
GF_VERSIONS = [
    ({"values.tx": "Value: NUMBER | STRING | BOOL;\n"}, ["1", "-2.5", "7", "'s'", '"t u"', "true", "1e3", "0"]),
    ({"values.tx": "Value: BOOL | ID | NUMBER | STRING;\n"}, ["1", "-2.5", "foo", "'s'", "false", "zed", "0"]),
    ({"values.tx": "Value: STRING | INT | Flag;\nFlag: 'on' | 'off';\n"}, ["1", "7", "0", "'s'", "on", "off"]),
    ({"values.tx": "import lits\nValue: Num | Str;\n", "lits.tx": "Num: INT;\nStr: STRING;\n"}, ["1", "7", "'s'", '"t"']),
]

NAMES = ["a", "b", "c", "d", "e1", "x", "y"]
TRIGGERS = ["opboom", "initboom", "mpboom"]
CLASS_VARIANTS = ["plain", "setattr", "slots", "initraise", "getattribute"]


ENT_VALS = ["1", "-2.5", "7", "'s'", '"t u"', "true", "1e3", "0", "false"]


def ent_text(rng, imports=(), fail=None, big=False, vals=None):
    """A model text for the entity grammars; `fail` in None | 'syntax' | 'ref' | trigger name."""
    n = rng.randint(1, 5 if big else 3)
    names = rng.sample(NAMES, min(n, len(NAMES)))
    if fail in TRIGGERS:
        names[rng.below(len(names))] = fail
    lines = [f'import "{f}"' for f in imports]

    def item(nm, depth=0):
        s = "item " + nm
        if rng.chance(0.5):
            s += " = " + ("13" if fail == "val13" and rng.chance(0.3) else rng.choice(vals or ENT_VALS))
        if rng.chance(0.5):
            s += " tag " + rng.choice(["foo", "Bar", "z"])
        if depth < 2 and rng.chance(0.25):
            s += " { " + item(nm + "s", depth + 1) + " }"
        return s

    for nm in names:
        lines.append(item(nm))
        if rng.chance(0.15):
            lines.append("# a comment")
    nrefs = rng.randint(0, 3)
    for i in range(nrefs):
        tgt = rng.choice(names)
        s = f"ref r{i} -> {tgt}"
        if rng.chance(0.3):
            s += ", " + rng.choice(names)
        lines.append(s)
    if fail == "ref":
        # unknown name: one that no text defines, or one that other texts of the pool do define
        lines.append("ref rx -> " + rng.choice(["nope", "zz"] + [n for n in NAMES if n not in names]))
    text = rng.choice(["\n", " ", "\n  "]).join(lines) + rng.choice(["", "\n"])
    if fail == "syntax":
        toks = text.split(" ")
        c = rng.choice(["drop", "junk", "dup"])
        i = rng.below(len(toks))
        if c == "drop" and len(toks) > 1:
            del toks[i]
        elif c == "junk":
            toks.insert(i, rng.choice(["%", "item", "->", "ref", "9x"]))
        else:
            toks.insert(i, toks[i])
        text = " ".join(toks)
        if rng.chance(0.3):
            text += " item"
    return text


def calc_text(rng, fail=None):
    vars_ = []
    out = []

    def factor(d):
        k = rng.weighted([("n", 5), ("v", 3 if vars_ else 0), ("p", 2 if d < 2 else 0), ("s", 1), ("b", 1)])
        if k == "n":
            return rng.choice(["1", "2.5", "42", "1e2", "7"])
        if k == "v":
            return rng.choice(vars_)
        if k == "p":
            return "(" + expr(d + 1) + ")"
        if k == "s":
            return rng.choice(["'q'", '"w"'])
        return "b " + rng.choice(["3", "x1", "true", "'k'", "2.5"])

    def term(d):
        s = factor(d)
        for _ in range(rng.below(2)):
            s += " " + rng.choice(["*", "/"]) + " " + factor(d)
        return s

    def expr(d):
        s = term(d)
        for _ in range(rng.below(3)):
            s += " " + rng.choice(["+", "-"]) + " " + term(d)
        return s

    for i in range(rng.randint(1, 4)):
        if rng.chance(0.6):
            v = rng.choice(["u", "v", "w", "k"]) + str(i)
            out.append(f"{v} = {expr(0)};")
            vars_.append(v)
        else:
            out.append(f"print {expr(0)}" + (f", {expr(1)}" if rng.chance(0.3) else "") + ";")
        if rng.chance(0.15):
            out.append("// note")
    if fail == "ref":
        out.append("print " + rng.choice(["nope1", "u0", "v0", "w1", "k0"]) + " + 1;")
    text = rng.choice([" ", "\n"]).join(out)
    if fail == "syntax":
        i = rng.below(len(text))
        text = text[:i] + rng.choice([";;", "(", "= =", "print", "$"]) + text[i:]
    return text


def wsg_text(rng, fail=None):
    lines = []
    for i in range(rng.randint(1, 3)):
        vals = [rng.choice(["1", "22", "ab", "c", "-3"]) for _ in range(rng.randint(1, 3))]
        sep = rng.choice([",", ", "])
        lines.append(rng.choice(["", " ", "  "]) + rng.choice(["k", "key", "z9"]) + ":" + rng.choice(["", " "])
                     + sep.join(vals) + rng.choice(["", " "]) + "\n")
    text = "".join(lines)
    if fail == "syntax":
        i = rng.below(len(text))
        text = text[:i] + rng.choice(["!", ":", "\n\n:", "A"]) + text[i:]
    return text


def ent_cfg(rng, fqn=False, files=False):
    classes = {}
    for r in ("Item", "Ref", "Model"):
        if rng.chance(0.45 if r == "Item" else 0.15):
            classes[r] = rng.choice(CLASS_VARIANTS)
    objprocs = {}
    if rng.chance(0.5):
        objprocs["Item"] = rng.choice(["log", "raise", "raiseval"])
    if rng.chance(0.25):
        objprocs["Value"] = rng.choice(["log", "upper", "raise"])
    if rng.chance(0.2):
        objprocs["INT"] = "double"
    if rng.chance(0.15):
        objprocs["Ref"] = "log"
    modelprocs = [rng.choice(["log", "raise"])] if rng.chance(0.4) else []
    if files:
        scope = "fqn_importuri" if fqn else "plain_importuri"
    else:
        scope = "fqn" if fqn else rng.choice([None, "plain_instances", "plain_instances"])
    opts = {"memoization": rng.chance(0.5)}
    if rng.chance(0.25):
        opts["textx_tools_support"] = True
    if rng.chance(0.2):
        opts["auto_init_attributes"] = False
    if rng.chance(0.15):
        opts["ignore_case"] = True
    if rng.chance(0.02):
        opts["debug"] = True  # slow (debug output, .dot exports): rare
    cfg = {"kind": "ent", "grammar": ENT_FQN if fqn else ENT, "opts": opts, "classes": classes,
           "objprocs": objprocs, "modelprocs": modelprocs, "scope": scope}
    if rng.chance(0.3):
        cfg["params"] = ["flag"]
    return cfg


def calc_cfg(rng):
    opts = {"memoization": rng.chance(0.6)}
    if rng.chance(0.2):
        opts["autokwd"] = True
    if rng.chance(0.02):
        opts["debug"] = True
    classes = {"Assign": rng.choice(["plain", "setattr"])} if rng.chance(0.3) else {}
    objprocs = {}
    if rng.chance(0.3):
        objprocs["NUMBER"] = "double"
    if rng.chance(0.3):
        objprocs["Factor"] = "log"
    return {"kind": "calc", "grammar": CALC, "opts": opts, "classes": classes, "objprocs": objprocs,
            "modelprocs": ["log"] if rng.chance(0.2) else [], "scope": rng.choice([None, "plain_instances"])}


def wsg_cfg(rng):
    return {"kind": "wsg", "grammar": WSG, "opts": {"memoization": rng.chance(0.5)}, "classes": {}, "objprocs": {},
            "modelprocs": [], "scope": None}


GEN_OPTS = [{}, {}, {"skipws": False}, {"ws": " "}, {"ws": " \t\n"}, {"autokwd": True}, {"ignore_case": True}]


def gen_cfg(rng):
    gg = G.GrammarGen(rng, links=rng.chance(0.3))
    g = gg.grammar()
    opts = dict(rng.choice(GEN_OPTS))
    opts["memoization"] = rng.chance(0.5)
    cfg = {"kind": "gen", "grammar": G.render_grammar(g), "opts": opts, "classes": {}, "objprocs": {},
           "modelprocs": [], "scope": None}
    texts = G.sentences(g, rng, 3, 2)
    return cfg, texts


def wsmix_text(rng, fail=None):
    out = []
    for _ in range(rng.randint(1, 4)):
        key = ".".join(rng.sample(["a", "b", "c", "d"], rng.randint(1, 2)))
        if rng.chance(0.5):
            out.append(f"{key}={rng.randint(0, 9)};")          # Tight: no whitespace anywhere
        else:
            def sp():
                return rng.choice(["", "", " ", "\t", "\n", " /* c */ "])
            out.append(sp() + (sp() + "." + sp()).join(key.split(".")) + sp() + ":" + sp() + str(rng.randint(0, 9)) + sp() + ";")
    text = "".join(out) + rng.choice(["", " ", "\n"])
    if fail == "syntax":
        i = rng.below(len(text))
        text = text[:i] + rng.choice(["=", ";", " ", "x y", "."]) + text[i:]
    return text


def wsmix_cfg(rng):
    return {"kind": "wsmix", "grammar": WSMIX, "opts": {"memoization": rng.chance(0.5)}, "classes": {}, "objprocs": {},
            "modelprocs": [], "scope": None}


# ----------------------------------------------------------------------------
# probes: inputs on which the configurations living in one process disagree
# ----------------------------------------------------------------------------
import re as _re

_WORD = _re.compile(r"[A-Za-z]+")
_BOOLW = _re.compile(r"\b(true|false)\b")


def _recase(rng, w):
    c = rng.choice(["upper", "cap", "swapmid"])
    if c == "upper":
        return w.upper()
    if c == "cap":
        return w.capitalize() if w != w.capitalize() else w.upper()
    i = rng.below(len(w))
    return w[:i] + w[i].swapcase() + w[i + 1:]


def probe_text(rng, kind, text, prefer):
    """One variant of a valid input that tells configurations apart which must not influence each other:
    letter case (ignore_case; the shared base-type matches BOOL / ID …), white space (skipws / ws / rule
    modifiers / memoization across whitespace modes), keyword glued to the next word (autokwd)."""
    how = rng.weighted([("boolcase", 4 if prefer.get("case") else 2), ("case", 3 if prefer.get("case") else 1),
                        ("ws", 2 if prefer.get("ws") else 1), ("glue", 2 if prefer.get("kwd") else 1)])
    if how == "boolcase":
        ms = list(_BOOLW.finditer(text))
        if ms:
            m = rng.choice(ms)
            return text[:m.start()] + _recase(rng, m.group()) + text[m.end():]
        lit = rng.choice(["TRUE", "FALSE", "True", "False", "tRue", "FALSe"])
        if kind in ("ent", "entfiles", "entsp", "entgf"):
            return text.rstrip("\n") + f"\nitem pz = {lit}"
        if kind == "calc":
            return text + f" print b {lit};"
        how = "case"
    if how == "case":
        ms = list(_WORD.finditer(text))
        if ms:
            m = rng.choice(ms)
            return text[:m.start()] + _recase(rng, m.group()) + text[m.end():]
        how = "ws"
    if how == "glue":
        ms = list(_re.finditer(r"(?<=[A-Za-z])[ \t\n]+(?=[A-Za-z0-9])", text))
        if ms:
            m = rng.choice(ms)
            return text[:m.start()] + text[m.end():]
        how = "ws"
    ms = list(_re.finditer(r"[ \t\n]+", text))
    if ms and rng.chance(0.6):
        m = rng.choice(ms)
        return text[:m.start()] + rng.choice(["\t", "\n", "  ", " \n\t", ""]) + text[m.end():]
    i = rng.below(len(text) + 1)
    return text[:i] + rng.choice([" ", "\t", "\n"]) + text[i:]


# ----------------------------------------------------------------------------
# model files in several directories, imports through a search path
# ----------------------------------------------------------------------------
def sp_tree(rng, tag, files):
    """<tag>/lib[2]: directories of the provider's search path; <tag>/pa|pb|pc: project directories with a
    main file each.  The same file name exists in several directories with other values (the item names
    agree, so references resolve wherever the import is found); `extra.ent` exists in project directories
    only, so importing it elsewhere must fail."""
    libs = [f"{tag}/lib"] + ([f"{tag}/lib2"] if rng.chance(0.4) else [])
    projs = [f"{tag}/p{c}" for c in "abc"[:rng.randint(2, 3)]]
    code = [0]

    def lib_text(name, imports=()):
        code[0] += 1
        b = name[0]
        lines = [f'import "{i}"' for i in imports]
        lines += [f"item {b}1 = {code[0]}", f"item {b}2 = {code[0]}.5 tag {rng.choice(['foo', 'Bar', 'z'])}"]
        return "\n".join(lines) + "\n"

    have = {d: set() for d in libs + projs}
    have[libs[0]].add("units.ent")
    have[projs[0]].update(["units.ent", "extra.ent"])
    for d in libs + projs:
        for n, pr in (("units.ent", 0.3), ("common.ent", 0.5 if d in libs else 0.2), ("extra.ent", 0.0 if d in libs else 0.25)):
            if rng.chance(pr):
                have[d].add(n)
    for d in libs + projs:
        for n in sorted(have[d]):
            imps = ["units.ent"] if n == "common.ent" and rng.chance(0.5) else []
            files[f"{d}/{n}"] = lib_text(n, imps)
    visible = set().union(*[have[d] for d in libs])
    mains = []
    for i, d in enumerate(projs):
        local = have[d] | visible
        if i < 2:   # designed to be valid (on a fresh provider)
            imps = rng.sample(sorted(local), rng.randint(1, min(2, len(local))))
        else:
            imps = rng.sample(["units.ent", "extra.ent", "common.ent"], rng.randint(1, 2))
        lines = [f'import "{n}"' for n in imps]
        lines += [f"item m{j + 1}" + rng.choice(["", " = 3", " tag foo"]) for j in range(rng.randint(1, 2))]
        for j, n in enumerate(imps):
            if rng.chance(0.8):
                lines.append(f"ref r{j} -> {n[0]}{rng.randint(1, 2)}")
        if i >= 1 and rng.chance(0.15):
            lines.append("ref rx -> nope")
        fn = f"{d}/main.ent"
        files[fn] = "\n".join(lines) + "\n"
        mains.append(fn)
    # a project file importing a name that only another project directory has: fails unless something leaks
    d = rng.choice(projs[1:])
    other = sorted(n for n in have[projs[0]] if n not in have[d] and n not in visible)
    if other:
        fn = f"{d}/second.ent"
        files[fn] = f'import "{rng.choice(other)}"\nitem s1\n'
        mains.append(fn)
    return {"libs": libs, "mains": mains}


def mm_and_inputs(rng, k, files, ctx):
    """One metamodel configuration + its inputs: list of op templates (without history position).
    `ctx` carries what later metamodels of the case may share with earlier ones (a directory tree and the
    search-path list of an import provider; the paths of a grammar that lives in files)."""
    # a second member for a family that has only one so far is likely
    kind = rng.weighted([("ent", 5), ("entfiles", 3), ("entsp", 7 if ctx.get("sp") and not ctx["sp"].get("second") else 3),
                         ("entgf", 10 if ctx.get("gf") and len(ctx["gf"]["used"]) == 1 else 3), ("calc", 3), ("wsg", 1),
                         ("wsmix", 1), ("gen", 4)])
    ops = []
    if kind == "gen":
        cfg, texts = gen_cfg(rng)
        ops = [["str", k, t] for t in texts]
    elif kind == "calc":
        cfg = calc_cfg(rng)
        for f in [None, None, rng.choice([None, "ref"]), "syntax"]:
            ops.append(["str", k, calc_text(rng, f)])
    elif kind == "wsg":
        cfg = wsg_cfg(rng)
        for f in [None, None, "syntax"]:
            ops.append(["str", k, wsg_text(rng, f)])
    elif kind == "wsmix":
        cfg = wsmix_cfg(rng)
        for f in [None, None, None, "syntax"]:
            ops.append(["str", k, wsmix_text(rng, f)])
    elif kind in ("ent", "entgf"):
        fqn = rng.chance(0.25) and kind == "ent"
        cfg = ent_cfg(rng, fqn=fqn)
        vals = None
        if kind == "entgf":
            # grammar in files; a later metamodel of the case usually takes the same paths with another version
            fam = ctx.get("gf")
            if fam is None or rng.chance(0.3):
                fam = ctx["gf"] = {"dir": f"g/fam{k}", "used": []}
            free = [v for v in range(len(GF_VERSIONS)) if v not in fam["used"]] or list(range(len(GF_VERSIONS)))
            v = rng.choice(free)
            fam["used"].append(v)
            gfiles, vals = GF_VERSIONS[v]
            cfg.update(kind="entgf", grammar=None, gmain=f"{fam['dir']}/main.tx",
                       gfiles={f"{fam['dir']}/main.tx": GF_MAIN, **{f"{fam['dir']}/{n}": t for n, t in gfiles.items()}})
        fails = [None, None, "syntax", "ref", rng.choice(TRIGGERS + ["val13"])]
        for f in fails:
            t = ent_text(rng, fail=f, big=rng.chance(0.3), vals=vals)
            if cfg.get("params") and rng.chance(0.5):
                ops.append(["strp", k, t, {"flag": rng.choice([True, 1, "v"])}])
            else:
                ops.append(["str", k, t])
    elif kind == "entsp":
        fqn = rng.chance(0.25)
        cfg = ent_cfg(rng, fqn=fqn, files=True)
        cfg["kind"] = "entsp"
        tree = ctx.get("sp")
        if tree is not None and rng.chance(0.6):
            # a second metamodel over the same tree; its provider is handed the very same search-path list
            cfg["sp_share"] = tree["key"]
            tree["second"] = True
        else:
            tree = sp_tree(rng, f"m{k}", files)
            tree["key"] = f"L{k}"
            if rng.chance(0.5):
                cfg["sp_share"] = tree["key"]
                ctx["sp"] = tree
        cfg["search_path"] = list(tree["libs"])
        ops = [["file", k, fn] for fn in tree["mains"][:2]]
        ops += [["file", k, fn] for fn in tree["mains"][2:]]
        ops.append(["str", k, ent_text(rng, fail=None)])
        ops.append(["str", k, ent_text(rng, fail=rng.choice(["syntax", "ref"]))])
    else:
        fqn = rng.chance(0.25)
        cfg = ent_cfg(rng, fqn=fqn, files=True)
        cfg["kind"] = "entfiles"
        # a small directory: leaves (good / bad), middles importing leaves, mains
        tag = f"m{k}"
        leaves = []
        for i, f in enumerate([None, None, rng.choice(["syntax", "ref", "opboom", "initboom"])]):
            fn = f"{tag}_leaf{i}.ent"
            files[fn] = ent_text(rng, fail=f)
            leaves.append(fn)
        mids = []
        for i in range(2):
            fn = f"{tag}_mid{i}.ent"
            imps = rng.sample(leaves[:2], rng.randint(1, 2)) if i == 0 else rng.sample(leaves, rng.randint(1, 3))
            files[fn] = ent_text(rng, imports=imps, fail=None if i == 0 else rng.choice([None, "ref"]))
            mids.append(fn)
        good = [[leaves[0]], [mids[0]], [mids[0], leaves[1]]]
        bad = [[mids[1]], [leaves[2]], ["missing_file.ent"], [f"{tag}_main0.ent", leaves[0]], [mids[0], leaves[2]]]
        mains = []
        for i, imps in enumerate([rng.choice(good)] + rng.sample(bad, 2) + [rng.choice(good)]):
            fn = f"{tag}_main{i}.ent"
            fail = None if i == 0 else rng.choice([None, None, "mpboom", "ref"])
            files[fn] = ent_text(rng, imports=imps, fail=fail)
            mains.append(fn)
        # designed to be valid first: a good multi-file load and a string load
        ops = [["file", k, mains[0]], ["str", k, ent_text(rng, fail=None)]]
        ops += [["file", k, fn] for fn in mains[1:]]
        ops.append(["str", k, ent_text(rng, fail=rng.choice(["syntax", "ref"]))])
    return cfg, ops


def add_probes(rng, cfgs, all_ops):
    """per metamodel one or two probe inputs, derived from its valid string inputs and from the options in
    which the *other* configurations of the case differ from it"""
    def opt(c, name, dflt):
        return c["opts"].get(name, dflt)

    out = []
    for k, (cfg, ops) in enumerate(zip(cfgs, all_ops)):
        others = [c for j, c in enumerate(cfgs) if j != k]
        prefer = {
            "case": any(bool(opt(c, "ignore_case", False)) != bool(opt(cfg, "ignore_case", False)) for c in others),
            "ws": any((opt(c, "skipws", True), opt(c, "ws", None)) != (opt(cfg, "skipws", True), opt(cfg, "ws", None))
                      or bool(opt(c, "memoization", False)) != bool(opt(cfg, "memoization", False)) for c in others),
            "kwd": any(bool(opt(c, "autokwd", False)) != bool(opt(cfg, "autokwd", False)) for c in others),
        }
        strs = [o for o in ops[:3] if o[0] in ("str", "strp")] or [o for o in ops if o[0] in ("str", "strp")]
        probes = []
        for _ in range(2):
            if not strs:
                break
            o = rng.choice(strs)
            t = probe_text(rng, cfg["kind"], o[2], prefer)
            if t != o[2] and all(t != q[2] for q in probes):
                probes.append([o[0], o[1], t] + list(o[3:]))
        out.append(probes)
    return out


def pick_inputs(rng, ops, probes, n):
    """keep n inputs per metamodel (every distinct load needs its own fresh-state references): the first two
    (designed to be valid), one probe, and n-3 of the others (designed to fail)."""
    rest = ops[2:]
    pr = probes[:1] if n >= 3 else []
    k = max(0, n - 2 - len(pr))
    return ops[:2] + (rest if len(rest) <= k else rng.sample(rest, k)) + pr


def draw_input(rng, src):
    """mostly valid inputs: the first two of a metamodel's inputs are drawn with probability 0.65"""
    if len(src) > 2 and not rng.chance(0.65):
        return rng.choice(src[2:])
    return rng.choice(src[:2])


def gen_case(rng, tier):
    files, ctx = {}, {}
    npool = rng.weighted([(2, 3), (3, 4), (4, 3)])
    nextra = rng.weighted([(0, 5), (1, 4), (2, 1)])
    cfgs, all_ops = [], []
    for k in range(npool + nextra):
        cfg, ops = mm_and_inputs(rng.fork(f"mm{k}" if k < npool else f"x{k - npool}"), k, files, ctx)
        cfgs.append(cfg)
        all_ops.append(ops)
    # make sure memoization is mixed in most pools
    if npool >= 2 and rng.chance(0.8):
        cfgs[0]["opts"]["memoization"] = True
        cfgs[1]["opts"]["memoization"] = False
    # ... and that case-insensitive and case-sensitive metamodels meet in about half of the cases
    if rng.chance(0.4) and not any(c["opts"].get("ignore_case") for c in cfgs):
        rng.choice(cfgs)["opts"]["ignore_case"] = True
    probes = add_probes(rng.fork("probes"), cfgs, all_ops)
    pool, extras = cfgs[:npool], cfgs[npool:]
    inputs = [pick_inputs(rng.fork(f"in{k}"), all_ops[k], probes[k], 4) for k in range(npool)]
    xinputs = [pick_inputs(rng.fork(f"xin{j}"), all_ops[npool + j], probes[npool + j], 3) for j in range(nextra)]
    # metamodels that share something a load may write to: the search-path list of their import providers,
    # the paths of their grammar files
    def related(k):
        def key(c):
            return (c.get("sp_share"), os.path.dirname(c["gmain"]) if c.get("gmain") else None)
        me = key(cfgs[k])
        return [j for j, c in enumerate(cfgs) if j == k or any(x is not None and x == y for x, y in zip(me, key(c)))]

    histories = []
    nh = 5 if tier == "quick" else 6
    for h in range(nh):
        r = rng.fork(f"h{h}")
        n = r.randint(3, 12)
        ops, created = [], set()
        # every other history dwells on one metamodel (and those related to it): state that a load leaves behind in
        # the metamodel's own objects (providers, repositories, blueprint) needs several loads of the same one
        focus = related(r.below(len(cfgs))) if h % 2 == 1 or r.chance(0.2) else None
        for _ in range(n):
            if focus and r.chance(0.8):
                k = r.choice(focus)
                if k >= npool and k - npool not in created:
                    created.add(k - npool)
                    ops.append(["new", k])
                    continue
                src = inputs[k] if k < npool else xinputs[k - npool]
                ops.append(r.choice(src))
                continue
            if extras and len(created) < len(extras) and r.chance(0.2):
                j = r.choice([j for j in range(len(extras)) if j not in created])
                created.add(j)
                ops.append(["new", npool + j])
                continue
            cands = list(range(npool)) + [npool + j for j in sorted(created)]
            k = r.choice(cands)
            src = inputs[k] if k < npool else xinputs[k - npool]
            # repeat an earlier op of the history now and then (same load twice)
            loads = [o for o in ops if o[0] != "new"]
            if loads and r.chance(0.2):
                ops.append(r.choice(loads))
            else:
                ops.append(draw_input(r, src))
        if not any(o[0] != "new" for o in ops):
            ops.append(draw_input(r, inputs[0]))
        histories.append(ops)
    return {"pool": pool, "extras": extras, "files": files, "histories": histories}


# ----------------------------------------------------------------------------
# the fork server (one per harness process)
# ----------------------------------------------------------------------------
_SERVER = {}


def _server():
    p = _SERVER.get(os.getpid())
    if p is not None and p.poll() is None:
        return p
    env = dict(os.environ, VERIF_REPO=REPO, PYTHONHASHSEED="0", PYTHONDONTWRITEBYTECODE="1")
    p = subprocess.Popen([PY, "-m", "harness.c16_world"], cwd=VERIF, env=env, stdin=subprocess.PIPE,
                         stdout=subprocess.PIPE, stderr=subprocess.DEVNULL)
    _SERVER.clear()
    _SERVER[os.getpid()] = p
    atexit.register(_kill, p)
    return p


def _kill(p):
    try:
        p.stdin.close()
    except Exception:
        pass
    try:
        p.kill()
    except Exception:
        pass


SERVER_LIMIT = 150  # seconds of wall clock for one case (0.5 s on an idle machine)


def _read_line(p, limit):
    """one answer line of the server, or None when it does not arrive in time / the server died."""
    import select
    import time

    fd = p.stdout.fileno()
    buf = b""
    end = time.time() + limit
    while not buf.endswith(b"\n"):
        left = end - time.time()
        if left <= 0:
            return None
        r, _, _ = select.select([fd], [], [], min(left, 5))
        if not r:
            continue
        chunk = os.read(fd, 1 << 16)
        if not chunk:
            return None
        buf += chunk
    return buf


def run_world(case, lean=True):
    """Observation of one case, or {"inconclusive": why} when the machinery (not the code under test)
    did not deliver: an overloaded machine must never turn into a verdict about the property."""
    tmp = tempfile.mkdtemp(prefix="c16_")
    try:
        for fn, text in case.get("files", {}).items():
            os.makedirs(os.path.dirname(os.path.join(tmp, fn)), exist_ok=True)
            with open(os.path.join(tmp, fn), "w") as f:
                f.write(text)
        p = _server()
        try:
            p.stdin.write((json.dumps({"case": case, "tmp": tmp, "lean": lean}) + "\n").encode())
            p.stdin.flush()
            line = _read_line(p, SERVER_LIMIT)
        except BaseException:
            _kill(p)
            _SERVER.clear()
            raise
        if line is None:
            _kill(p)
            _SERVER.clear()
            return {"inconclusive": f"no answer from the fork server within {SERVER_LIMIT}s"}
        res = json.loads(line.decode())
        if "crash" in res and "runs" not in res:
            return {"inconclusive": "fork server: " + str(res.get("crash"))[:300]}
        return res
    finally:
        shutil.rmtree(tmp, ignore_errors=True)


# ----------------------------------------------------------------------------
def phase_of(out):
    """Which phase of the load failed, read off the real outcome (input to the Lean machine:
    the semantic phases are parameters of the model, only parsing is computed by it)."""
    if "ok" in out:
        return "ok"
    if "skip" in out:
        return "skip"
    if "other" in out:
        m = out.get("msg", "")
        if out["other"] == "ValueError" and "initboom" in m:
            return "init"
        if out["other"] == "ValueError" and "opboom" in m:
            return "objproc"
        if out["other"] in ("FileNotFoundError", "OSError", "IOError"):
            return "import"
        return "other"
    e = out["err"]
    if e["cls"] == "TextXSyntaxError":
        return "parse"
    if e["msg"] == "opboom":
        return "objproc"
    if e["msg"] == "mpboom":
        return "modelproc"
    return "semantic"


class Prop(Check):
    ID = "C16"
    LEAN_MODULE = "TextxVerif.Props.C16"
    THEOREMS = [
        "History.C16_history",
        "History.C16_reachable_rest",
        "History.C16_noninterference",
        "History.C16_same_as_fresh",
        "History.C16_history_pool",
        "History.C16_memo_frame",
        "History.C16_noClear_false",
        "History.C16_shareInstances_false",
        "History.C16_walk_is_reach",
        "History.C16_stores_reachable",
        "History.C16_stores_reachable_fresh",
        "History.C16_walk_clears",
        "History.C16_walk_frame",
        "History.C16_walk_run",
        "History.C16_history_walk",
        "History.C16_same_as_fresh_walk",
        "History.C16_walk_sep_false",
        "History.C16_creation_frame",
        "History.C16_imports_provider_unchanged",
        "History.C16_imports_history",
        "History.C16_imports_alias_false",
    ]
    DRIVER = "Drivers/History.lean"
    QUICK_CASES = 72          # x 5 histories = 360 histories, ~2600 operations
    THOROUGH_CASES = 840      # x 6 histories = 5040 histories
    PROCS_QUICK = int(os.environ.get("C16_PROCS", "4"))
    PROCS_THOROUGH = int(os.environ.get("C16_PROCS", "16"))
    CASE_TIMEOUT = 400
    MAX_INCONCLUSIVE = 0.1  # more than this fraction of unfinished cases: infrastructure trouble (exit 2)
    RULE = ("pools of 2-4 metamodels (+0-2 created inside the history; grammars from strings and from files — several metamodels "
            "compiled from the same paths holding other versions; options memoization / ignore_case / skipws / ws / autokwd "
            "mixed within a pool; import providers with a search path, two providers sharing one list object) x 5 histories of "
            "3-12 loads, every other history dwelling on one metamodel and those related to it (strings / files in several "
            "directories, valid / syntax error / unknown reference / failing user __init__, object processor, model processor / "
            "missing import / probe = a valid input changed in letter case, white space or keyword spacing, i.e. where the "
            "configurations living in the process disagree); non-trivial = a history in which a successful load follows a "
            "failed load of the same metamodel or a load of another metamodel, and every outcome was compared with the "
            "fresh-state references (solo reference for every distinct load)")
    MODELLED = ("hand-modelled (TextxVerif/Load/History.lean): the state that survives a load — Arpeggio memo caches on the "
                "(partly shared) rule objects, parser blueprint / clone containers with copy.copy aliasing (model.py clone), "
                "user-class instrumentation counters and collected attributes (model.py _replace/_restore_user_attr_methods, "
                "_discard_user_obj_attrs), grammar-parser cache keyed by the debug flag (lang.py textX_parsers), _tx_class "
                "back-pointer of the shared base-type rules (metamodel.py _init_class); parsing computed by the Arpeggio "
                "mirror Peg.parse started on the surviving caches and cleared by the mirror of ParsingExpression._clear_cache (walk "
                "along `nodes` from parser model and comments model, not along `sep`); the semantic phases (object construction, reference "
                "resolution, __init__, processors) are parameters: arbitrary functions of what the code reads from that state. "
                "Tie X: every history replayed by the Lean machine on the dumped real parser models; compared: parse tree / "
                "syntax-error position of every load, number of memo-cache stores, instrumentation counts seen by user "
                "__init__, and after every operation cache sizes, blueprint containers, clone aliasing, instrumentation "
                "leftovers, grammar-parser cache, base-rule owner; files parsed by a model_from_file (TextxVerif/Load/SearchPath.lean: "
                "mirror of ImportURI._load_referenced_models / load_model_using_search_path, computed by the driver from the "
                "directory tree and the provider's search path) against the implementation's repository order; the parser's "
                "memoization flag against the configured one. Implementation only (direct oracle): the configuration fingerprint "
                "of every existing metamodel after every operation (parser options, compiled parser model incl. regular "
                "expressions and flags of the shared base-type rules, class table) equals the one of the same configuration "
                "created alone on a fresh state. Not exhibited: CPython object identity / GC, scope "
                "providers with own state (GlobalRepo), metamodel-global model repository (shared by design, C17), "
                "registered languages / `reference` statements, debug output")
    ASSUMPTIONS = [
        "the pool's metamodels do not share user classes, processors or scope-provider objects with each other",
        "the separators of the repetitions of every parser model are Match objects (textX's grammar language admits no others); "
        "under this premise (`walkOK`, evaluated by the Lean driver on every dumped pool and reported as a disagreement when "
        "false) clearing the memo caches by walking the parser model — what Arpeggio does and what the driver's machine "
        "`realWalk` does — is proved equal to dropping every entry (C16_walk_run, C16_stores_reachable)",
        "the compiled parser model of a grammar does not depend on the process state at creation time (memoization flag of the "
        "cached grammar parser, metamodels created before, earlier content of the grammar's files): the Lean world takes the "
        "parser models as given; checked on the implementation by comparing the configuration fingerprint of every metamodel "
        "after every operation with the one of its solo creation, and by the solo reference of every load",
    ]

    def gen(self, rng, n, tier):
        for i in range(n):
            c = gen_case(rng.fork(i), tier)
            c["check_fresh_interpreter"] = (i % 12 == 0)
            yield c

    def impl(self, case):
        return run_world(case, lean=True)

    # ---- correspondence with the Lean machine -------------------------------------------------
    @staticmethod
    def fsys_of(case):
        """the model files of the case for the Lean driver: [[directory number, base name, [importURI…]]…]"""
        from harness.c16_world import IMPORT_RE

        names = sorted(case.get("files") or {})
        dirs = sorted({os.path.dirname(f) for f in names} | {d for c in case["pool"] + (case.get("extras") or [])
                                                              for d in (c.get("search_path") or [])})
        dno = {d: i for i, d in enumerate(dirs)}
        rows = [[dno[os.path.dirname(f)], os.path.basename(f), [m.group(2) for m in IMPORT_RE.finditer(case["files"][f])]]
                for f in names]
        return names, dno, rows

    def lean_ops(self, case, ops, run, index):
        """the operations of one history for the Lean machine (pool creation first), or None when the
        mirror cannot take the history."""
        npool = len(case["pool"])
        if "hist" not in run or "unsupported" in run.get("lean", {"unsupported": 1}):
            return None
        for op, st in zip(ops, run["hist"]):
            if op[0] == "new" and not st["out"].get("created"):
                return None  # the machine assumes that `new` succeeds
        lops = [{"new": k} for k in range(npool)]
        names, dno, _ = self.fsys_of(case)
        cfgs = case["pool"] + (case.get("extras") or [])
        for op, st in zip(ops, run["hist"]):
            if op[0] == "new":
                lops.append({"new": op[1]})
                continue
            src = None
            if "skip" in st["out"]:
                src = {"files": []}
            elif op[0] == "file":
                if op[2] not in case["files"]:
                    return None
                sp = cfgs[op[1]].get("search_path")
                src = {"main": names.index(op[2]), "sp": None if sp is None else [dno[d] for d in sp],
                       "inpOf": [index.get((op[1], case["files"][f])) for f in names]}
            else:
                try:
                    src = {"files": [index[(op[1], op[2])]]}
                except KeyError:
                    return None
            ph = phase_of(st["out"])
            fin = {"ok": "ok", "parse": "ok", "skip": "ok", "init": "init", "objproc": "objproc",
                   "modelproc": "modelproc"}.get(ph, "resolve")
            # a failing user __init__: the machine reports the counts up to model j; which model it was is not
            # observable from outside, so ask for all of them and compare a prefix
            lops.append(dict(src, load=op[1], buildFail=False, fin=fin, j=len(names) + 1))
        return lops

    def model_req(self, case, obs):
        if "runs" not in obs or not obs["runs"] or "crash" in obs["runs"][0]:
            return None
        pd = obs["runs"][0].get("lean") or {}
        if "nodes" not in pd:
            return None
        npool = len(case["pool"])
        cfgs = list(case["pool"]) + list(case.get("extras") or [])
        if any(pd["mms"][k] is None for k in range(npool)):
            return None  # a pool metamodel whose creation failed is outside the machine
        mms = []
        for k, m in enumerate(pd["mms"]):
            mms.append(None if m is None else {
                # the flag the metamodel was *configured* with: a parser that memoizes against its configuration
                # (e.g. because it inherited the flag of a cached grammar parser) shows up in the number of stores
                "top": m["top"], "comments": m["comments"], "memo": bool(cfgs[k]["opts"].get("memoization", False)),
                "skipws": m["skipws"], "ws": m["ws"],
                "debug": bool(cfgs[k]["opts"].get("debug", False)), "user": m["user"]})
        inps, index = [], {}
        for k, lst in pd["toks"].items():
            own = len(pd["mms"][int(k)]["own"])
            for text, rows in lst:
                index[(int(k), text)] = len(inps)
                inps.append({"input": text, "toks": rows, "fuel": min(20000, 60 + 8 * (len(text) + 2) * (own + 2))})
        hists, idx = [], []
        for h, (ops, run) in enumerate(zip(case["histories"], obs["runs"])):
            if "crash" in run or run.get("lean", {}).get("nnodes") != len(pd["nodes"]):
                continue  # node numbering of this history is not the canonical one (a creation failed)
            lops = self.lean_ops(case, ops, run, index)
            if lops is not None:
                hists.append(lops)
                idx.append(h)
        obs["_lean_idx"] = idx
        if not hists:
            return None
        return {"op": "case", "nodes": pd["nodes"], "mms": mms, "inps": inps, "fsys": self.fsys_of(case)[2], "hists": hists}

    def compare(self, case, obs, out):
        if "runs" not in out:
            return f"model rejected the request: {str(out)[:200]}"
        npool = len(case["pool"])
        cfgs = list(case["pool"]) + list(case.get("extras") or [])
        for k, m in enumerate((obs["runs"][0].get("lean") or {}).get("mms") or []):
            if m is not None and bool(m["memo"]) != bool(cfgs[k]["opts"].get("memoization", False)):
                return (f"mm{k}: the parser blueprint has memoization={m['memo']}, the metamodel was configured with "
                        f"memoization={bool(cfgs[k]['opts'].get('memoization', False))}")
        names = self.fsys_of(case)[0]
        for h, ans in zip(obs.get("_lean_idx", []), out["runs"]):
            ops, run = case["histories"][h], obs["runs"][h]
            if "outs" not in ans:
                return f"history {h}: model rejected the request: {str(ans)[:200]}"
            louts, lhid = ans["outs"][npool:], ans["hid"][npool:]
            # state "pool created"
            d = self.hid_diff(obs["hid0"], ans["hid"][npool - 1], case, None)
            if d:
                return f"history {h}, state after pool creation: {d}"
            for i, (op, st) in enumerate(zip(ops, run["hist"])):
                where = f"history {h} op {i} {self.op_view(op) if op[0] != 'new' else '[new mm%d]' % op[1]}"
                d = self.hid_diff(st["hid"], lhid[i], case, st)
                if d:
                    return f"{where}: surviving state differs: {d}"
                if op[0] == "new":
                    continue
                d = self.out_diff(st, louts[i], run["lean"]["trees"][i]) or self.order_diff(st["out"], louts[i], names)
                if d:
                    return f"{where}: {d}"
            # the machine run by the driver (`realWalk`) is the machine of the history theorems only under this premise
            if ans.get("walkOK") is not True:
                return (f"history {h}: a repetition reachable from a parser model has a separator that is not a Match object "
                        f"(walkOK = {ans.get('walkOK')}): Arpeggio's cache walk does not follow `sep`, the premise of C16_walk_run fails")
        return None

    @staticmethod
    def order_diff(out, lo, names):
        """files parsed by a model_from_file: the implementation's repository (insertion order = parse order)
        against `History.loadOrder` (importer's directory first, then the provider's search path)"""
        if "order" not in lo:
            return None
        want = [names[i] for i in lo["order"]]
        if "ok" in out and "order" in out["ok"]:
            if not lo["found"] or out["ok"]["order"] != want:
                return (f"files parsed: implementation {out['ok']['order']}, model {want}"
                        + ("" if lo["found"] else " then an import that is not found"))
        elif out.get("other") in ("FileNotFoundError", "OSError", "IOError") and lo["found"]:
            return f"implementation does not find an import ({out.get('msg')}), the model finds every file: {want}"
        return None

    @staticmethod
    def out_diff(st, lo, tree):
        out = st["out"]
        ph = phase_of(out)
        clone = st["hid"].get("clone")
        if ph == "skip":
            return None if lo["phase"] == "skip" else f"implementation skipped, model phase {lo['phase']}"
        if ph == "other":
            return None  # RecursionError / timeout of the implementation: nothing to compare
        parses = lo["parses"]
        if any(p.get("err") == "fuel" for p in parses):
            return None
        if ph == "parse":
            if lo["phase"] != "parse":
                return f"implementation reports a syntax error, model phase {lo['phase']}"
            if clone and clone.get("nm_pos") is not None and parses[-1].get("nomatch") != clone["nm_pos"]:
                return f"syntax error position: implementation {clone['nm_pos']}, model {parses[-1]}"
            if clone and clone.get("misses") is not None and clone["misses"] != lo["stores"][-1]:
                return f"memo cache stores of the failing parse: implementation {clone['misses']}, model {lo['stores'][-1]}"
            return None
        if lo["phase"] == "parse":
            return f"model reports a syntax error in file {lo.get('i')}, implementation outcome {ph}"
        if tree is not None and parses and parses[0].get("ok") != tree:
            return f"parse tree differs: implementation {str(tree)[:200]} model {str(parses[0])[:200]}"
        if ph == "ok" and clone and clone.get("misses") is not None and clone["misses"] != lo["stores"][0]:
            return f"memo cache stores: implementation {clone['misses']}, model {lo['stores'][0]}"
        real_seq = [(e[4] or 0) for e in out.get("log", []) if e[0] == "init"]
        if ph == "ok" and real_seq != lo["initSeq"]:
            return f"instrumentation counts seen by __init__: implementation {real_seq}, model {lo['initSeq']}"
        if ph != "ok" and real_seq != lo["initSeq"][:len(real_seq)]:
            return f"instrumentation counts seen by __init__ (failing load): implementation {real_seq}, model {lo['initSeq']}"
        return None

    @staticmethod
    def hid_diff(real, lean, case, st):
        if real["cache"] != lean["cache"]:
            return f"memo cache entries at rest: implementation {real['cache']}, model {lean['cache']}"
        for k, (rb, lb) in enumerate(zip(real["bp"], lean["bp"])):
            if rb != lb:
                return f"blueprint containers of mm{k}: implementation {rb}, model {lb}"
        for k, row in enumerate(real["cls"]):
            for name, instr, reals, nattrs, dunders in row:
                if (instr or 0) != lean["instr"][k]:
                    return f"_tx_instrumented of {name} (mm{k}): implementation {instr}, model {lean['instr'][k]}"
                if lean["instr"][k] == 0 and (reals or dunders):
                    return f"class {name} (mm{k}) keeps instrumentation leftovers {reals} {dunders}"
            tot = sum((r[3] or 0) for r in row)
            if row and tot != lean["attrs"][k]:
                return f"_tx_obj_attrs entries (mm{k}): implementation {tot}, model {lean['attrs'][k]}"
        if sorted(map(list, real["gp"])) != sorted(map(list, lean["gp"])):
            return f"grammar parser cache: implementation {real['gp']}, model {lean['gp']}"
        if real["base_owner"] != lean["owner"]:
            return f"owner of the shared base-type rules: implementation mm{real['base_owner']}, model mm{lean['owner']}"
        c = real.get("clone")
        if c and (c["alias"] or c["is_bp"]):
            return f"the parser clone shares {c['alias']} with the blueprint (is blueprint: {c['is_bp']}); the model's clone shares nothing"
        return None

    def _note_inconclusive(self, why):
        self._inconclusive = getattr(self, "_inconclusive", 0) + 1
        if self._inconclusive > max(3, self.MAX_INCONCLUSIVE * max(getattr(self, "_seen", 0), self.QUICK_CASES)):
            raise InfraError(f"{self._inconclusive} cases / histories did not finish (last: {why}); "
                             "machine overloaded? no verdict")

    # ---- direct oracle -----------------------------------------------------------------
    def oracle(self, case, obs):
        self._seen = getattr(self, "_seen", 0) + 1
        if "inconclusive" in obs:
            self._note_inconclusive(obs["inconclusive"])
            return None
        npool = len(case["pool"])
        solo_fp = obs.get("solo_fp") or {}
        drift = None
        # the pool itself is a history of creations: each metamodel must be what it is when created alone
        d = self.fp_drift(obs.get("hid0") or {}, solo_fp, {})
        if d:
            drift = f"after creating the pool {['mm%d' % k for k in range(npool)]}: {d}"
        for h, (ops, run) in enumerate(zip(case["histories"], obs["runs"])):
            if "crash" in run:
                self._note_inconclusive("history process: " + str(run["crash"])[:200])
                continue  # the forked history process died (memory / signal): nothing to compare
            last = dict((obs.get("hid0") or {}).get("fp_full") or {})
            for i, (op, st) in enumerate(zip(ops, run["hist"])):
                out = st["out"]
                if drift is None:
                    d = self.fp_drift(st["hid"], solo_fp, last)
                    if d:
                        what = f"[new mm{op[1]}]" if op[0] == "new" else self.op_view(op)
                        drift = f"history {h} op {i} {what} after {self.prefix(ops, i)}: {d}"
                if op[0] == "new":
                    solo = obs["mm_solo"].get(str(op[1]), "absent")
                    if solo != "absent" and (out["err"] != solo):
                        return (f"history {h} op {i}: creating metamodel {op[1]} after {self.prefix(ops, i)} gives "
                                f"{str(out['err'])[:160]}, alone on a fresh process state {str(solo)[:160]}")
                    continue
                if "skip" in out or out.get("other") == "Timeout":
                    continue  # a time-out is an infrastructure matter, never evidence about the property
                key = op_key(op)
                for name, ref in (("a fresh state with only this metamodel", obs["r2"].get(key)),
                                  ("the pool-created state", obs["r1"].get(key) if op[1] < npool else None),
                                  ("a new interpreter with only this metamodel", obs.get("r3", {}).get(key))):
                    if ref is None or ref.get("other") == "Timeout" or "crash" in ref:
                        continue
                    if ref != out:
                        return (f"history {h} op {i} {self.op_view(op)} after {self.prefix(ops, i)}: "
                                f"{self.diff(out, ref)} (reference: {name})")
        # no load differs: a metamodel that is not what its configuration gives when created alone is reported
        # on its own (the loads of the case just did not show it)
        return drift

    @staticmethod
    def fp_drift(hid, solo_fp, last):
        """the configuration of every existing metamodel (parser options, compiled parser model incl. the
        regular expressions of the shared base-type rules, class table) equals the one of the same
        configuration created alone on a fresh process state — after every operation"""
        last.update(hid.get("fp_full") or {})
        for k, fid in enumerate(hid.get("fp") or []):
            ref = solo_fp.get(str(k))
            if fid is None or ref is None or fid == ref["id"]:
                continue
            cur = last.get(str(k)) or {}
            parts = []
            for sec in ("flags", "regex", "parser", "classes"):
                a, b = cur.get(sec), ref.get(sec)
                if a != b:
                    if isinstance(a, dict) and isinstance(b, dict):
                        ks = sorted(x for x in set(a) | set(b) if a.get(x) != b.get(x))[:4]
                        parts.append(f"{sec} " + ", ".join(f"{x}: {a.get(x)!r} (fresh: {b.get(x)!r})" for x in ks))
                    else:
                        parts.append(f"{sec} differ")
            return (f"metamodel mm{k} is not the metamodel its configuration gives on a fresh process state: "
                    + ("; ".join(parts) or f"fingerprint {fid} vs {ref['id']}"))
        return None

    @staticmethod
    def op_view(op):
        return f"[{op[0]} mm{op[1]} {str(op[2])[:50]!r}]"

    @staticmethod
    def prefix(ops, i):
        return "[" + ", ".join(f"{o[0]} mm{o[1]}" for o in ops[:i]) + "]"

    @staticmethod
    def diff(a, b):
        sa, sb = json.dumps(a, sort_keys=True), json.dumps(b, sort_keys=True)
        k = 0
        while k < min(len(sa), len(sb)) and sa[k] == sb[k]:
            k += 1
        lo = max(0, k - 60)

        def brief(o):
            if "ok" in o:
                return "a model"
            if "err" in o:
                return f"{o['err']['cls']} {o['err'].get('file')}:{o['err'].get('line')}:{o['err'].get('col')} {o['err']['msg'][:60]!r}"
            return f"{o.get('other')} {str(o.get('msg'))[:60]!r}"

        return (f"the history gives {brief(a)}, the fresh state {brief(b)}; first difference: "
                f"in history …{sa[lo:k + 90]}… but fresh …{sb[lo:k + 90]}…")

    def nontrivial(self, case, obs):
        if "runs" not in obs:
            return False
        for ops, run in zip(case["histories"], obs["runs"]):
            seen_fail, seen_mm = set(), set()
            for op, st in zip(ops, run.get("hist", [])):
                if op[0] == "new":
                    continue
                out = st["out"]
                if "ok" in out and (op[1] in seen_fail or (seen_mm - {op[1]})):
                    return True
                seen_mm.add(op[1])
                if "ok" not in out and "skip" not in out:
                    seen_fail.add(op[1])
        return False

    def shrink(self, case):
        hs = case["histories"]
        if len(hs) > 1:
            for h in hs:
                yield dict(case, histories=[h])
            return
        ops = hs[0]
        for i in range(len(ops)):
            cand = ops[:i] + ops[i + 1:]
            if any(o[0] != "new" for o in cand):
                yield dict(case, histories=[cand])

    def sample_view(self, case, obs):
        v = {"pool": [dict(kind=c.get("kind"), opts=c["opts"], classes=c.get("classes"), objprocs=c.get("objprocs"),
                           modelprocs=c.get("modelprocs"), scope=c.get("scope")) for c in case["pool"]],
             "histories": [[[o[0], o[1]] + ([str(o[2])[:40]] if len(o) > 2 else []) for o in ops]
                           for ops in case["histories"][:2]]}
        if "runs" in obs:
            v["outcomes"] = [[phase_of(st["out"]) if "created" not in st["out"] else "new" for st in run.get("hist", [])]
                             for run in obs["runs"][:2]]
        return v

    def extra_evidence(self, cases, obs, outs):
        from collections import Counter

        ph, kinds = Counter(), Counter()
        hist = ops = compared_r1 = compared_r2 = lean_h = memo_loads = multi = after_fail = 0
        sp_loads = sp_dirs2 = fp_cmp = mixed_ic = same_paths = shared_lists = 0
        for c, o, m in zip(cases, obs, outs):
            allc = c["pool"] + c.get("extras", [])
            for cfg in allc:
                kinds[cfg.get("kind")] += 1
            mixed_ic += len({bool(x["opts"].get("ignore_case")) for x in allc}) == 2
            gm = [x["gmain"] for x in allc if x.get("gmain")]
            same_paths += len(gm) != len(set(gm))
            sh = [x["sp_share"] for x in allc if x.get("sp_share")]
            shared_lists += len(sh) != len(set(sh))
            if "runs" not in o:
                continue
            lean_h += len(m.get("runs", [])) if isinstance(m, dict) else 0
            npool = len(c["pool"])
            for hops, run in zip(c["histories"], o["runs"]):
                hist += 1
                failed = set()
                dirs_seen = {}
                for op, st in zip(hops, run.get("hist", [])):
                    ops += 1
                    fp_cmp += sum(1 for x in (st["hid"].get("fp") or []) if x is not None)
                    if op[0] == "file" and allc[op[1]].get("search_path") is not None:
                        sp_loads += 1
                        ds = dirs_seen.setdefault(allc[op[1]].get("sp_share") or op[1], set())
                        sp_dirs2 += bool(ds - {os.path.dirname(op[2])})
                        ds.add(os.path.dirname(op[2]))
                    if op[0] == "new":
                        ph["new"] += 1
                        continue
                    p = phase_of(st["out"])
                    ph[p] += 1
                    k = op_key(op)
                    compared_r1 += (k in o["r1"]) and op[1] < npool
                    compared_r2 += k in o["r2"]
                    cl = st["hid"].get("clone") or {}
                    memo_loads += bool(cl.get("misses"))
                    multi += op[0] == "file"
                    if p == "ok" and op[1] in failed:
                        after_fail += 1
                    if p not in ("ok", "skip"):
                        failed.add(op[1])
        return {"inconclusive": getattr(self, "_inconclusive", 0), "histories": hist, "operations": ops, "outcome_phases": dict(ph), "metamodel_kinds": dict(kinds),
                "compared_with_pool_state_reference": compared_r1, "compared_with_solo_reference": compared_r2,
                "histories_replayed_by_lean": lean_h, "loads_with_memo_cache_stores": memo_loads,
                "file_loads": multi, "successful_loads_after_a_failed_load_of_the_same_metamodel": after_fail,
                "file_loads_through_a_search_path": sp_loads,
                "of_these_after_a_load_from_another_directory_through_the_same_list": sp_dirs2,
                "metamodel_fingerprints_compared_with_solo_creation": fp_cmp,
                "cases_mixing_ignore_case_and_case_sensitive_metamodels": mixed_ic,
                "cases_with_metamodels_compiled_from_the_same_grammar_paths": same_paths,
                "cases_with_providers_sharing_a_search_path_list": shared_lists}

    def extra_search(self, rng, tier, broken):
        return [gen_case(rng.fork(i), tier) for i in range(40 if tier == "quick" else 200)]
