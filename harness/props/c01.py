"""C01 — compiled parser and model follow the grammar's PEG semantics.

One case = a generated grammar AST (harness/gen_grammar.py), metamodel options
(skipws, ws, auto_init_attributes, use_regexp_group) and a few texts (derived
from the grammar, and mutated).

Implementation side: the grammar is rendered to textX grammar text,
`metamodel_from_str(grammar, **cfg)` is built and every text is loaded with
`model_from_str`; observed are the compiled Arpeggio parser model (dumped as a
node table), the metamodel skeleton (rule kinds, attributes with class /
multiplicity / cont / ref) and, per text, the outcome: syntax error, semantic
error, or the model's object graph (classes, attribute values, defaults,
containment / parent links).

Lean side (Drivers/Tx.lean), from the *grammar AST* (not from the real parser):
  * `Tx.compile` (mirror of TextXVisitor)  -> node table + skeleton      [tie: op compile]
  * `Peg.parse` on that table + `Tx.build` (mirror of model.py)          [tie: op load]
  * `Tx.Sem.eval`: the documented PEG semantics on the grammar AST       [direct oracle]
Token matching (string comparison, re.match) is an input table computed here
with Python's `re`, per text.
"""
import re

from harness.core import Check, Rng, canon, run_driver, use_repo
from harness import gen_grammar as G
from harness import peg
from harness.txutil import outcome

BASE_TOKS = ["ID", "BOOL", "INT", "FLOAT", "STRICTFLOAT", "STRING"]
CFGS = [
    {}, {}, {}, {"skipws": False}, {"ws": " "}, {"ws": " \t\n"}, {"auto_init_attributes": False},
    {"auto_init_attributes": False}, {"use_regexp_group": True}, {"use_regexp_group": True, "auto_init_attributes": False},
    {"ws": "\n", "skipws": True},
]


# --------------------------------------------------------------------------
# grammar AST -> Lean request
# --------------------------------------------------------------------------
class Unsupported(Exception):
    pass


def to_lean(g):
    """gen_grammar AST -> (Lean `Gram` JSON, token definitions [(kind, text)])."""
    toks = [("base", n) for n in BASE_TOKS]
    index = {}

    def tok(kind, text):
        key = (kind, text)
        if key not in index:
            index[key] = len(toks)
            toks.append(key)
        return index[key]

    def sep(s):
        if s is None:
            return None
        if s["k"] not in ("str", "re"):
            raise Unsupported("separator")
        return {"re": s["k"] == "re", "tok": tok(s["k"], s["v"]), "v": s["v"]}

    def ex(e):
        k = e["k"]
        d = {"k": k}
        if e.get("sup"):
            d["sup"] = True
        if k in ("str", "re"):
            d["tok"] = tok(k, e["v"])
            d["v"] = e["v"]
        elif k == "ref":
            d["name"] = e["name"]
        elif k in ("seq", "alt"):
            d["xs"] = [ex(x) for x in e["xs"]]
        elif k == "rep":
            if e["op"] == "#":
                x = e["x"]
                if x["k"] in ("seq", "alt"):
                    # `(a b)#` / `(a | b)#`: the elements of the group; a suppressed group cannot be written as operand
                    if x.get("sup") or len(x["xs"]) < 2:
                        raise Unsupported("# operand")
                    xs = x["xs"]
                else:
                    xs = [x]          # any other operand is the only element of the group
                d = {"k": "unord", "xs": [ex(y) for y in xs], "sep": sep(e.get("sep")), "eol": bool(e.get("eol"))}
                if e.get("sup"):
                    d["sup"] = True
            else:
                d.update(op=e["op"], x=ex(e["x"]), sep=sep(e.get("sep")), eol=bool(e.get("eol")))
        elif k == "asgn":
            d.update(attr=e["attr"], op=e["op"], rhs=ex(e["rhs"]), sep=sep(e.get("sep")), eol=bool(e.get("eol")))
        elif k == "pred":
            d.update(neg=bool(e["neg"]), x=ex(e["x"]))
        else:
            raise Unsupported(k)
        return d

    rules = []
    for r in g["rules"]:
        p = r.get("params", {})
        rules.append({"name": r["name"], "skipws": p.get("skipws"), "ws": p.get("ws"), "body": ex(r["body"])})
    if g.get("comment"):
        rules.append({"name": "Comment", "skipws": None, "ws": None, "body": ex({"k": "re", "v": g["comment"]})})
    return {"rules": rules}, toks


def lean_cfg(cfg):
    return {"skipws": cfg.get("skipws", True), "ws": cfg.get("ws") if cfg.get("ws") is not None else "\t\n\r ",
            "auto_init": cfg.get("auto_init_attributes", True), "use_regexp_group": cfg.get("use_regexp_group", False)}


_RE_CACHE = {}


def tok_regex(kind, text):
    use_repo()
    key = (kind, text)
    if key not in _RE_CACHE:
        if kind == "base":
            import textx.lang as L

            _RE_CACHE[key] = getattr(L, text).regex
        elif kind == "re":
            _RE_CACHE[key] = re.compile(text, re.MULTILINE)  # arpeggio.RegExMatch default flags
        else:
            _RE_CACHE[key] = None
    return _RE_CACHE[key]


def tok_rows(toks, text):
    """rows[t][pos] = matched length or -1; groups[t] = number of regex groups;
    g1[t][pos] = [start, len] of group 1 (or null) for regexes with exactly one group."""
    n = len(text)
    rows, groups, g1 = [], [], []
    for kind, t in toks:
        rx = tok_regex(kind, t)
        if rx is None:
            rows.append([len(t) if text.startswith(t, p) else -1 for p in range(n + 1)])
            groups.append(0)
            g1.append([])
            continue
        row, grow = [], []
        for p in range(n + 1):
            m = rx.match(text, p)
            row.append(len(m.group()) if m else -1)
            if rx.groups == 1:
                if m and m.group(1) is not None:
                    grow.append([m.start(1), len(m.group(1))])
                else:
                    grow.append(None)
        rows.append(row)
        groups.append(rx.groups)
        g1.append(grow if rx.groups == 1 else [])
    return rows, groups, g1


# --------------------------------------------------------------------------
# generation
# --------------------------------------------------------------------------
class Gen(G.GrammarGen):
    """gen_grammar's generator, biased towards containment (assignments whose right-hand side is a rule)."""

    def asgn(self, later, attrs, inrep=False):
        e = super().asgn(later, attrs, inrep)
        commons = [n for n in later if self.kinds.get(n) != "match"]
        if commons and e["rhs"]["k"] != "ref" and self.rng.chance(0.6):
            e["rhs"] = {"k": "ref", "name": self.rng.choice(commons)}
        return e

    def common_body(self, later, depth):
        return super().common_body(later, self.rng.choice([1, 2, 2, 3]))

    def match_body(self, later, depth):
        return super().match_body(later, self.rng.choice([1, 2]) if depth > 1 else depth)


# --------------------------------------------------------------------------
# lexemes of the base types (X01)
# --------------------------------------------------------------------------
# gen_grammar's Deriver spells a base-type token from a pool of 4-6 fixed samples per type (STRING: "s" 't' "" "a b"
# 'q\'r').  The property is about the *values* the model gets, so the lexemes are generated here from the lexical
# grammar of each base type (textx/lang.py): every optional part present / absent, every alternative, each at the
# start / in the middle / at the end of the lexeme.
def lex_digits(r):
    return r.choice(["0", "7", "00", "007", "10", "42", "100", "9007199254740993"])


def lex_int(r):
    """[-+]?[0-9]+  -- sign absent / - / +, leading zeros, zero, beyond 2**53"""
    return r.choice(["", "", "-", "+"]) + lex_digits(r)


def lex_exp(r):
    return r.choice(["e", "E"]) + r.choice(["", "+", "-"]) + r.choice(["0", "1", "2", "03", "10"])


def lex_float(r, strict=False):
    r"""[+-]?(\d+(\.\d*)?|\.\d+)([eE][+-]?\d+)?  (STRICTFLOAT: a dot or an exponent is there); exponents stay small"""
    sign = r.choice(["", "", "-", "+"])
    shape = r.choice(["d.", "d.d", ".d", "d.de", ".de", "d.e", "de"] + ([] if strict else ["d", "d"]))
    small = ["0", "1", "5", "00", "12", "250", "007"]
    out = ""
    for c in shape:
        out += r.choice(small) if c == "d" else ("." if c == "." else lex_exp(r))
    return sign + out


STRING_PLAIN = ["a", "b c", "x", " ", "1", "Q", ",", ";", "#", "//", "->", "\t", "t"]


def lex_string(r):
    r"""("(\\"|[^"])*")|('(\\'|[^'])*')  -- content = pieces: plain characters, the escaped delimiter, the other quote
    (bare and after a backslash, where the backslash is literal), a backslash before an ordinary character, two
    backslashes; the piece kinds are drawn independently, so each of them is first / inner / last / only piece."""
    q = r.choice(['"', "'"])
    o = "'" if q == '"' else '"'
    n = r.choice([0, 1, 1, 2, 2, 3, 4])
    pieces = []
    for _ in range(n):
        kind = r.weighted([("plain", 5), ("escq", 4), ("other", 2), ("escother", 1), ("bsl", 1), ("bslbsl", 1)])
        pieces.append({"plain": None, "escq": "\\" + q, "other": o, "escother": "\\" + o,
                       "bsl": "\\" + r.choice(["n", "t", "a"]), "bslbsl": "\\\\"}[kind] or r.choice(STRING_PLAIN))
    body = "".join(pieces)
    if body.endswith("\\") and not body.endswith("\\\\"):      # a lone backslash would take the closing quote with it
        body += "z"
    return q + body + q


LEXEMES = {
    "INT": lex_int,
    "FLOAT": lex_float,
    "NUMBER": lambda r: lex_int(r) if r.chance(0.4) else lex_float(r, strict=True),
    "STRING": lex_string,
    "BOOL": lambda r: r.choice(["true", "false", "True", "False", "0", "1"]),
    "ID": lambda r: r.choice(["_", "_1", "a1", "Ab_c", "x", "if", "end", "true", "no", "ab", "a", "kw9", "A", "__x__"]),
}


class Deriver(G.Deriver):
    """gen_grammar's deriver, but when the fuel is used up (recursive grammars) the derivation is finished with the
    shortest alternatives instead of a filler token, so that derived sentences stay sentences of the grammar."""

    INF = 10 ** 6

    def __init__(self, g, rng):
        super().__init__(g, rng)
        # own stream for the spelling of base-type tokens: the derivations, layouts and mutations stay what they were
        self.lex = Rng("lex:%d" % rng.s)
        self.min = {n: self.INF for n in self.rules}
        for _ in range(len(self.rules) + 2):
            for n, r in self.rules.items():
                self.min[n] = min(self.INF, self.ml(r["body"]))

    def ml(self, e):
        k = e["k"]
        if k in ("str", "re", "link"):
            return 1
        if k == "ref":
            return self.min.get(e["name"], 1)
        if k == "seq":
            return sum(self.ml(x) for x in e["xs"])
        if k == "alt":
            return min(self.ml(x) for x in e["xs"])
        if k == "pred":
            return 0
        x = e["x"] if k == "rep" else e["rhs"]
        if e["op"] in ("?", "*", "?=", "*="):
            return 0
        return self.ml(x)

    def d(self, e, depth):
        k = e["k"]
        low = self.fuel < 0 or depth > 4
        if k == "ref" and e["name"] in LEXEMES and e["name"] not in self.rules:
            old = super().d(e, depth)          # pool sample (same draws as before)
            return [LEXEMES[e["name"]](self.lex)] if self.lex.chance(0.6) else old
        if k == "ref" and e["name"] in self.rules:
            self.fuel -= 1
            if depth > 12 or (low and self.min[e["name"]] >= self.INF):
                return ["a"]          # the rule has no finite sentence
            return self.d(self.rules[e["name"]]["body"], depth + 1)
        if low and k == "alt":
            return self.d(min(e["xs"], key=self.ml), depth)
        if k == "rep" and e["op"] == "#" and e["x"]["k"] not in ("seq", "alt"):
            return self.d(e["x"], depth)          # one-element group
        if low and k in ("rep", "asgn") and e["op"] in ("?", "*", "?=", "*="):
            return []
        if low and k in ("rep", "asgn") and e["op"] in ("+", "+="):
            return self.d(e["x"] if k == "rep" else e["rhs"], depth)
        return super().d(e, depth)


def sentences(g, rng, n_derived, n_mutated):
    d = Deriver(g, rng)
    out = []
    for i in range(n_derived):
        toks = d.tokens(fuel=rng.choice([6, 15, 40]))
        out.append(G.layout(toks, rng, g.get("comment"), style="space" if i % 2 == 0 else None))
    for _ in range(n_mutated):
        out.append(G.layout(G.mutate(d.tokens(fuel=15), rng), rng, g.get("comment")))
    return [t for t in out if len(t) <= 240] or [""]


NULLABLE_RE = {r"q?"}

# `ws='...'` values that mix escape sequences with characters given literally (visit_rule_params keeps both since
# "fix: a ws rule modifier written with an escape sequence no longer drops the characters given literally");
# no quote and no literal backslash (it would start an escape sequence)
MIXED_WS = [" \\t,", "\\n\t", "\\t ;", "\\r\\n~", ",\\n ", "\t\\n", " \\n\\t\r", "\\t.", ".\\n\\n", "\\r:", "~ \\t\\n"]


def mix_ws(g, rng):
    """Rewrite about half of the `ws=` modifiers (and give a few rules without modifiers one) as a mixed spelling;
    returns the grammar and the literal characters that became whitespace somewhere."""
    rules, lits = [], set()
    for rule in g["rules"]:
        p = rule.get("params") or {}
        if ("ws" in p and rng.chance(0.5)) or (not p and rng.chance(0.05)):
            v = rng.choice(MIXED_WS)
            rule = dict(rule, params=dict(p, ws=v))
            lits.update(c for c in re.sub(r"\\[nrt]| ", "", v) if c not in "\\")
        rules.append(rule)
    return dict(g, rules=rules), sorted(lits)


def sprinkle(texts, lits, rng):
    """one more text: a derived text with one of the literal whitespace characters put into a gap"""
    cands = [t for t in texts if " " in t]
    if not lits or not cands:
        return texts
    t = rng.choice(cands)
    gaps = [i for i, c in enumerate(t) if c == " "]
    i = rng.choice(gaps)
    return texts + [t[:i + 1] + rng.choice(lits) + t[i + 1:]]


def unord_elems(e):
    """elements of the unordered group `x#`"""
    x = e["x"]
    return x["xs"] if x["k"] in ("seq", "alt") and not x.get("sup") else [x]


def single_unord(g, rng):
    """`#` applied to a single element (assignment, match, reference, repetition): the generator of
    gen_grammar only writes `#` after groups of >= 2 elements; one in three of them loses all but its first element."""
    import copy

    g = copy.deepcopy(g)

    def walk(e):
        if isinstance(e, dict):
            if e.get("k") == "rep" and e.get("op") == "#" and e["x"]["k"] == "seq" and not e["x"].get("sup") and rng.chance(0.33):
                e["x"] = e["x"]["xs"][0]
            for v in list(e.values()):
                walk(v)
        elif isinstance(e, list):
            for v in e:
                walk(v)

    for r in g["rules"]:
        walk(r["body"])
    return g


# string matches whose text contains a quote or a backslash (X01): gen_grammar's KEYWORDS contain neither, so the
# unquoting / unescaping of a grammar string match (visit_str_match: `[1:-1]` + decode_escapes) was only ever applied
# to texts it leaves unchanged.  Both quotes, a backslash, each first / inner / last character of the literal.
# (no backslash at the end of a literal or before a quote: the grammar language reads backslash-quote after any backslash as an
# escaped quote, so a literal ending in a backslash swallows what follows up to the next quote and cannot be rendered
# reliably -- see notes, X01)
QUOTED_LITS = ["'", '"', "it's", "'a", "b'", 'a"', '"b', "''", "\\n", "a\\\\b", "'\"", "a'b\"c"]


def quote_lits(g, rng):
    """one in ~10 string matches (separators included) becomes a literal with a quote / backslash in it"""
    import copy

    g = copy.deepcopy(g)

    def walk(e):
        if isinstance(e, dict):
            if e.get("k") == "str" and rng.chance(0.1):
                e["v"] = rng.choice(QUOTED_LITS)
            for v in list(e.values()):
                walk(v)
        elif isinstance(e, list):
            for v in e:
                walk(v)

    for r in g["rules"]:
        walk(r["body"])
    return g


def falsy(e, fr):
    """generator-side copy of Tx.falsy (Doc.lean); the authoritative DocFragment flag comes from the Lean driver"""
    if e.get("sup"):
        return True
    k = e["k"]
    if k == "str":
        return e["v"] == ""
    if k == "re":
        return e["v"] in NULLABLE_RE
    if k == "ref":
        return e["name"] in fr
    if k == "seq":
        return all(falsy(x, fr) for x in e["xs"])
    if k == "alt":
        return any(falsy(x, fr) for x in e["xs"])
    if k == "rep":
        if e["op"] == "+":
            return falsy(e["x"], fr)
        if e["op"] == "#":
            return all(falsy(x, fr) for x in unord_elems(e))
        return True
    if k == "asgn":
        return falsy(e["rhs"], fr) if e["op"] in ("=", "+=") else True
    return True


def falsy_rules(g):
    fr = set()
    for _ in range(len(g["rules"]) + 1):
        fr = {r["name"] for r in g["rules"] if falsy(r["body"], fr)}
    return fr


def make_productive(g, rng):
    """Guard every falsy alternative / repetition body / unordered element with a literal (in place of the
    generator's choice), so that the grammar falls into DocFragment."""
    import copy

    g = copy.deepcopy(g)
    for _ in range(3):
        fr = falsy_rules(g)

        def guard(x):
            if not falsy(x, fr):
                return x
            if x.get("sup") and x["k"] in ("str", "re", "ref"):
                x = dict(x)
                x.pop("sup")
                if not falsy(x, fr):
                    return x
            return {"k": "seq", "xs": [G.lit(rng), x]}

        def fix(e):
            k = e["k"]
            if k in ("seq", "alt"):
                e["xs"] = [fix(x) for x in e["xs"]]
                if k == "alt":
                    e["xs"] = [guard(x) for x in e["xs"]]
            elif k == "rep":
                e["x"] = fix(e["x"])
                if e["op"] in "*+?":
                    e["x"] = guard(e["x"])
                elif e["op"] == "#":
                    xs = []
                    for x in unord_elems(e):
                        opt = (x["k"] == "rep" and x["op"] == "?" and not x.get("sup") and not falsy(x["x"], fr)) or \
                              (x["k"] == "asgn" and x["op"] == "?=" and not falsy(x["rhs"], fr))
                        xs.append(x if opt else guard(x))
                    if e["x"]["k"] in ("seq", "alt") and not e["x"].get("sup"):
                        e["x"]["xs"] = xs
                    else:
                        e["x"] = xs[0]      # a guarded single element becomes the group `(lit x)#`
            elif k == "asgn":
                if e["op"] in ("+=", "*=", "?=") and falsy(e["rhs"], fr):
                    e["rhs"] = {"k": "ref", "name": "INT"}
            elif k == "pred":
                e["x"] = fix(e["x"])
            return e

        for r in g["rules"]:
            r["body"] = fix(r["body"])
    return g


def rename_rule(g, old, new):
    """the grammar with rule `old` called `new` everywhere"""
    import copy

    g = copy.deepcopy(g)

    def ren(e):
        if isinstance(e, dict):
            if e.get("k") == "ref" and e.get("name") == old:
                e["name"] = new
            for v in e.values():
                ren(v)
        elif isinstance(e, list):
            for v in e:
                ren(v)

    for r in g["rules"]:
        if r["name"] == old:
            r["name"] = new
        ren(r["body"])
    return g


def list_rhs_rules(g):
    """names of the grammar's own rules that stand on the right-hand side of a `+=` / `*=`"""
    names = {r["name"] for r in g["rules"]}
    out = []

    def walk(e):
        if isinstance(e, dict):
            if e.get("k") == "asgn" and e.get("op") in ("+=", "*=") and e["rhs"].get("k") == "ref" and e["rhs"]["name"] in names:
                out.append(e["rhs"]["name"])
            for v in e.values():
                walk(v)
        elif isinstance(e, list):
            for v in e:
                walk(v)

    for r in g["rules"]:
        walk(r["body"])
    return [n for n in out if n != g["rules"][0]["name"]]


def name_a_rule_sep(g, rng):
    """A grammar rule may be called `sep` (the name Arpeggio gives the separator matches of repeat modifiers):
    its values must not be taken for separators.  Prefers a rule whose values are collected by a list assignment."""
    cands = list_rhs_rules(g) or [r["name"] for r in g["rules"][1:]]
    if not cands:
        return g
    return rename_rule(g, rng.choice(cands), "sep")


def break_grammar(g, rng):
    """malformed stream: one grammar-level error (TextXSemanticError / TextXSyntaxError expected)"""
    import copy

    g = copy.deepcopy(g)
    r = rng.choice(g["rules"])
    c = rng.choice(["unknown", "bool2", "boolrep", "optmods", "plainmods", "boolfirst", "parentattr", "asgnname"])
    if c == "unknown":
        extra = {"k": "ref", "name": "Nowhere"}
    elif c == "boolfirst":      # `?=` first, any other assignment later: rejected since the C02 repair
        extra = {"k": "seq", "xs": [{"k": "asgn", "attr": "zz", "op": "?=", "rhs": G.lit(rng), "sep": None, "eol": False},
                                    {"k": "asgn", "attr": "zz", "op": rng.choice(["=", "+=", "*="]), "rhs": G.lit(rng),
                                     "sep": None, "eol": False}]}
    elif c == "parentattr":     # reserved attribute name
        extra = {"k": "asgn", "attr": "parent", "op": rng.choice(["=", "+=", "?="]), "rhs": G.lit(rng), "sep": None, "eol": False}
    elif c == "asgnname":       # reserved rule-name prefix
        if len(g["rules"]) > 1:
            r = rng.choice(g["rules"][1:])
        return rename_rule(g, r["name"], "__asgn_" + rng.choice(["x", "plain", "list"]))
    elif c == "bool2":
        extra = {"k": "seq", "xs": [{"k": "asgn", "attr": "zz", "op": "=", "rhs": G.lit(rng), "sep": None, "eol": False},
                                    {"k": "asgn", "attr": "zz", "op": "?=", "rhs": G.lit(rng), "sep": None, "eol": False}]}
    elif c == "boolrep":
        extra = {"k": "rep", "op": "+", "x": {"k": "asgn", "attr": "zq", "op": "?=", "rhs": G.lit(rng), "sep": None, "eol": False},
                 "sep": None, "eol": False}
    elif c == "optmods":
        extra = {"k": "rep", "op": "?", "x": G.lit(rng), "sep": {"k": "str", "v": ","}, "eol": False}
    else:
        extra = {"k": "asgn", "attr": "zp", "op": "=", "rhs": G.lit(rng), "sep": {"k": "str", "v": ","}, "eol": False}
    r["body"] = {"k": "seq", "xs": [r["body"], extra]}
    return g



# --------------------------------------------------------------------------
# canonical forms
# --------------------------------------------------------------------------
REP = ("opt", "star", "plus", "unord")


def canon_table(nodes, top, comments):
    """Renumber a node table in the pre-order of harness.peg.dump_parser (kids, then sep; parser model, then
    comments model) and keep the fields textX / Arpeggio read."""
    order, idx = [], {}

    def visit(i):
        if i in idx:
            return idx[i]
        idx[i] = len(order)
        order.append(i)
        nd = nodes[i]
        for c in nd.get("kids") or []:
            visit(c)
        if nd["k"] in REP and nd.get("sep") is not None:
            visit(nd["sep"])
        return idx[i]

    visit(top)
    if comments is not None:
        visit(comments)
    out = []
    for i in order:
        nd = nodes[i]
        k = nd["k"]
        d = {"k": k, "root": bool(nd.get("root")), "rule": nd.get("rule") or "", "sup": bool(nd.get("sup")),
             "kids": [idx[c] for c in (nd.get("kids") or [])]}
        if k in ("seq", "choice"):
            d["ws"] = nd.get("ws")
            d["skipws"] = nd.get("skipws")
        if k in REP:
            d["sep"] = idx[nd["sep"]] if nd.get("sep") is not None else None
            d["eol"] = bool(nd.get("eol"))
        if k in ("str", "re"):
            d["text"] = d["rule"] if (d["root"] and d["rule"] in BASE_TOKS) else nd.get("text", "")
        if d["rule"].startswith("__asgn"):
            d["attr"] = nd.get("attr", "")
        out.append(d)
    return {"nodes": out, "top": idx[top], "comments": None if comments is None else idx[comments]}


def real_compiled(mm, rule_names):
    parser = mm._parser_blueprint
    nodes, top, comments, objs = peg.dump_parser(parser)
    for nd, o in zip(nodes, objs):
        if nd["k"] in ("str", "re"):
            nd["text"] = o.to_match
        if hasattr(o, "_attr_name"):
            nd["attr"] = o._attr_name
    classes = []
    for name in rule_names:
        cls = mm[name]
        classes.append({"name": name, "kind": cls._tx_type,
                        "attrs": [{"name": a.name, "cls": a.cls.__name__, "mult": a.mult, "cont": bool(a.cont),
                                   "ref": bool(a.ref), "bool": bool(a.bool_assignment)} for a in cls._tx_attrs.values()]})
    return {"table": canon_table(nodes, top, comments), "classes": classes}


# --------------------------------------------------------------------------
# model dump (objects, classes, attribute values, containment / parent)
# --------------------------------------------------------------------------
def dump_value(v, container, seen):
    if isinstance(v, list):
        return [dump_value(x, container, seen) for x in v]
    if hasattr(type(v), "_tx_attrs"):
        if id(v) in seen:
            return {"again": type(v).__name__}
        seen.add(id(v))
        d = {"cls": type(v).__name__,
             "parent": (getattr(v, "parent", None) is container) if container is not None else (not hasattr(v, "parent")),
             "attrs": [[name, dump_value(getattr(v, name, None), v, seen)] for name in type(v)._tx_attrs]}
        return d
    if v is None:
        return {"p": "none"}
    if isinstance(v, bool):
        return {"p": "bool", "v": v}
    if isinstance(v, int):
        return {"p": "int", "v": v}
    if isinstance(v, float):
        return {"p": "float", "v": repr(v)}
    if isinstance(v, str):
        return {"p": "str", "v": v}
    return {"p": type(v).__name__, "v": repr(v)[:80]}


class _CpuTimeout(BaseException):
    pass


def cpu_timeout(fn, secs=4):
    """fn() under a limit on the *CPU time* of this process (ITIMER_VIRTUAL): a loaded machine must not turn a slow
    case into a 'hang'.  Returns fn() or {"other": "Timeout"}."""
    import signal

    def h(signum, frame):
        raise _CpuTimeout()

    old = signal.signal(signal.SIGVTALRM, h)
    signal.setitimer(signal.ITIMER_VIRTUAL, secs)
    try:
        return fn()
    except _CpuTimeout:
        return {"other": "Timeout"}
    finally:
        signal.setitimer(signal.ITIMER_VIRTUAL, 0)
        signal.signal(signal.SIGVTALRM, old)


def load(mm, text):
    def f():
        return dump_value(mm.model_from_str(text), None, set())

    o = outcome(f)
    if "err" in o:
        e = o["err"]
        kind = "syntax" if e["cls"] == "TextXSyntaxError" else ("semantic:" + str(e["err_type"]))
        return {"err": kind}
    return o


FIX_ORDER = ["alt", "empty", "rep", "sep", "cache", "ws", "all"]
KF = {"alt": "C01-arpeggio-none-alternative", "empty": "C01-arpeggio-empty-list-alternative", "rep": "C01-arpeggio-falsy-repetition",
      "sep": "C01-arpeggio-separator-kept", "cache": "C01-arpeggio-comment-cache",
      "ws": "C01-arpeggio-ws-restore", "all": "C01-arpeggio-combined"}

_MARK = re.compile("\x01([^\x02]*)\x02")


def norm_value(v):
    """Lean `Value` JSON -> the format of dump_value (float() / str(float()) evaluated here)."""
    if isinstance(v, list):
        return [norm_value(x) for x in v]
    if "cls" in v:
        return {"cls": v["cls"], "parent": v["parent"], "attrs": [[n, norm_value(x)] for n, x in v["attrs"]]}
    if v["p"] == "float":
        return {"p": "float", "v": repr(float(v["src"]))}
    if v["p"] == "str":
        return {"p": "str", "v": _MARK.sub(lambda m: str(float(m.group(1))), v["v"])}
    return v


def same_outcome(real, m):
    """None when the real outcome and a Lean outcome agree, else a description."""
    m = {k: v for k, v in m.items() if k != "c03"}
    if "ok" in m:
        mv = {"ok": norm_value(m["ok"])}
    else:
        mv = m
    if real.get("other") in ("RecursionError", "Timeout", "MemoryError"):
        return None if m.get("err") == "fuel" else f"real {real} vs {str(mv)[:300]}"
    if "other" in real:
        real = {"other": real["other"]}
    if real == mv:
        return None
    return f"real {str(real)[:400]} vs {str(mv)[:400]}"


# --------------------------------------------------------------------------
class Prop(Check):
    ID = "C01"
    LEAN_MODULE = "TextxVerif.Props.C01"
    THEOREMS = ["Tx.C01_expr_partial", "Tx.C01_expr_accepts_iff", "Tx.C01_verdict_fuel_independent",
                "Tx.C01_build_flat_partial", "Tx.C01_token_value",
                "Tx.C01_compile_rule_partial", "Tx.C01_compile_seq_child", "Tx.C01_compiled_expr_partial",
                "Tx.C01_sep_by_name_pinned_false",
                "Tx.C01_full_false_none_alternative", "Tx.C01_full_false_empty_list_alternative",
                "Tx.C01_full_false_falsy_repetition", "Tx.C01_full_false_separator_kept",
                "Tx.C01_full_false_comment_cache", "Tx.C01_full_false_ws_restore"]
    DRIVER = "Drivers/Tx.lean"
    QUICK_CASES = 400
    THOROUGH_CASES = 8000
    CASE_TIMEOUT = 300     # wall clock, infrastructure guard only; hangs are detected by CPU time (cpu_timeout)
    RULE = ("generated grammars (1-5 rules; common / abstract / match rules; = += *= ?=; string and regex matches; base types; "
            "? * + # with separators and eolterm; & !; suppression; rule modifiers skipws/noskipws/ws; Comment rule; 60% repaired "
            "into DocFragment, 30% free, 10% with one injected grammar error) x metamodel options (skipws, ws, auto_init_attributes, "
            "use_regexp_group) x 9 candidate texts (6 derived from the grammar, 3 mutated) of which the runner keeps 4 (quick) / 6 "
            "(thorough), preferring accepted texts with many objects; per kept text: real textX outcome vs Lean mirror (compile + "
            "Arpeggio mirror + build) vs documented semantics Sem.eval; non-trivial = a text accepted with >= 2 objects or rejected "
            "after at least one token")
    MODELLED = ("hand-modelled: TextXVisitor / get_model_parser (Tx/Compile.lean), parse_tree_to_objgraph / _init_obj_attrs / default "
                "processors (Tx/Build.lean), Arpeggio's interpreter (Peg/Arp.lean, dependency), the documented semantics "
                "(Tx/Sem.lean), DocFragment (Tx/Doc.lean), Arpeggio with single call sites neutralised (Tx/Quirk.lean, classifier); "
                "tie X: op compile (node table up to renumbering, rule kinds, attributes with class / mult / cont / ref; grammar "
                "errors by class) and op load (outcome and object graph) on every case; token matching (string comparison, re.match "
                "with Arpeggio's flags, regex group 1) is an input table computed with Python's re; float() and str(float()) of "
                "matched literals are evaluated by the harness; not exhibited: link references, user classes, object processors, "
                "ignore_case, autokwd, memoization (C19), positions (C06)")
    ASSUMPTIONS = [
        "Sem decisions where the docs are silent: a rule application that contributes nothing creates no object / value; an empty "
        "regex match contributes nothing; a model whose top rule contributes nothing is ''; Comments are skipped also with "
        "skipws off; eolterm removes \\n\\r from the active whitespace for the duration of the repetition; # matches each element "
        "once, those that match something separated by the separator; when no further element can be taken every remaining one "
        "must match nothing there (an element that matches something without its separator fails the group) and a separator "
        "that no element follows is given back; a non-empty list as `name` is the documented hashability error",
        "the mirror follows /repo main: the C02-repaired multiplicity walk and the symmetric '?=' rejection, separator children told "
        "by the identity of the separator match (a rule may be called `sep`), the C03-repaired choice of an abstract rule's value; "
        "grammars / texts on which the pinned code would differ are compared like all others and only counted in the evidence "
        "(pinned_walk_would_differ, pinned_c03_would_differ_texts); Sem leaves an abstract rule application undefined (skip) only "
        "when its parts contain match-rule values but no object",
        "proved fragment: rule-free expressions over string matches with sequence / ordered choice / ? / * / + under DocFragment "
        "(C01_expr_partial); everything else (suppression, separators, eolterm, #, predicates, regexes, rule references and "
        "modifiers, Comment, model construction) is covered by correspondence + direct oracle only",
    ]

    def gen(self, rng, n, tier):
        for i in range(n):
            r = rng.fork(i)
            style = r.weighted([("doc", 6), ("free", 3), ("broken", 1)])
            gg = Gen(r, links=False, nrules=r.randint(1, 5), comment_p=0.3)
            g = gg.grammar()
            if r.chance(0.2):
                g = name_a_rule_sep(g, r)
            g = single_unord(g, r)
            if style == "doc":
                g = make_productive(g, r)
            g = quote_lits(g, Rng("qlit:%d" % r.s))      # own stream: the rest of the case stays what it was
            cfg = r.choice(CFGS)
            texts = sentences(g, r, 6, 3)
            keep = 4 if tier == "quick" else 6
            if style == "broken":
                g = break_grammar(g, r)
            # last, so that the rest of the case is what it was before this pass existed (the texts do not depend on
            # the `ws=` values): mixed spellings of `ws=` values + one text with a literal whitespace character in a gap
            g, lits = mix_ws(g, r.fork("mixws"))
            texts = sprinkle(texts, lits, r.fork("sprinkle"))
            yield {"gram": g, "cfg": cfg, "texts": texts, "keep": keep, "style": style}

    def impl(self, case):
        use_repo()
        from textx import metamodel_from_str

        g = case["gram"]
        gtext = G.render_grammar(g)
        res = {"grammar": gtext}
        o = outcome(lambda: metamodel_from_str(gtext, **case["cfg"]))
        if "ok" not in o:
            if "err" in o:
                res["grammar_error"] = "syntax" if o["err"]["cls"] == "TextXSyntaxError" else "semantic"
            else:
                res["grammar_error"] = "other:" + o["other"]
            return res
        mm = o["ok"]
        names = [r["name"] for r in g["rules"]] + (["Comment"] if g.get("comment") else [])
        try:
            res["compiled"] = real_compiled(mm, names)
        except peg.Unsupported as e:
            res["unsupported"] = str(e)
            return res
        allloads = []
        for t in case["texts"]:
            o = cpu_timeout(lambda t=t: load(mm, t))
            if o.get("other") == "Timeout":      # confirm a hang with a generous limit before reporting it
                o = cpu_timeout(lambda t=t: load(mm, t), 25)
            allloads.append(o)
        # input selection: of the candidate texts keep the accepted ones with most objects and some rejected ones
        k = int(case.get("keep", len(case["texts"])))
        acc = sorted((i for i, o in enumerate(allloads) if "ok" in o), key=lambda i: (-str(allloads[i]).count("'cls'"), i))
        rej = [i for i, o in enumerate(allloads) if "ok" not in o]
        na = min(len(acc), max(k - 1, k - len(rej)))
        sel = sorted(acc[:na] + rej[-(k - na):] if k - na > 0 else acc[:na])
        res["texts"] = [case["texts"][i] for i in sel]
        res["loads"] = [allloads[i] for i in sel]
        # C22 (gap extension leaves the model unchanged, theorem Peg.C22_model_unchanged on `Tx.load`): one gap extension
        # for up to two accepted texts -- a character of the metamodel's whitespace set next to a blank / at an end
        gaps, done = [], 0
        wsset = case["cfg"].get("ws") if case["cfg"].get("ws") is not None else "\t\n\r "
        for t, o in zip(res["texts"], res["loads"]):
            g1 = None
            if "ok" in o and done < 2 and wsset:
                rr = Rng("gap:" + t)
                sites = [i for i in range(len(t) + 1) if (i < len(t) and t[i] == " ") or (i > 0 and t[i - 1] == " ")] or [0, len(t)]
                p = rr.choice(sites)
                ins = rr.choice(list(wsset)) * rr.choice([1, 1, 2])
                t2 = t[:p] + ins + t[p:]
                o2 = cpu_timeout(lambda t2=t2: load(mm, t2))
                if o2.get("other") == "Timeout":
                    o2 = cpu_timeout(lambda t2=t2: load(mm, t2), 25)
                g1 = {"p": p, "ins": ins, "text": t2, "load": o2}
                done += 1
            gaps.append(g1)
        res["gaps"] = gaps
        return res

    def model_req(self, case, obs):
        try:
            gram, toks = to_lean(case["gram"])
        except Unsupported:
            return None
        texts = []
        if "compiled" in obs:
            nn = len(obs["compiled"]["table"]["nodes"]) + 12
            for t, gp in zip(obs["texts"], obs.get("gaps") or [None] * len(obs["texts"])):
                rows, groups, g1 = tok_rows(toks, t)
                d = {"input": t, "toks": rows, "groups": groups, "g1": g1}
                if gp is not None:
                    rows2, _groups2, g12 = tok_rows(toks, gp["text"])
                    d["gap"] = {"p": gp["p"], "ins": gp["ins"], "toks": rows2, "g1": g12}
                d["fuel"] = min(30000, 80 + 8 * (len(t) + (len(gp["ins"]) if gp else 0) + 2) * nn)
                texts.append(d)
        nullable = [i for i, (k, t) in enumerate(toks)
                    if k == "re" and (tok_regex(k, t).match("") is not None or any(0 in x["toks"][i] for x in texts))]
        return {"op": "case", "gram": gram, "cfg": lean_cfg(case["cfg"]), "texts": texts, "nullable": nullable}

    def compare(self, case, obs, out):
        self._outs[canon(case)] = out
        self._texts[canon(case)] = obs.get("texts", [])
        if "compiled" not in out:
            return f"model rejected the request: {str(out)[:200]}"
        d = self.compare_compile(case, obs, out["compiled"])
        if d or "compiled" not in obs or "ok" not in out["compiled"]:
            return d
        for t, real, m in zip(obs["texts"], obs["loads"], out["loads"]):
            d = same_outcome(real, m["mirror"])
            if d:
                return f"load {t!r}: {d}"
        for t, gp, m in zip(obs["texts"], obs.get("gaps") or [], out["loads"]):
            if gp is None:
                continue
            e = m.get("gap")
            if e is None:
                return f"gap extension of {t!r}: no answer from the model"
            if e["input"] != gp["text"]:
                return f"extendGap differs from the harness insertion: {e['input']!r} vs {gp['text']!r}"
            d = same_outcome(gp["load"], e["mirror"])
            if d:
                return f"load {gp['text']!r} (gap extension of {t!r}): {d}"
            if e["ok"] and e["g1ok"] and not e["same"]:
                return (f"gap extension {gp['text']!r} of {t!r}: hypotheses of C22_model_unchanged hold but the mirror's "
                        f"outcomes differ")
        return None

    def compare_compile(self, case, obs, out):
        if "grammar_error" in obs:
            ge = obs["grammar_error"]
            if out.get("error") == ge:
                return None
            if out.get("error") == "recursion" and ge in ("other:RecursionError", "semantic"):   # `A: A;` (C23)
                return None
            return f"grammar rejected by textX ({ge}) but the mirror says {str(out)[:200]}"
        if "unsupported" in obs:
            return None
        if "ok" not in out:
            if out.get("error") == "unsupported":
                return None
            return f"grammar accepted by textX but the mirror says {str(out)[:200]}"
        m = out["ok"]
        mt = canon_table(m["nodes"], m["top"], m["comments"])
        rt = obs["compiled"]["table"]
        if mt != rt:
            if len(mt["nodes"]) != len(rt["nodes"]):
                return f"compile: {len(rt['nodes'])} reachable nodes in the real parser model, {len(mt['nodes'])} in the mirror"
            for i, (a, b) in enumerate(zip(rt["nodes"], mt["nodes"])):
                if a != b:
                    return f"compile: node {i} differs: real {a} mirror {b}"
            return f"compile: top/comments differ: real {rt['top']},{rt['comments']} mirror {mt['top']},{mt['comments']}"
        if m["classes"] != obs["compiled"]["classes"]:
            for a, b in zip(obs["compiled"]["classes"], m["classes"]):
                if a != b:
                    return f"compile: class differs: real {a} mirror {b}"
            return "compile: class lists differ"
        return None

    _outs = {}
    _texts = {}

    def lean_out(self, case, obs):
        """Answer of the Lean driver for this case (cached by compare(); computed on demand during shrinking)."""
        key = canon(case)
        parent = self._outs.get(case.get("_from"))
        if key not in self._outs and parent and "loads" in parent and "texts" in obs:
            ptexts = self._texts.get(case["_from"], [])
            if all(t in ptexts for t in obs["texts"]):
                self._outs[key] = dict(parent, loads=[parent["loads"][ptexts.index(t)] for t in obs["texts"]])
        if key not in self._outs:
            req = self.model_req(case, obs)
            self._outs[key] = run_driver(self.DRIVER, [req])[0] if req is not None else None
        return self._outs[key]

    def oracle(self, case, obs):
        """The property itself: what textX does with (grammar, cfg, text) must be what the documented semantics
        (`Tx.Sem.eval`, evaluated by the Lean driver on the grammar AST) prescribe."""
        if "loads" not in obs:
            return None
        out = self.lean_out(case, obs)
        if not out or "loads" not in out:
            return None
        for t, real, m in zip(obs["texts"], obs["loads"], out["loads"]):
            sem = m["sem"]
            if "skip" in sem or sem.get("err") == "fuel":
                continue
            d = same_outcome(real, sem)
            if d:
                return f"text {t!r}: textX vs documented semantics: {d}"
        return None

    def failing_texts(self, case, obs, out):
        for t, real, m in zip(obs["texts"], obs["loads"], out["loads"]):
            sem = m["sem"]
            if "skip" in sem or sem.get("err") == "fuel":
                continue
            if same_outcome(real, sem):
                yield t, real, m

    def classify(self, case, obs, failure):
        """Known findings rooted in Arpeggio: the unswitched mirror reproduces what textX did, and the mirror with
        exactly one Arpeggio call site switched to the textbook behaviour (Tx/Quirk.lean) yields what the
        documented semantics prescribe."""
        if not failure.startswith("text ") or "loads" not in obs:
            return None
        out = self.lean_out(case, obs)
        if not out or "loads" not in out:
            return None
        found = []
        for t, real, m in self.failing_texts(case, obs, out):
            if same_outcome(real, m["mirror"]) is not None:
                return None
            sem = {k: v for k, v in m["sem"].items()}
            hit = None
            for k in FIX_ORDER:
                fo = dict(m.get("fixes", {}).get(k, {}))
                fo.pop("c03", None)
                if fo == sem:
                    hit = k
                    break
            if hit is None or (out.get("doc") and hit in ("alt", "empty", "rep", "all")):
                return None
            found.append(hit)
        return KF[found[0]] if found else None

    def shrink(self, case):
        """one text at a time, shortest first (answered from the cached Lean output of the full case: no driver start)"""
        texts = case["texts"]
        if len(texts) > 1:
            for t in sorted(texts, key=len):
                yield dict(case, texts=[t], keep=1, _from=canon({k: v for k, v in case.items() if k != "_from"}))

    def extra_search(self, rng, tier, broken):
        """more cases when an obligation / the correspondence broke without a failing input in the main run"""
        return list(self.gen(rng, 120, tier))

    def nontrivial(self, case, obs):
        """accepted with >= 2 objects, or rejected after at least one token"""
        for t, o in zip(obs.get("texts", []), obs.get("loads", [])):
            if ("ok" in o and str(o).count("'cls'") >= 2) or ("err" in o and t.strip()):
                return True
        return False

    def extra_evidence(self, cases, obs, outs):
        ev = {"grammars": len(cases), "grammar_errors": 0, "doc_fragment_grammars": 0, "pinned_walk_would_differ": 0, "rule_named_sep": 0,
              "texts": 0, "accepted_texts": 0, "accepted_with_2plus_objects": 0, "sem_decided_texts": 0,
              "sem_decided_texts_in_doc_fragment": 0, "pinned_c03_would_differ_texts": 0, "unsupported": 0,
              "gap_extensions": 0, "gap_extensions_with_C22_hypotheses": 0, "gap_extensions_same_model": 0,
              "gap_extensions_use_regexp_group": 0}
        for c, o, out in zip(cases, obs, outs):
            if "grammar_error" in o:
                ev["grammar_errors"] += 1
            if not out or "loads" not in out:
                if out is None:
                    ev["unsupported"] += 1
                continue
            if out["compiled"]["ok"]["multSensitive"]:
                ev["pinned_walk_would_differ"] += 1
            ev["rule_named_sep"] += any(r["name"] == "sep" for r in c["gram"]["rules"])
            ev["doc_fragment_grammars"] += bool(out.get("doc"))
            for real, m in zip(o.get("loads", []), out["loads"]):
                ev["texts"] += 1
                if "ok" in real:
                    ev["accepted_texts"] += 1
                    ev["accepted_with_2plus_objects"] += str(real).count("'cls'") >= 2
                if m["mirror"].get("c03"):
                    ev["pinned_c03_would_differ_texts"] += 1
                if "skip" not in m["sem"] and m["sem"].get("err") != "fuel":
                    ev["sem_decided_texts"] += 1
                    ev["sem_decided_texts_in_doc_fragment"] += bool(out.get("doc"))
                e = m.get("gap")
                if e is not None:
                    ev["gap_extensions"] += 1
                    ev["gap_extensions_with_C22_hypotheses"] += bool(e["ok"] and e["g1ok"])
                    ev["gap_extensions_same_model"] += bool(e["same"])
                    ev["gap_extensions_use_regexp_group"] += bool(e["ok"] and e["g1ok"] and c["cfg"].get("use_regexp_group"))
        return ev

    def sample_view(self, case, obs):
        return {"grammar": obs.get("grammar"), "cfg": case["cfg"], "texts": obs.get("texts"),
                "outcomes": [str(x)[:100] for x in obs.get("loads", [])]}
