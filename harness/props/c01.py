"""C01 — compiled parser and model follow the grammar's PEG semantics.

One case = a generated grammar AST (harness/gen_grammar.py), metamodel options
(skipws, ws, auto_init_attributes, use_regexp_group) and a few texts (derived
from the grammar, and mutated).

Implementation side: the grammar is rendered to textX grammar text,
`metamodel_from_str(grammar, **cfg)` is built and every text is loaded with
`model_from_str`; observed are the compiled Arpeggio parser model (dumped as a
node table), the metamodel skeleton (rule kinds, attributes with class /
multiplicity / cont / ref) and, per text, the outcome: syntax error, semantic
error, or the model's object graph (classes, attribute values, defaults,
containment / parent links).

Lean side (Drivers/Tx.lean), from the *grammar AST* (not from the real parser):
  * `Tx.compile` (mirror of TextXVisitor)  -> node table + skeleton      [tie: op compile]
  * `Peg.parse` on that table + `Tx.build` (mirror of model.py)          [tie: op load]
  * `Tx.Sem.eval`: the documented PEG semantics on the grammar AST       [direct oracle]
Token matching (string comparison, re.match) is an input table computed here
with Python's `re`, per text.
"""
import re

from harness.core import Check, use_repo
from harness import gen_grammar as G
from harness import peg
from harness.txutil import outcome, with_timeout

BASE_TOKS = ["ID", "BOOL", "INT", "FLOAT", "STRICTFLOAT", "STRING"]
CFGS = [
    {}, {}, {}, {"skipws": False}, {"ws": " "}, {"ws": " \t\n"}, {"auto_init_attributes": False},
    {"auto_init_attributes": False}, {"use_regexp_group": True}, {"use_regexp_group": True, "auto_init_attributes": False},
    {"ws": "\n", "skipws": True},
]


# --------------------------------------------------------------------------
# grammar AST -> Lean request
# --------------------------------------------------------------------------
class Unsupported(Exception):
    pass


def to_lean(g):
    """gen_grammar AST -> (Lean `Gram` JSON, token definitions [(kind, text)])."""
    toks = [("base", n) for n in BASE_TOKS]
    index = {}

    def tok(kind, text):
        key = (kind, text)
        if key not in index:
            index[key] = len(toks)
            toks.append(key)
        return index[key]

    def sep(s):
        if s is None:
            return None
        if s["k"] not in ("str", "re"):
            raise Unsupported("separator")
        return {"re": s["k"] == "re", "tok": tok(s["k"], s["v"]), "v": s["v"]}

    def ex(e):
        k = e["k"]
        d = {"k": k}
        if e.get("sup"):
            d["sup"] = True
        if k in ("str", "re"):
            d["tok"] = tok(k, e["v"])
            d["v"] = e["v"]
        elif k == "ref":
            d["name"] = e["name"]
        elif k in ("seq", "alt"):
            d["xs"] = [ex(x) for x in e["xs"]]
        elif k == "rep":
            if e["op"] == "#":
                x = e["x"]
                if x["k"] not in ("seq", "alt") or x.get("sup") or len(x["xs"]) < 2:
                    raise Unsupported("# operand")
                d = {"k": "unord", "xs": [ex(y) for y in x["xs"]], "sep": sep(e.get("sep")), "eol": bool(e.get("eol"))}
                if e.get("sup"):
                    d["sup"] = True
            else:
                d.update(op=e["op"], x=ex(e["x"]), sep=sep(e.get("sep")), eol=bool(e.get("eol")))
        elif k == "asgn":
            d.update(attr=e["attr"], op=e["op"], rhs=ex(e["rhs"]), sep=sep(e.get("sep")), eol=bool(e.get("eol")))
        elif k == "pred":
            d.update(neg=bool(e["neg"]), x=ex(e["x"]))
        else:
            raise Unsupported(k)
        return d

    rules = []
    for r in g["rules"]:
        p = r.get("params", {})
        rules.append({"name": r["name"], "skipws": p.get("skipws"), "ws": p.get("ws"), "body": ex(r["body"])})
    if g.get("comment"):
        rules.append({"name": "Comment", "skipws": None, "ws": None, "body": ex({"k": "re", "v": g["comment"]})})
    return {"rules": rules}, toks


def lean_cfg(cfg):
    return {"skipws": cfg.get("skipws", True), "ws": cfg.get("ws") if cfg.get("ws") is not None else "\t\n\r ",
            "auto_init": cfg.get("auto_init_attributes", True), "use_regexp_group": cfg.get("use_regexp_group", False)}


_RE_CACHE = {}


def tok_regex(kind, text):
    use_repo()
    key = (kind, text)
    if key not in _RE_CACHE:
        if kind == "base":
            import textx.lang as L

            _RE_CACHE[key] = getattr(L, text).regex
        elif kind == "re":
            _RE_CACHE[key] = re.compile(text, re.MULTILINE)  # arpeggio.RegExMatch default flags
        else:
            _RE_CACHE[key] = None
    return _RE_CACHE[key]


def tok_rows(toks, text):
    """rows[t][pos] = matched length or -1; groups[t] = number of regex groups;
    g1[t][pos] = [start, len] of group 1 (or null) for regexes with exactly one group."""
    n = len(text)
    rows, groups, g1 = [], [], []
    for kind, t in toks:
        rx = tok_regex(kind, t)
        if rx is None:
            rows.append([len(t) if text.startswith(t, p) else -1 for p in range(n + 1)])
            groups.append(0)
            g1.append([])
            continue
        row, grow = [], []
        for p in range(n + 1):
            m = rx.match(text, p)
            row.append(len(m.group()) if m else -1)
            if rx.groups == 1:
                if m and m.group(1) is not None:
                    grow.append([m.start(1), len(m.group(1))])
                else:
                    grow.append(None)
        rows.append(row)
        groups.append(rx.groups)
        g1.append(grow if rx.groups == 1 else [])
    return rows, groups, g1


# --------------------------------------------------------------------------
# canonical forms
# --------------------------------------------------------------------------
REP = ("opt", "star", "plus", "unord")


def canon_table(nodes, top, comments):
    """Renumber a node table in the pre-order of harness.peg.dump_parser (kids, then sep; parser model, then
    comments model) and keep the fields textX / Arpeggio read."""
    order, idx = [], {}

    def visit(i):
        if i in idx:
            return idx[i]
        idx[i] = len(order)
        order.append(i)
        nd = nodes[i]
        for c in nd.get("kids") or []:
            visit(c)
        if nd["k"] in REP and nd.get("sep") is not None:
            visit(nd["sep"])
        return idx[i]

    visit(top)
    if comments is not None:
        visit(comments)
    out = []
    for i in order:
        nd = nodes[i]
        k = nd["k"]
        d = {"k": k, "root": bool(nd.get("root")), "rule": nd.get("rule") or "", "sup": bool(nd.get("sup")),
             "kids": [idx[c] for c in (nd.get("kids") or [])]}
        if k in ("seq", "choice"):
            d["ws"] = nd.get("ws")
            d["skipws"] = nd.get("skipws")
        if k in REP:
            d["sep"] = idx[nd["sep"]] if nd.get("sep") is not None else None
            d["eol"] = bool(nd.get("eol"))
        if k in ("str", "re"):
            d["text"] = d["rule"] if (d["root"] and d["rule"] in BASE_TOKS) else nd.get("text", "")
        if d["rule"].startswith("__asgn"):
            d["attr"] = nd.get("attr", "")
        out.append(d)
    return {"nodes": out, "top": idx[top], "comments": None if comments is None else idx[comments]}


def real_compiled(mm, rule_names):
    parser = mm._parser_blueprint
    nodes, top, comments, objs = peg.dump_parser(parser)
    for nd, o in zip(nodes, objs):
        if nd["k"] in ("str", "re"):
            nd["text"] = o.to_match
        if hasattr(o, "_attr_name"):
            nd["attr"] = o._attr_name
    classes = []
    for name in rule_names:
        cls = mm[name]
        classes.append({"name": name, "kind": cls._tx_type,
                        "attrs": [{"name": a.name, "cls": a.cls.__name__, "mult": a.mult, "cont": bool(a.cont),
                                   "ref": bool(a.ref), "bool": bool(a.bool_assignment)} for a in cls._tx_attrs.values()]})
    return {"table": canon_table(nodes, top, comments), "classes": classes}


# --------------------------------------------------------------------------
# model dump (objects, classes, attribute values, containment / parent)
# --------------------------------------------------------------------------
def dump_value(v, container, seen):
    if isinstance(v, list):
        return [dump_value(x, container, seen) for x in v]
    if hasattr(type(v), "_tx_attrs"):
        if id(v) in seen:
            return {"again": type(v).__name__}
        seen.add(id(v))
        d = {"cls": type(v).__name__,
             "parent": (getattr(v, "parent", None) is container) if container is not None else (not hasattr(v, "parent")),
             "attrs": [[name, dump_value(getattr(v, name, None), v, seen)] for name in type(v)._tx_attrs]}
        return d
    if v is None:
        return {"p": "none"}
    if isinstance(v, bool):
        return {"p": "bool", "v": v}
    if isinstance(v, int):
        return {"p": "int", "v": v}
    if isinstance(v, float):
        return {"p": "float", "v": repr(v)}
    if isinstance(v, str):
        return {"p": "str", "v": v}
    return {"p": type(v).__name__, "v": repr(v)[:80]}


def load(mm, text):
    def f():
        return dump_value(mm.model_from_str(text), None, set())

    o = outcome(f)
    if "err" in o:
        e = o["err"]
        kind = "syntax" if e["cls"] == "TextXSyntaxError" else ("semantic:" + str(e["err_type"]))
        return {"err": kind}
    return o


_MARK = re.compile("\x01([^\x02]*)\x02")


def norm_value(v, container_id=None, root=True):
    """Lean `Value` JSON -> the format of dump_value (float() / str(float()) evaluated here)."""
    if isinstance(v, list):
        return [norm_value(x, container_id, False) for x in v]
    if "cls" in v:
        par = (v["parent"] is None) if root else (v["parent"] == container_id)
        return {"cls": v["cls"], "parent": par, "attrs": [[n, norm_value(x, v["id"], False)] for n, x in v["attrs"]]}
    if v["p"] == "float":
        return {"p": "float", "v": repr(float(v["src"]))}
    if v["p"] == "str":
        return {"p": "str", "v": _MARK.sub(lambda m: str(float(m.group(1))), v["v"])}
    return v


def same_outcome(real, m):
    """None when the real outcome and a Lean outcome agree (or the case belongs to C03), else a description."""
    if m.get("c03"):
        return None
    if "ok" in m:
        mv = {"ok": norm_value(m["ok"])}
    else:
        mv = m
    if real.get("other") in ("RecursionError", "Timeout", "MemoryError"):
        return None if m.get("err") == "fuel" else f"real {real} vs {str(mv)[:300]}"
    if "other" in real:
        real = {"other": real["other"]}
    if real == mv:
        return None
    return f"real {str(real)[:400]} vs {str(mv)[:400]}"


# --------------------------------------------------------------------------
class Prop(Check):
    ID = "C01"
    LEAN_MODULE = "TextxVerif.Tx.Build"
    THEOREMS = []
    DRIVER = "Drivers/Tx.lean"
    QUICK_CASES = 300
    THOROUGH_CASES = 8000
    CASE_TIMEOUT = 20
    RULE = ""
    MODELLED = ""
    ASSUMPTIONS = []

    def gen(self, rng, n, tier):
        for i in range(n):
            r = rng.fork(i)
            gg = G.GrammarGen(r, links=False)
            g = gg.grammar()
            cfg = r.choice(CFGS)
            texts = G.sentences(g, r, 3, 2)
            yield {"gram": g, "cfg": cfg, "texts": texts}

    def impl(self, case):
        use_repo()
        from textx import metamodel_from_str

        g = case["gram"]
        gtext = G.render_grammar(g)
        res = {"grammar": gtext}
        o = outcome(lambda: metamodel_from_str(gtext, **case["cfg"]))
        if "ok" not in o:
            if "err" in o:
                res["grammar_error"] = "syntax" if o["err"]["cls"] == "TextXSyntaxError" else "semantic"
            else:
                res["grammar_error"] = "other:" + o["other"]
            return res
        mm = o["ok"]
        names = [r["name"] for r in g["rules"]] + (["Comment"] if g.get("comment") else [])
        try:
            res["compiled"] = real_compiled(mm, names)
        except peg.Unsupported as e:
            res["unsupported"] = str(e)
            return res
        res["loads"] = [with_timeout(lambda t=t: load(mm, t)) for t in case["texts"]]
        return res

    def model_req(self, case, obs):
        try:
            gram, toks = to_lean(case["gram"])
        except Unsupported:
            return None
        texts = []
        if "compiled" in obs:
            nn = len(obs["compiled"]["table"]["nodes"]) + 12
            for t in case["texts"]:
                rows, groups, g1 = tok_rows(toks, t)
                texts.append({"input": t, "toks": rows, "groups": groups, "g1": g1,
                              "fuel": min(30000, 80 + 8 * (len(t) + 2) * nn)})
        return {"op": "case", "gram": gram, "cfg": lean_cfg(case["cfg"]), "texts": texts}

    def compare(self, case, obs, out):
        if "compiled" not in out:
            return f"model rejected the request: {str(out)[:200]}"
        d = self.compare_compile(case, obs, out["compiled"])
        if d or "compiled" not in obs or "ok" not in out["compiled"]:
            return d
        if out["compiled"]["ok"]["multSensitive"]:
            return None
        for t, real, m in zip(case["texts"], obs["loads"], out["loads"]):
            d = same_outcome(real, m)
            if d:
                return f"load {t!r}: {d}"
        return None

    def compare_compile(self, case, obs, out):
        if "grammar_error" in obs:
            ge = obs["grammar_error"]
            if out.get("error") == ge:
                return None
            if out.get("error") == "recursion" and ge == "other:RecursionError":
                return None
            return f"grammar rejected by textX ({ge}) but the mirror says {str(out)[:200]}"
        if "unsupported" in obs:
            return None
        if "ok" not in out:
            if out.get("error") == "unsupported":
                return None
            return f"grammar accepted by textX but the mirror says {str(out)[:200]}"
        m = out["ok"]
        mt = canon_table(m["nodes"], m["top"], m["comments"])
        rt = obs["compiled"]["table"]
        if mt != rt:
            if len(mt["nodes"]) != len(rt["nodes"]):
                return f"compile: {len(rt['nodes'])} reachable nodes in the real parser model, {len(mt['nodes'])} in the mirror"
            for i, (a, b) in enumerate(zip(rt["nodes"], mt["nodes"])):
                if a != b:
                    return f"compile: node {i} differs: real {a} mirror {b}"
            return f"compile: top/comments differ: real {rt['top']},{rt['comments']} mirror {mt['top']},{mt['comments']}"
        if not m["multSensitive"] and m["classes"] != obs["compiled"]["classes"]:
            for a, b in zip(obs["compiled"]["classes"], m["classes"]):
                if a != b:
                    return f"compile: class differs: real {a} mirror {b}"
            return "compile: class lists differ"
        return None

    def oracle(self, case, obs):
        return None

    def nontrivial(self, case, obs):
        return "compiled" in obs

    def sample_view(self, case, obs):
        return {"grammar": obs.get("grammar"), "cfg": case["cfg"], "texts": case["texts"],
                "outcomes": [str(x)[:100] for x in obs.get("loads", [])]}
