"""C05 — containment links and the model navigation API are consistent.

Implementation side: random grammars (common / abstract / match rules, recursive
containment, abstract containment attributes, references to named objects anywhere in
the model — also up the tree —, objects that are in no attribute, user classes — also with
special methods that make their instances falsy / container-like (empty = falsy) / iterable /
unhashable —) and models derived from them (harness/objgen.py).  On the loaded model: `parent` of every contained
object, `get_model` of every object, and a batch of `get_children`,
`get_children_of_type`, `get_parent_of_type` calls with random selectors, roots, orders
and `should_follow` predicates.

Model side (Lean, Drivers/Obj.lean): the dumped heap goes through `Obj.getChildren /
getModel / getParentOfType`; the dumped Arpeggio parse tree goes through `Obj.build`
(process_node) and its parent links / containment lists are compared with the real model.

Sessions (harness/objhist.py): the navigation API takes its meta data from the class objects of the
model elements at call time, and class objects outlive meta-models.  40 % of the cases are sessions of
2-4 steps in one process: earlier meta-models built from variants of the grammar (containment
attribute added / removed / turned into a reference and back, multiplicity changed, attributes
reordered), from independent grammars over the same rule names or from the same grammar, with the
*same user class objects* or with classes of their own; several models of one meta-model; older
models navigated after newer ones were loaded; models released and collected in between.  Every step
is observed and judged.  User classes may derive from each other and may be supplied by a callable.
Model side: `navh` — the class table after the recorded history of constructions (Obj/ClassTbl.lean)
applied to the plain Python objects (instance dictionaries, no meta data).

Multi-typed containment attributes (objgen.multi_type, 40 % of the cases): one attribute assigned from
several rules / base types / match rules — `(k a=X | k a=Y | k a=INT)`, `(…)?`, `(…)*`, `k a=X k a=Y`, several
list assignments one after the other or as alternatives.  textX gives such an attribute the generic meta-class
OBJECT: what the meta-model declares about the attribute says nothing about the classes of the objects it
holds.  Such models are asked `get_children_of_type` for every class that occurs (from the root) and for more
(type, start) pairs; sessions also get variants in which a rule is contained nowhere / an attribute holds
another rule (what can occur below the objects of a shared user class differs between the versions).

Oracle: decided from the property statement on the *expected* object tree of the
derivation (no model, no textX metadata).
"""
from harness.core import Check, use_repo
from harness import objgen as G
from harness import objhist as H

PLAIN = {"lead": None, "trail": None, "seps": []}


class _Unknown:
    pass


def uses_parent_attr(gram):
    return any(e.get("attr") == "parent" for r in gram["rules"] if r["kind"] == "common" for e in r["elems"])


def focus_unusual_single(rng, gram):
    """make sure the combination 'instance of a user class with special methods held by a
    single-valued containment attribute' (c=C, (c=C)?, lead= / tail= children, also through an
    abstract rule) is frequent: the class behind one such attribute becomes a user class with traits"""
    R = G.rules_of(gram)
    singles = [e for ru in gram["rules"] if ru["kind"] == "common" for e in ru["elems"]
               if (e["k"] == "cont" and e["mult"] in ("one", "opt"))
               or (e["k"] == "mcont" and e["form"] in ("choice", "choiceopt"))]
    if not singles:
        return
    e = rng.choice(singles)
    if e["k"] == "mcont":
        ts = [a["t"] for a in e["alts"] if a["t"] in R and R[a["t"]]["kind"] != "match"]
        if not ts:
            return
        target = rng.choice(ts)
    else:
        target = e["target"]
    leaves = sorted(G.instances_of(gram, target))
    if not leaves:
        return
    ru = R[rng.choice(leaves)]
    if not ru.get("user"):
        ru["user"] = rng.choice(["store", "child", "eq"])
    traits = set(ru.get("traits") or ())
    traits.add(rng.choice(G.TRAITS))
    if rng.chance(0.3):
        traits.add(rng.choice(G.TRAITS))
    ru["traits"] = sorted(traits)


def spec_gen(rng, exp, classes):
    k = rng.weighted([("all", 3), ("cls", 4), ("ids", 4), ("none", 1)])
    if k == "cls":
        return {"k": "cls", "v": sorted(rng.subset(classes, 0.5))}
    if k == "ids":
        return {"k": "ids", "v": [o["eid"] for o in exp if rng.chance(0.5)]}
    return {"k": k}


def spec_ids(spec, exp):
    if spec["k"] == "all":
        return [o["eid"] for o in exp]
    if spec["k"] == "none":
        return []
    if spec["k"] == "cls":
        return [o["eid"] for o in exp if o["cls"] in spec["v"]]
    return [i for i in spec["v"] if i < len(exp)]


def gen_queries(rng, gram, exp, small=False):
    """navigation calls for a model; small: the few calls made on the models of earlier steps of a session"""
    n = len(exp)
    rule_names = [r["name"] for r in gram["rules"] if r["kind"] != "match"]
    classes = sorted({o["cls"] for o in exp})
    qs = []
    if small:
        for _ in range(rng.randint(1, 2)):
            root = 0 if rng.chance(0.6) else rng.below(n)
            fol = {"k": "all"} if rng.chance(0.6) else spec_gen(rng, exp, classes)
            qs.append(["children", root, rng.chance(0.5), spec_gen(rng, exp, classes), fol])
        if rng.chance(0.6):
            qs.append(["oftype", 0 if rng.chance(0.6) else rng.below(n), rng.chance(0.5), rng.choice(classes),
                       rng.chance(0.5), {"k": "all"}])
        if rng.chance(0.4):
            qs.append(["pot", rng.choice(classes), rng.chance(0.5), rng.below(n)])
        return qs
    for _ in range(rng.randint(3, 6)):
        root = 0 if rng.chance(0.5) else rng.below(n)
        fol = {"k": "all"} if rng.chance(0.4) else spec_gen(rng, exp, classes)
        qs.append(["children", root, rng.chance(0.5), spec_gen(rng, exp, classes), fol])
    for _ in range(rng.randint(1, 3)):
        root = 0 if rng.chance(0.6) else rng.below(n)
        fol = {"k": "all"} if rng.chance(0.6) else spec_gen(rng, exp, classes)
        typ = rng.choice(classes) if rng.chance(0.8) else rng.choice(rule_names)
        qs.append(["oftype", root, rng.chance(0.5), typ, rng.chance(0.5), fol])
    for _ in range(rng.randint(2, 5)):
        typ = rng.choice(classes) if rng.chance(0.8) else rng.choice(rule_names)
        qs.append(["pot", typ, rng.chance(0.5), rng.below(n)])
    return qs


def step_queries(rng, gram, exp, small=False):
    """calls for the model of an earlier step of a session: the few random ones plus a type-directed search from the
    root for up to 3 classes (side stream: the random ones are what they were) — whatever a navigation call derives
    from the class objects and keeps (attribute lists, reachable types, …) is then derived in the earlier step, for
    the grammar of that step"""
    qs = gen_queries(rng, gram, exp, small)
    side = type(rng)(f"{rng.s}:stepoftype")
    classes = sorted({o["cls"] for o in exp})
    for typ in side.shuffle(classes)[:3]:
        qs.append(["oftype", 0, side.chance(0.3), typ, side.chance(0.5), {"k": "all"}])
    return qs


def more_oftype(rng, gram, exp, every=False):
    """more get_children_of_type calls: the type-directed search is the one navigation call that may consult the
    meta-model's *type* information (which classes can occur below an attribute), so it is asked for several types
    per model, from the root and from inner objects.  Models of grammars with multi-typed attributes — where the
    declared type says nothing about the classes of the contained objects — are asked for every class that occurs
    (from the root) and for 1-2 (type, start) pairs more; the others for 2 pairs."""
    n = len(exp)
    classes = sorted({o["cls"] for o in exp})
    rule_names = [r["name"] for r in gram["rules"] if r["kind"] != "match"]
    multi = any(e["k"] == "mcont" for r in gram["rules"] if r["kind"] == "common" for e in r["elems"])
    qs = []
    if multi or every:
        for typ in rng.shuffle(classes)[:6]:
            fol = {"k": "all"} if rng.chance(0.8) else spec_gen(rng, exp, classes)
            qs.append(["oftype", 0, rng.chance(0.5), typ, rng.chance(0.5), fol])
    for _ in range(rng.randint(1, 2) if multi else 2):
        root = rng.below(n)
        fol = {"k": "all"} if rng.chance(0.7) else spec_gen(rng, exp, classes)
        typ = rng.choice(classes) if rng.chance(0.85) else rng.choice(rule_names)
        qs.append(["oftype", root, rng.chance(0.5), typ, rng.chance(0.5), fol])
    return qs


class Prop(Check):
    ID = "C05"
    LEAN_MODULE = "TextxVerif.Props.C05"
    THEOREMS = [
        "Obj.C05_build_tree",
        "Obj.C05_parent",
        "Obj.C05_get_model",
        "Obj.C05_children_once",
        "Obj.C05_children_mem",
        "Obj.C05_children_order",
        "Obj.C05_children_of_type",
        "Obj.C05_children_of_type_pruned",
        "Obj.C05_children_of_type_pruned_false",
        "Obj.C05_refs_inert",
        "Obj.C05_refs_inert_update",
        "Obj.C05_parent_of_type",
        "Obj.C05_ancestors_contained",
        "Obj.C05_abstract_selection",
        "Obj.C05_abstract_pinned_false",
        "Obj.C05_nav_after_refs",
        "Obj.C05_history_view",
        "Obj.C05_history_navigation",
        "Obj.C05_history_model",
        "Obj.C05_history_rebind_false",
    ]
    DRIVER = "Drivers/Obj.lean"
    QUICK_CASES = 300
    THOROUGH_CASES = 6000
    PROCS_THOROUGH = 4
    RULE = ("random grammar (2-6 common rules, abstract and match rules, recursion, references, multi-typed containment "
            "attributes — one attribute assigned from several rules / base types in alternatives, sequences or several "
            "lists (meta-class OBJECT), 40 % of the cases, then get_children_of_type for every class present —, user classes incl. "
            "falsy / container-like / iterable / unhashable ones, deriving from each other, given as list or callable) "
            "+ derived model + 6-14 navigation calls; 40 % of the cases are sessions: 1-3 earlier meta-models (variants "
            "of the grammar with other containment attributes / other rules held by an attribute / a rule contained "
            "nowhere, independent grammars with the same rule names, the same grammar) sharing the user class objects or not, earlier models of the same meta-model, deferred calls on "
            "older models, released models, each step with its own calls and judged; non-trivial = model with >= 4 contained objects, nesting depth >= 2, at "
            "least one resolved reference to an object, and a get_children call whose result is a non-empty proper "
            "subset of the objects below its root")
    MODELLED = ("hand-modelled: model.py get_model / get_parent_of_type / get_children(+_of_type) (Obj/Nav.lean), "
                "_tx_attrs as state of the class objects written by every meta-model construction (_init_class / "
                "_new_cls_attr; Obj/ClassTbl.lean) and "
                "process_node's instance stack, parent assignment and attribute filling (Obj/Build.lean); tie X: "
                "instance dictionaries of the real objects + the attribute lists recorded after every construction of "
                "the session -> Lean class table after that history -> Lean navigation functions (exact result lists), "
                "real Arpeggio parse tree -> Lean "
                "process_node (parent links, containment lists; bool(obj) of the generated user classes is the model's "
                "truthiness parameter); not exhibited: user classes that override "
                "attribute access or define __slots__, object processors replacing objects (C13); abstract-rule nodes "
                "follow the repaired selection (first non-terminal child that is not a match-rule node), exercised by "
                "match-rule calls around the rule reference of abstract alternatives; the build op also yields "
                "PosDict.geo / posRuleDict of the containment tree (C34), compared with _pos_rule_dict")
    ASSUMPTIONS = [
        "get_children_of_type / get_parent_of_type compare class *names* (documented: 'typ: str or python class'); "
        "'of the given type' is read as exact class-name equality, not inheritance",
        "a user class storing parent=None on the root counts as 'the root has no parent'",
        "the attribute name 'parent' is reserved by textX (grammars assigning it are rejected after the repair)",
        "a class object describes one grammar at a time: a model whose user classes were handed to a later "
        "meta-model of a *different* grammar is no longer navigated (Obj.C05_history_rebind_false); re-use one after "
        "the other, several meta-models of the same grammar and any number of models per meta-model are covered",
    ]

    # ------------------------------------------------------------------ generation
    def gen(self, rng, n, tier):
        for k in range(n):
            r = rng.fork(f"case{k}")
            gram = G.gen_grammar(r, want_traits=True, p_user=0.3)
            # multi-typed containment attributes (one attribute assigned from several rules: meta-class OBJECT);
            # a side stream seeded from the generator state, so the other cases are what they were
            side = type(r)(f"{r.s}:multi")
            if side.chance(0.4):
                G.multi_type(side, gram)
            if r.chance(0.04):
                # an attribute that happens to be called like textX's own container link
                els = [e for ru in gram["rules"] if ru["kind"] == "common" for e in ru["elems"]
                       if e["k"] in ("prim", "cont") and not e.get("bare")]
                if els:
                    r.choice(els)["attr"] = "parent"
            if r.chance(0.15):
                focus_unusual_single(r, gram)
            tree = G.derive(r, gram, maxdepth=r.randint(2, 5))
            _, exp = G.expected(gram, tree, PLAIN)
            layout = PLAIN if r.chance(0.7) else G.gen_layout(r, gram, len([1 for x in G.tokens(gram, tree) if x[0] == "tok"]))
            case = {"gram": gram, "tree": tree, "layout": layout, "file": r.chance(0.15),
                    "queries": gen_queries(r, gram, exp)}
            # sessions (harness/objhist.py); every choice from a fork of its own, so the single-model part of
            # the stream is what it was before sessions existed
            h = r.fork("hist")
            with_hist = h.chance(0.4)
            if with_hist:
                H.ensure_user(h, gram, tree)
            if h.chance(0.3):
                H.gen_inheritance(h, gram, tree)
            if h.chance(0.25) and any(ru.get("user") for ru in gram["rules"]):
                case["provider"] = True
            if with_hist:
                hist, extra = H.gen_history(h, gram, tree, step_queries)
                case["history"] = hist
                case.update(extra)
            case["queries"] += more_oftype(side, gram, exp, every=with_hist)
            yield case

    # ------------------------------------------------------------------ implementation
    def impl(self, case):
        use_repo()
        return H.run_session(case, self.observe)

    def observe(self, case, L, S):
        """observation of one loaded model (`case` = a step of the session: gram / tree / queries)"""
        import textx

        real, why = G.match_objects(L)
        if real is None:
            return {"outcome": "shape", "why": why}
        exp = L.exp
        n = len(exp)
        idx = {id(o): i for i, o in enumerate(real)}
        unknown = []

        def num(o, where):
            if o is None:
                return None
            i = idx.get(id(o))
            if i is None:
                unknown.append(f"{where}: {type(o).__name__}")
                return -1
            return i

        names = sorted(r["name"] for r in case["gram"]["rules"])
        attr_names = {}
        heap, parents = [], []
        for i, ro in enumerate(real):
            attrs = []
            for name, a in type(ro)._tx_attrs.items():
                v = getattr(ro, name, None)
                items = v if isinstance(v, list) else [v]
                ids = [num(x, f"object {i}.{name}") for x in items if G.is_txobj(x)]
                attrs.append([bool(a.cont), ids, name])
            if not hasattr(ro, "parent"):
                p, pk = None, "absent"
            elif ro.parent is None:
                p, pk = None, "none"
            else:
                p, pk = num(ro.parent, f"object {i}.parent"), "obj"
            parents.append([pk, p])
            heap.append([names.index(type(ro).__name__), p, attrs])
        models = []
        for i, ro in enumerate(real):
            try:
                m = textx.get_model(ro)
                models.append("none" if m is None else num(m, f"get_model({i})"))
            except Exception as e:
                models.append({"exc": type(e).__name__})

        def pred(spec, where):
            ids = set(spec_ids(spec, exp))
            allp = spec["k"] == "all"

            def f(o):
                if not G.is_txobj(o):
                    return True
                i = idx.get(id(o))
                if i is None:
                    unknown.append(f"{where} called with an object that is not contained: {type(o).__name__}")
                    return allp
                return i in ids
            return f

        def typ_arg(name, as_class):
            if as_class:
                try:
                    return L.mm[name]
                except Exception:
                    return name
            return name

        answers = []
        for qi, qu in enumerate(case["queries"]):
            try:
                if qu[0] == "children":
                    _, root, cf, sel, fol = qu
                    root %= n
                    if not cf and fol["k"] == "all" and qi % 2 == 0:
                        res = textx.get_children(pred(sel, "selector"), real[root])
                    else:
                        res = textx.get_children(pred(sel, "selector"), real[root], children_first=cf,
                                                 should_follow=pred(fol, "should_follow"))
                    answers.append([num(o, f"result of query {qi}") for o in res])
                elif qu[0] == "oftype":
                    _, root, cf, typ, as_class, fol = qu
                    root %= n
                    if not cf and fol["k"] == "all" and qi % 2 == 0:
                        res = textx.get_children_of_type(typ_arg(typ, as_class), real[root])
                    else:
                        res = textx.get_children_of_type(typ_arg(typ, as_class), real[root], children_first=cf,
                                                         should_follow=pred(fol, "should_follow"))
                    answers.append([num(o, f"result of query {qi}") for o in res])
                elif qu[0] == "pot":
                    _, typ, as_class, x = qu
                    res = textx.get_parent_of_type(typ_arg(typ, as_class), real[x % n])
                    answers.append(None if res is None else num(res, f"result of query {qi}"))
                else:
                    answers.append({"exc": "bad query"})
            except RecursionError:
                answers.append({"exc": "RecursionError"})
            except Exception as e:
                answers.append({"exc": type(e).__name__, "msg": str(e)[:200]})
        truth = []
        for ro in real:
            try:
                truth.append(bool(ro))
            except Exception:
                truth.append(None)
        # the objects as Python stores them (class identity, instance dictionary; no meta data) and the number of
        # meta-model constructions that had taken place when the calls above were made
        pheap = [S.dump_obj(ro, names.index(type(ro).__name__), parents[i][1], idx) for i, ro in enumerate(real)]
        # editor support: the position map of a model loaded with textx_tools_support (values as object numbers)
        posdict = None
        prd = getattr(L.model, "_pos_rule_dict", None)
        if prd is not None:
            try:
                posdict = [[k[0], k[1], idx.get(id(v), -1)] for k, v in prd.items()]
            except Exception as e:
                posdict = {"exc": type(e).__name__}
        # containment attributes to which the real meta-model gave the generic type OBJECT (assigned from several rules)
        generic = []
        for nm in names:
            try:
                for a in (getattr(L.mm[nm], "_tx_attrs", None) or {}).values():
                    if a.cont and getattr(a.cls, "__name__", None) == "OBJECT":
                        generic.append([nm, a.name])
            except Exception:
                pass
        obs = {"outcome": "ok", "n": n, "heap": heap, "parents": parents, "models": models, "answers": answers,
               "posdict": posdict, "generic": generic,
               "unknown": unknown[:10], "names": names, "truth": truth, "pheap": pheap, "upto": len(S.hist)}
        obs.update(self.dump_ptree(L, names))
        return obs

    def dump_ptree(self, L, names):
        return G.dump_ptree(L, names)

    # ------------------------------------------------------------------ model
    def plan(self, case, obs):
        """[(step index, step, observation)] of the steps whose navigation calls go to the model"""
        steps = H.steps_of(case)
        all_obs = list(obs.get("steps") or []) + [obs]
        out = []
        for k, (st, o) in enumerate(zip(steps, all_obs)):
            if isinstance(o, dict) and o.get("outcome") == "ok" and not o["unknown"] \
                    and not any(p == -1 for _, p in o["parents"]):
                out.append((k, st, o))
        return steps, out

    def model_req(self, case, obs):
        steps, plan = self.plan(case, obs)
        if not plan:
            return None
        jobs = []
        for k, st, o in plan:
            n = o["n"]
            names = o["names"]
            _, exp = G.expected(st["gram"], st["tree"], PLAIN)
            qs = []
            for qu in st["queries"]:
                if qu[0] == "children":
                    _, root, cf, sel, fol = qu
                    qs.append(["children", root % n, cf, spec_ids(sel, exp), spec_ids(fol, exp)])
                elif qu[0] == "oftype":
                    _, root, cf, typ, as_class, fol = qu
                    qs.append(["oftype", root % n, cf, names.index(typ), spec_ids(fol, exp)])
                else:
                    _, typ, as_class, x = qu
                    qs.append(["pot", names.index(typ), x % n])
            for i in range(n):
                qs.append(["model", i])
            jobs.append({"upto": o["upto"], "heap": o["pheap"], "q": qs})
        reqs = [{"op": "navh", "hist": obs.get("hist") or [], "steps": jobs}]
        if obs.get("outcome") == "ok" and not obs["unknown"] and obs.get("ptree") is not None:
            reqs.append({"op": "build", "mm": obs["mm"], "tree": obs["ptree"],
                         "truth": G.truth_spec(case["gram"], obs["names"])})
        return {"op": "multi", "reqs": reqs}

    def compare(self, case, obs, out):
        if "outs" not in out:
            return f"model rejected the request: {out}"
        steps, plan = self.plan(case, obs)
        nav = out["outs"][0]
        if "steps" not in nav or len(nav["steps"]) != len(plan):
            return f"model rejected the session: {nav}"
        for (k, st, o), a in zip(plan, nav["steps"]):
            where = "" if k == len(steps) - 1 else f"step {k} of the session: "
            if "a" not in a:
                return (f"{where}model: the objects do not fit the attribute lists their classes have after "
                        f"{o['upto']} meta-model construction(s): {a}")
            nq = len(st["queries"])
            for qi, (qu, want, got) in enumerate(zip(st["queries"], a["a"][:nq], o["answers"])):
                if want != got:
                    return f"{where}query {qi} {qu[:4]}: implementation {got}, model {want}"
            for i, (want, got) in enumerate(zip(a["a"][nq:], o["models"])):
                if want != got:
                    return f"{where}get_model(object {i}): implementation {got}, model {want}"
        if len(out["outs"]) > 1:
            b = out["outs"][1]
            if "objs" not in b:
                return f"model process_node failed on the real parse tree: {b}"
            d = self.compare_build(obs, b)
            if d:
                return d
        return None

    def compare_build(self, obs, b):
        objs = {o[0]: o for o in b["objs"]}
        if b["root"] not in objs:
            return f"model process_node returned {b['root']} for the root"
        pairs = [(b["root"], 0)]
        lean_of = {}
        while pairs:
            lid, eid = pairs.pop()
            lean_of[eid] = lid
            lo = objs[lid]
            cls, par, attrs = obs["heap"][eid]
            if lo[1] != cls:
                return f"object {eid}: class {cls} in the implementation, {lo[1]} in the model"
            lattrs = lo[5]
            if len(lattrs) != len(attrs):
                return f"object {eid}: {len(attrs)} attributes in the implementation, {len(lattrs)} in the model"
            for (cont, ids, name), (_, lcont, lids) in zip(attrs, lattrs):
                if not cont:
                    continue
                if len(ids) != len(lids):
                    return f"object {eid}.{name}: {len(ids)} contained objects in the implementation, {len(lids)} in the model"
                for e, l in zip(ids, lids):
                    pairs.append((l, e))
        for eid, lid in lean_of.items():
            want = objs[lid][2]
            pk, p = obs["parents"][eid]
            got = None if p is None else lean_of.get(p, -2)
            if want != got:
                return f"object {eid}: parent {p} in the implementation, model parent {want} (model ids)"
        # C34 on the model of process_node: the geometry holds (C34_geo_of_build) and, when every object the
        # construction allocated is contained in the model, the position map computed from the containment tree
        # is the one textX recorded
        if "geo" in b and b["geo"] is not True:
            return "model: the containment tree of the built model does not have the geometry PosDict.geo"
        pd = obs.get("posdict")
        if pd is not None and "posdict" in b and b.get("nodes") == len(b["objs"]) == len(obs["heap"]):
            eid_of = {l: e for e, l in lean_of.items()}
            want = [[s, e, eid_of.get(i, -2)] for s, e, i in b["posdict"]]
            if pd != want:
                return f"_pos_rule_dict items (start, end, object) = {pd}, model (containment tree of Obj.build) {want}"
        return None

    # ------------------------------------------------------------------ oracle
    def oracle(self, case, obs):
        """every step of the session is judged on its own (the last one = the case's own model)"""
        steps = H.steps_of(case)
        all_obs = list(obs.get("steps") or []) + [obs]
        for k, (st, o) in enumerate(zip(steps, all_obs)):
            if o is None:
                continue
            f = self.judge(st, o)
            if f:
                if k == len(steps) - 1:
                    return f if len(steps) == 1 else f"after {len(steps) - 1} earlier step(s) of the session: {f}"
                return f"step {k} of the session: {f}"
        return None

    def judge(self, case, obs):
        oc = obs.get("outcome")
        if oc == "error" and obs.get("type") == "TextXSemanticError" and uses_parent_attr(case["gram"]):
            return None  # the grammar is rejected (reserved attribute name): there is no model
        if oc == "error" or oc == "other":
            return f"loading the derived model failed: {obs.get('type')} {obs.get('msg')}"
        if oc == "shape":
            return f"model does not have the derived shape: {obs['why']}"
        _, exp = G.expected(case["gram"], case["tree"], PLAIN)
        n = len(exp)
        if obs["unknown"]:
            return f"objects outside the containment tree were visited / returned: {obs['unknown'][:3]}"
        kids = {o["eid"]: [] for o in exp}
        for o in exp:
            if o["parent"] is not None:
                kids[o["parent"]].append(o["eid"])
        # parent links
        for o in exp:
            pk, p = obs["parents"][o["eid"]]
            if o["parent"] is None:
                if p is not None:
                    return f"the root has a parent ({pk})"
            elif p != o["parent"]:
                return f"object {o['eid']} ({o['cls']}) is contained in object {o['parent']} but its parent is {pk} {p}"
        for i, m in enumerate(obs["models"]):
            if m != 0:
                return f"get_model(object {i}) = {m}, expected the root (0)"
        anc = {}
        for o in exp:
            a, p = [], o["parent"]
            while p is not None:
                a.append(p)
                p = exp[p]["parent"]
            anc[o["eid"]] = a
        for qi, (qu, got) in enumerate(zip(case["queries"], obs["answers"])):
            if isinstance(got, dict):
                return f"query {qi} {qu[0]} raised {got.get('exc')}"
            if qu[0] in ("children", "oftype"):
                if qu[0] == "children":
                    _, root, cf, sel, fol = qu
                    sel_ids = set(spec_ids(sel, exp))
                else:
                    _, root, cf, typ, as_class, fol = qu
                    sel_ids = {o["eid"] for o in exp if o["cls"] == typ}
                root %= n
                fol_ids = set(spec_ids(fol, exp))
                reach, todo = [], [root]
                while todo:
                    x = todo.pop()
                    reach.append(x)
                    todo.extend(c for c in kids[x] if c in fol_ids)
                want = {x for x in reach if x in sel_ids}
                if len(set(got)) != len(got):
                    return f"query {qi} {qu[0]}: an object is returned more than once: {got}"
                if set(got) != want:
                    return (f"query {qi} {qu[0]} root={root}: returned {sorted(got)}, the contained objects satisfying "
                            f"the selector (following should_follow) are {sorted(want)}")
                posn = {x: k for k, x in enumerate(got)}
                for b_ in got:
                    for a_ in anc[b_]:
                        if a_ in posn and ((posn[a_] > posn[b_]) != bool(cf)):
                            return (f"query {qi} {qu[0]} children_first={cf}: object {a_} contains object {b_} but "
                                    f"they are returned in the order {got}")
            else:
                _, typ, as_class, x = qu
                x %= n
                want = next((a for a in anc[x] if exp[a]["cls"] == typ), None)
                if got != want:
                    return f"query {qi} get_parent_of_type({typ}, object {x}) = {got}, nearest such ancestor is {want}"
        return None

    # ------------------------------------------------------------------ bookkeeping
    def nontrivial(self, case, obs):
        if obs.get("outcome") != "ok" or obs["n"] < 4:
            return False
        _, exp = G.expected(case["gram"], case["tree"], PLAIN)
        deep = any(o["parent"] is not None and exp[o["parent"]]["parent"] is not None for o in exp)
        hasref = any((not cont) and ids for _, _, attrs in obs["heap"] for cont, ids, _ in attrs)
        partial = False
        for qu, got in zip(case["queries"], obs["answers"]):
            if qu[0] == "children" and isinstance(got, list) and 0 < len(got) < obs["n"]:
                partial = True
        return deep and hasref and partial

    def sample_view(self, case, obs):
        text, exp = G.expected(case["gram"], case["tree"], case["layout"])
        return {"grammar": G.render_grammar(case["gram"]), "text": text[:600], "objects": len(exp),
                "queries": case["queries"][:4], "answers": (obs.get("answers") or [])[:4], "outcome": obs.get("outcome"),
                "earlier_steps_of_the_session": [
                    {"grammar": G.render_grammar(st["gram"]), "share": st["share"], "reuse": st["reuse"],
                     "defer": st["defer"], "drop": st["drop"], "calls": len(st["queries"])}
                    for st in H.steps_of(case)[:-1]]}

    def shrink(self, case):
        yield from H.shrink_history(case)
        for qu in case["queries"]:
            if len(case["queries"]) > 1:
                yield dict(case, queries=[qu])
        if case["layout"] != PLAIN or case.get("file"):
            yield dict(case, layout=PLAIN, file=False)
        for t in G.shrink_tree(case["gram"], case["tree"]):
            yield dict(case, tree=t)

    def extra_search(self, rng, tier, broken):
        return list(self.gen(rng, 600, tier))

    def extra_evidence(self, cases, obs, outs):
        sizes = [o["n"] for o in obs if isinstance(o, dict) and o.get("outcome") == "ok"]
        outcomes = {}
        for o in obs:
            k = o.get("outcome", "crash") if isinstance(o, dict) else "crash"
            outcomes[k] = outcomes.get(k, 0) + 1
        nq = sum(len(c.get("queries", [])) for c in cases)
        user = sum(1 for c in cases if any(r.get("user") for r in c["gram"]["rules"]))
        traits = {}
        for c in cases:
            for t in sorted({t for r in c["gram"]["rules"] for t in (r.get("traits") or ())}):
                traits[t] = traits.get(t, 0) + 1
        # where the falsy objects sit (single-valued / list containment attribute, root) and how often
        # a navigation call had to go through one
        falsy = {"cases": 0, "objects": 0, "in_single_valued_attr": 0, "in_list_attr": 0, "root": 0,
                 "with_children": 0, "calls_returning_one": 0}
        for c, o in zip(cases, obs):
            if not (isinstance(o, dict) and o.get("outcome") == "ok" and "truth" in o):
                continue
            fs = {i for i, t in enumerate(o["truth"]) if not t}
            if not fs:
                continue
            falsy["cases"] += 1
            falsy["objects"] += len(fs)
            falsy["root"] += 1 if 0 in fs else 0
            _, exp = G.expected(c["gram"], c["tree"], PLAIN)
            for e in exp:
                for attr, kind, vals, many in e["attrs"]:
                    if kind == "cont":
                        k = sum(1 for v in vals if v in fs)
                        falsy["in_list_attr" if many else "in_single_valued_attr"] += k
            falsy["with_children"] += len({e["parent"] for e in exp if e["parent"] in fs})
            for got in o["answers"]:
                if isinstance(got, list) and fs & set(got):
                    falsy["calls_returning_one"] += 1
        # sessions: what the histories looked like and how often the situation "the same class object set up with
        # another list of containment attributes than before" was met by a model that has instances of that class
        sess = {"cases": 0, "earlier_steps": 0, "constructions": 0, "steps_sharing_user_classes": 0,
                "steps_with_own_classes": 0, "steps_reusing_the_metamodel": 0, "deferred_steps": 0, "released_steps": 0,
                "class_objects_set_up_again": 0, "with_other_containment_attrs": 0,
                "cases_whose_last_model_has_instances_of_such_a_class": 0, "user_classes_from_callable": 0,
                "cases_with_derived_user_classes": 0, "step_outcomes": {}}
        for c, o in zip(cases, obs):
            if c.get("provider"):
                sess["user_classes_from_callable"] += 1
            if any(r.get("base") for r in c["gram"]["rules"]):
                sess["cases_with_derived_user_classes"] += 1
            if not c.get("history") or not isinstance(o, dict):
                continue
            steps = H.steps_of(c)
            sess["cases"] += 1
            sess["earlier_steps"] += len(steps) - 1
            for st in steps[:-1]:
                sess["steps_reusing_the_metamodel" if st["reuse"] else
                     "steps_sharing_user_classes" if st["share"] else "steps_with_own_classes"] += 1
                sess["deferred_steps"] += 1 if st["defer"] else 0
                sess["released_steps"] += 1 if st["drop"] else 0
            for so in o.get("steps") or []:
                k = so.get("outcome", "?") if isinstance(so, dict) else "none"
                sess["step_outcomes"][k] = sess["step_outcomes"].get(k, 0) + 1
            hist = o.get("hist") or []
            sess["constructions"] += len(hist)
            last, changed = {}, set()
            for b in hist:
                for cid, row in b:
                    cont = [(a, m) for a, m, ct in row if ct]
                    if cid in last:
                        sess["class_objects_set_up_again"] += 1
                        if last[cid] != cont:
                            sess["with_other_containment_attrs"] += 1
                            changed.add(cid)
                    last[cid] = cont
            if changed and o.get("outcome") == "ok" and any(po[0] in changed for po in o.get("pheap") or []):
                sess["cases_whose_last_model_has_instances_of_such_a_class"] += 1
        # multi-typed containment attributes: how many, in which form, what they hold, and how often a type-directed
        # search had to pass through one that belongs to an object below the start object
        mt = {"cases": 0, "elements_by_form": {}, "attributes_with_meta_class_OBJECT": 0, "objects_held": 0,
              "primitive_values_held": 0, "get_children_of_type_calls": 0,
              "calls_whose_result_lies_below_such_an_attribute_of_an_inner_object": 0,
              "cases_with_such_a_call": 0}
        for c, o in zip(cases, obs):
            mels = {(r["name"], e["attr"]): e for r in c["gram"]["rules"] if r["kind"] == "common"
                    for e in r["elems"] if e["k"] == "mcont"}
            mt["get_children_of_type_calls"] += sum(1 for q in c.get("queries", []) if q[0] == "oftype")
            if not mels or not (isinstance(o, dict) and o.get("outcome") == "ok"):
                continue
            mt["cases"] += 1
            for e in mels.values():
                mt["elements_by_form"][e["form"]] = mt["elements_by_form"].get(e["form"], 0) + 1
            mt["attributes_with_meta_class_OBJECT"] += len(o.get("generic") or [])
            _, exp = G.expected(c["gram"], c["tree"], PLAIN)
            via = {}  # object -> it sits directly in a multi-typed attribute
            for e in exp:
                for attr, kind, vals, many in e["attrs"]:
                    if kind == "cont" and (e["cls"], attr) in mels:
                        for v in vals:
                            if v is None:
                                mt["primitive_values_held"] += 1
                            else:
                                mt["objects_held"] += 1
                                via[v] = True
            hit = False
            for q, got in zip(c["queries"], o["answers"]):
                if q[0] != "oftype" or not isinstance(got, list):
                    continue
                root = q[1] % len(exp)
                for x in got:
                    # an edge through a multi-typed attribute on the path root -> x whose owner is not the root
                    y, found = x, False
                    while y != root and exp[y]["parent"] is not None:
                        if via.get(y) and exp[y]["parent"] != root:
                            found = True
                        y = exp[y]["parent"]
                    if found and y == root:
                        mt["calls_whose_result_lies_below_such_an_attribute_of_an_inner_object"] += 1
                        hit = True
                        break
            mt["cases_with_such_a_call"] += 1 if hit else 0
        absn = None
        for o in obs:
            if isinstance(o, dict) and o.get("ptree") is not None:
                absn = G.abs_stats(o["ptree"], absn)
        tools = {"models_with_pos_rule_dict": 0, "compared_with_the_model": 0, "with_objects_sharing_a_span": 0}
        for o, out in zip(obs, outs):
            if not (isinstance(o, dict) and isinstance(o.get("posdict"), list)):
                continue
            tools["models_with_pos_rule_dict"] += 1
            b = (out or {}).get("outs", [None, None])[1] if isinstance(out, dict) and len((out or {}).get("outs", [])) > 1 else None
            if isinstance(b, dict) and "posdict" in b and b.get("nodes") == len(b.get("objs", [])) == len(o["heap"]):
                tools["compared_with_the_model"] += 1
                if len(b["posdict"]) < b["nodes"]:
                    tools["with_objects_sharing_a_span"] += 1
        return {"distribution": {"outcomes": outcomes, "objects_total": sum(sizes), "objects_max": max(sizes or [0]),
                                 "abstract_nodes_with_several_children": absn,
                                 "editor_support_position_maps": tools,
                                 "sessions": sess,
                                 "multi_typed_containment_attributes": mt,
                                 "navigation_calls": nq, "cases_with_user_classes": user,
                                 "cases_per_user_class_trait": traits, "falsy_objects": falsy,
                                 "cases_from_file": sum(1 for c in cases if c.get("file"))}}
