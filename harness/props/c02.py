"""C02 — assignments never lose, duplicate or reorder matched values.

One case = one generated grammar (rule `Model`, optionally a contained rule `Sub`)
whose bodies assign a few attributes several times under nested sequence /
ordered choice / optional / repetition / unordered group, plus a few texts
(derived from the grammar, some mutated).  Repetitions, unordered groups and
list assignments carry repeat modifiers: a separator (string or regex match,
mandatory or able to match nothing, so that written and left-out separators
mix in one list; optionally followed by a keyword with the separator's text =
a trailing separator) and `eolterm` (texts then have line breaks).  Values are
base types, string matches, a user match rule and a contained rule; the two
user rules take their names from a pool that contains `sep` and `list`.
Rules carry rule modifiers (`[skipws]`, `[noskipws]`, `[ws=…]`, `[split=…]`, alone
or combined) over every root shape — a lone assignment, one repetition / optional /
unordered group, a sequence, a choice (`visit_textx_rule` builds the root parsing
expression differently for them); tokens inside a `noskipws` rule are written
without blanks.  Redundant parentheses and packrat memoization are further
dimensions that must not change anything.

Implementation side (`impl`): `metamodel_from_str` -> inferred multiplicities
(`cls._tx_attrs[a].mult`) or the grammar error; per text: the parse tree of the
real parser (which assignment nodes matched which tokens, per object, in input
order), and the outcome of `model_from_str` (attribute values per object or the
error).

Model side: Drivers/Mult.lean, op `case` — multiplicities / rejection per rule
(`Mult.infer`), and per object of every accepted text: is its assignment trace
in `Mult.Events` (the matcher `Mult.accepts`, proved equivalent), and the
result of `Mult.store` on that trace.

Direct oracle (no model): see `oracle`.
"""
import json

from harness.core import Check, Rng, canon, use_repo

ATTRS = ["a", "b", "c"]
SUB_ATTRS = ["x", "y"]
FLAGS = ["f", "g", "h"]
OPS = ["=", "?=", "*=", "+="]
MANY = ("0..*", "1..*")

SUB_NAMES = ["Sub", "Sub", "Sub", "Sub", "sep", "sep", "sep", "list", "Item"]
VAL_NAMES = ["Val", "Val", "Val", "Val", "sep", "sep", "sep", "eolterm", "Elem"]
# separators of repeat modifiers: s = the text written, re = a regex match, alt = a second text the regex
# matches, opt = the regex also matches the empty string (the separator may be left out)
SEPS = [({"s": ","}, 36), ({"s": "|"}, 8), ({"s": ",", "re": True}, 6), ({"s": ",", "re": True, "alt": ";"}, 8),
        ({"s": ",", "re": True, "opt": True}, 24), ({"s": "|", "re": True, "opt": True}, 10),
        ({"s": ",", "re": True, "alt": ";", "opt": True}, 8)]

# rule modifiers: (list of [name, value or None], weight); ws values always contain the blank
RULE_PARAMS = [([["skipws", None]], 30), ([["noskipws", None]], 22), ([["ws", " \\t\\n"]], 10), ([["ws", " \\t"]], 6),
               ([["ws", " \t\n"]], 4), ([["split", "/"]], 8), ([["skipws", None], ["ws", " \\t\\n"]], 8),
               ([["ws", " \\n"], ["noskipws", None]], 6), ([["split", "."], ["skipws", None]], 6)]

INT_VALUES = ["0", "0", "0", "1", "2", "7", "42", "-3"]
FLOAT_VALUES = ["0.0", "0.0", "2.5", "1.0", "7.25"]
BOOL_VALUES = ["false", "false", "true", "0", "1"]
STRING_VALUES = ['""', "''", '""', '"x"', "'y z'", '"0"']
ID_VALUES = ["foo", "bar", "x1", "true"]
# reference values (`a=[Decl]`): names of the declared objects (handed to the metamodel as builtins, together
# with every other identifier-like token a text may contain, so that every reference of every text resolves)
REF_NAMES = ["d0", "d1", "d2", "d3", "d4", "d5", "d6", "d7"]
DECL_NAMES = REF_NAMES + ID_VALUES + ["false"]
DELAYS = [(0, 5), (1, 4), (2, 2), (3, 1)]
PROVIDER_KEYS = ["*.*", "class.attr", "*.attr", "class.*"]


# --------------------------------------------------------------------------
# grammar AST helpers
# --------------------------------------------------------------------------
def kids(n):
    k = n["k"]
    if k in ("seq", "alt", "un"):
        return n["xs"]
    if k in ("opt", "rep"):
        return [n["x"]]
    return []


def walk_nodes(n):
    yield n
    for c in kids(n):
        yield from walk_nodes(c)


def normalize(n):
    """What the grammar text means: one-element sequences / choices are the
    element; `( s )#` over a single sequence or choice is the group of its
    elements."""
    r = _normalize(n)
    if n.get("par") and not r.get("par"):
        r = dict(r, par=True)  # redundant parentheses: written, mean nothing
    return r


def _normalize(n):
    k = n["k"]
    if k in ("seq", "alt"):
        xs = [normalize(x) for x in n["xs"]]
        return xs[0] if len(xs) == 1 else {"k": k, "xs": xs}
    if k == "un":
        xs = [normalize(x) for x in n["xs"]]
        if len(xs) == 1 and xs[0]["k"] in ("seq", "alt"):
            xs = xs[0]["xs"]
        return {"k": "un", "xs": xs, "form": n.get("form", "seq"), "sep": sep_of(n)}
    if k == "opt":
        return {"k": "opt", "x": normalize(n["x"])}
    if k == "rep":
        return {"k": "rep", "plus": n["plus"], "sep": sep_of(n), "eol": bool(n.get("eol")), "x": normalize(n["x"])}
    return dict(n)


def sep_of(n):
    """The separator of the node's repeat modifiers: None or {"s", "re", "alt", "opt"} (`True` in older
    corpus cases = the string match ',')."""
    s = n.get("sep")
    if not s:
        return None
    if s is True:
        return {"s": ","}
    return s


def render_sep(sep):
    def esc(t):
        return "\\" + t if t in "|.?*+()[]" else t

    if not sep.get("re"):
        return "'" + sep["s"] + "'"
    if sep.get("alt"):
        pat = "[" + sep["s"] + sep["alt"] + "]"
    elif sep.get("opt") and esc(sep["s"]) != sep["s"]:
        pat = "(" + esc(sep["s"]) + ")"
    else:
        pat = esc(sep["s"])
    return "/" + pat + ("?" if sep.get("opt") else "") + "/"


def modifiers(n):
    parts = []
    sep = sep_of(n)
    if sep:
        parts.append(render_sep(sep))
    if n.get("eol"):
        # the modifiers may be written in any order
        parts.insert(0 if n["eol"] == "first" else len(parts), "eolterm")
    return "[" + " ".join(parts) + "]" if parts else ""


def render_rhs(a, names=None):
    t = a["rhs"]
    if t.startswith("LIT:"):
        return "'" + t[4:] + "'"
    if t == "Ref":
        return "[Decl]"
    return (names or {}).get(t, t)


def render(n, ctx="top", names=None):
    """ctx: top (rule body / inside parentheses), alt (alternative of a choice), seq (element of a
    sequence), post (operand of a postfix operator).  Nested sequences and choices are parenthesised so
    that the parser model textX builds has the shape of the AST.  A node with `par` is written in
    (redundant) parentheses of its own."""
    if n.get("par"):
        return "(" + render({kk: v for kk, v in n.items() if kk != "par"}, "top", names) + ")"
    k = n["k"]
    if k == "kw":
        return "'" + n["s"] + "'"
    if k == "asgn":
        s = f"{n['a']}{n['op']}{render_rhs(n, names)}"
        mods = modifiers(n) if n["op"] in ("*=", "+=") else ""
        if mods:
            s += mods
            if ctx == "post":
                s = f"({s})"
        return s
    if k == "seq":
        s = " ".join(render(x, "seq", names) for x in n["xs"])
        return f"({s})" if ctx in ("seq", "post") else s
    if k == "alt":
        s = " | ".join(render(x, "alt", names) for x in n["xs"])
        return f"({s})" if ctx in ("alt", "seq", "post") else s
    if k == "opt":
        s = render(n["x"], "post", names) + "?"
    elif k == "rep":
        s = render(n["x"], "post", names) + ("+" if n["plus"] else "*") + modifiers(n)
    elif k == "un":
        if n.get("form") == "alt" and len(n["xs"]) > 1:
            inner = " | ".join(render(x, "alt", names) for x in n["xs"])
        else:
            inner = " ".join(render(x, "seq", names) for x in n["xs"])
        s = f"({inner})#" + modifiers({"sep": n.get("sep")})
    else:
        raise ValueError(k)
    return f"({s})" if ctx == "post" else s


def names_of(case):
    """internal rule key -> the name the rule has in the grammar text"""
    n = case.get("names") or {}
    return {"Model": "Model", "Sub": n.get("Sub", "Sub"), "Val": n.get("Val", "Val")}


def val_rule(case):
    """The user match rule `Val`: {"kind": "re"} = an identifier-like regex, {"kind": "alt", "alts": [T1, T2]} =
    an ordered choice of two base types."""
    return case.get("val") or {"kind": "re"}


def rule_params(case, rule):
    """The rule modifiers of the rule: [[name, value or None], …] (name: skipws | noskipws | ws | split)."""
    return (case.get("params") or {}).get(rule) or []


def render_params(ps):
    if not ps:
        return ""
    return "[" + ", ".join(n if v is None else f"{n}='{v}'" for n, v in ps) + "]"


def skips_ws(ps, inherited):
    """Does a rule with these modifiers skip whitespace (the last of skipws / noskipws counts; without one
    the rule behaves like the rule it is called from)?"""
    for n, _ in ps:
        if n in ("skipws", "noskipws"):
            inherited = n == "skipws"
    return inherited


def grammar_text(case):
    rules = case["rules"]
    names = names_of(case)
    out = [f"Model{render_params(rule_params(case, 'Model'))}: {render(normalize(rules['Model']), 'top', names)} ;"]
    if "Sub" in rules:
        head = f"{names['Sub']}{render_params(rule_params(case, 'Sub'))}: "
        if case.get("sub_bare"):
            out.append(head + f"{render(normalize(rules['Sub']), 'top', names)} ;")
        else:
            out.append(head + f"'@sub' {render(normalize(rules['Sub']), 'seq', names)} ;")
    if any(uses_rhs(b, "Val") for b in rules.values()):
        v = val_rule(case)
        body = "/[a-z][a-z0-9]*/" if v["kind"] == "re" else " | ".join(v["alts"])
        out.append(f"{names['Val']}: {body} ;")
    if uses_refs(case):
        out.append("Decl: 'decl' name=ID ;")
    return "\n".join(out) + "\n"


def rule_attrs(body):
    seen = []
    for n in walk_nodes(body):
        if n["k"] == "asgn" and n["a"] not in seen:
            seen.append(n["a"])
    return seen


def lean_body(n, idx):
    k = n["k"]
    if k == "kw":
        return {"k": "leaf"}
    if k == "asgn":
        return {"k": "asgn", "a": idx[n["a"]], "op": n["op"]}
    if k in ("seq", "alt", "un"):
        return {"k": k, "xs": [lean_body(x, idx) for x in n["xs"]]}
    if k == "opt":
        return {"k": "opt", "x": lean_body(n["x"], idx)}
    if k == "rep":
        return {"k": "rep", "plus": bool(n["plus"]), "x": lean_body(n["x"], idx)}
    raise ValueError(k)


def rule_body(case, rule):
    """The body as textX sees it (Sub has its leading keyword, unless the case writes it bare)."""
    b = normalize(case["rules"][rule])
    if rule == "Sub" and not case.get("sub_bare"):
        b = {"k": "seq", "xs": [{"k": "kw", "s": "@sub"}, b]}
    return b


# --------------------------------------------------------------------------
# the property's reading, directly on the grammar AST (used by the oracle only)
# --------------------------------------------------------------------------
def cnt_add(x, y):
    return min(2, x + y)


def count_spec(n, attr):
    """0, 1 or 2 (= many): how many values one object can collect for `attr`."""
    k = n["k"]
    if k == "kw":
        return 0
    if k == "asgn":
        if n["a"] != attr:
            return 0
        return 2 if n["op"] in ("*=", "+=") else 1
    if k in ("seq", "un"):
        c = 0
        for x in n["xs"]:
            c = cnt_add(c, count_spec(x, attr))
        return c
    if k == "alt":
        return max(count_spec(x, attr) for x in n["xs"])
    if k == "opt":
        return count_spec(n["x"], attr)
    if k == "rep":
        return 0 if count_spec(n["x"], attr) == 0 else 2
    raise ValueError(k)


def bool_rejection_expected(body):
    """The two documented grammar-level restrictions of `?=`."""
    sites = {}
    for n in walk_nodes(body):
        if n["k"] == "asgn":
            sites.setdefault(n["a"], []).append(n["op"])
    if any("?=" in ops and len(ops) > 1 for ops in sites.values()):
        return True

    def in_rep(n, r):
        if n["k"] == "asgn":
            return r and n["op"] == "?="
        if n["k"] == "rep":
            return in_rep(n["x"], True)
        return any(in_rep(c, r) for c in kids(n))

    return in_rep(body, False)


# --------------------------------------------------------------------------
# values
# --------------------------------------------------------------------------
def convert(kind, text):
    """Token text -> Python value, by the documented base type semantics."""
    if kind == "INT":
        return int(text)
    if kind == "FLOAT":
        return float(text)
    if kind == "BOOL":
        return text == "1" or text.lower() == "true"
    if kind == "STRING":
        return text[1:-1]
    return text  # ID, string match


def prim(v):
    if v is None:
        return {"p": "none"}
    if isinstance(v, bool):
        return {"p": "bool", "v": v}
    if isinstance(v, int):
        return {"p": "int", "v": v}
    if isinstance(v, float):
        return {"p": "float", "v": repr(v)}
    if isinstance(v, str):
        return {"p": "str", "v": v}
    return {"p": type(v).__name__, "v": repr(v)[:60]}


def truthy(cv):
    """Python truthiness of a canonical value."""
    if "obj" in cv:
        return True
    p = cv.get("p")
    if p == "none":
        return False
    if p == "float":
        return float(cv["v"]) != 0.0
    if p in ("int", "bool", "str"):
        return bool(cv["v"])
    return True


# --------------------------------------------------------------------------
# generator
# --------------------------------------------------------------------------
class G:
    def __init__(self, rng, attrs, numeric, allow_sub, allow_val=False, allow_ref=False):
        self.allow_ref = allow_ref
        self.rng = rng
        self.attrs = attrs
        self.numeric = numeric
        self.allow_sub = allow_sub
        self.allow_val = allow_val
        self.kw = 0
        self.lit = 0
        self.pref = {}
        self.sites = 0
        self.flags_used = []
        self.kw_always = False

    def keyword(self):
        self.kw += 1
        return {"k": "kw", "s": "@%02d" % (self.kw % 100)}

    def literal(self):
        self.lit += 1
        return "LIT:=%02d" % (self.lit % 100)

    def vtype(self, attr):
        rng = self.rng
        if attr not in self.pref:
            pool = [("NUM", 5), ("STRING", 3), ("BOOL", 2), ("ID", 1), ("LIT", 1)]
            if self.allow_sub:
                pool.append(("Sub", 3))
            if self.allow_val:
                pool.append(("Val", 3))
            if self.allow_ref:
                pool.append(("Ref", 30))
            self.pref[attr] = rng.weighted(pool)
        if self.pref[attr] == "Ref":
            # an attribute holds references at all of its sites or at none (textX decides per attribute)
            return "Ref"
        t = self.pref[attr] if rng.chance(0.8) else rng.choice(["NUM", "STRING", "BOOL", "ID", "LIT"])
        if t == "NUM":
            t = "FLOAT" if self.numeric == "FLOAT" else "INT"
        if t == "BOOL" and self.numeric == "FLOAT":
            t = "FLOAT"
        if t == "LIT":
            t = self.literal()
        return t

    def site(self):
        rng = self.rng
        self.sites += 1
        attr = rng.choice(self.attrs)
        op = rng.weighted([("=", 70), ("+=", 10), ("*=", 8), ("?=", 10)])
        if op == "?=" and rng.chance(0.85):
            # a flag attribute of its own (a second assignment to it is rejected by textX)
            free = [f for f in FLAGS if f not in self.flags_used]
            if free:
                attr = free[0]
                self.flags_used.append(attr)
        if op == "?=":
            rhs = self.literal() if rng.chance(0.8) else self.vtype(attr)
        else:
            rhs = self.vtype(attr)
        a = {"k": "asgn", "a": attr, "op": op, "rhs": rhs}
        tail = None
        if op in ("*=", "+="):
            self.modifiers(a, 0.5)
            if a.get("sep") and rng.chance(0.3):
                # trailing separator: a keyword with the separator's text after the list (`x+=X[','] ','?`) —
                # Arpeggio then leaves the separator's node at the end of the list node and matches the text again
                tail = {"k": "kw", "s": a["sep"]["s"]}
                if rng.chance(0.6):
                    tail = {"k": "opt", "x": tail}
        xs = ([self.keyword()] if rng.chance(0.65) or self.kw_always else []) + [a] + ([tail] if tail else [])
        return {"k": "seq", "xs": xs} if len(xs) > 1 else a

    def modifiers(self, node, p):
        """repeat modifiers of a repetition / list assignment / unordered group"""
        rng = self.rng
        if rng.chance(p):
            node["sep"] = dict(rng.weighted(SEPS))
        if node["k"] != "un" and rng.chance(0.08):
            node["eol"] = rng.choice([True, True, "first"])

    def body(self, depth, force=None):
        node = self.body_(depth, force)
        if node["k"] != "kw" and self.rng.chance(0.05):
            node["par"] = True
        return node

    def body_(self, depth, force=None):
        rng = self.rng
        if force is None and (depth <= 0 or self.sites >= 7):
            return self.site() if rng.chance(0.9) else self.keyword()
        k = force or rng.weighted([("site", 30), ("seq", 26), ("alt", 18), ("opt", 8), ("rep", 9), ("un", 7), ("kw", 2)])
        if k == "site":
            return self.site()
        if k == "kw":
            return self.keyword()
        if k in ("seq", "alt", "un"):
            n = rng.weighted([(2, 6), (3, 3), (1, 1)]) if k != "seq" else rng.weighted([(2, 5), (3, 4), (4, 1)])
            node = {"k": k, "xs": [self.body(depth - 1) for _ in range(n)]}
            if k == "un":
                node["form"] = rng.choice(["seq", "alt"])
                self.modifiers(node, 0.15)
            return node
        if k == "opt":
            return {"k": "opt", "x": self.body(depth - 1)}
        node = {"k": "rep", "plus": rng.chance(0.4), "x": self.body(depth - 1)}
        self.modifiers(node, 0.3)
        return node


def nullable(n):
    k = n["k"]
    if k == "kw":
        return False
    if k == "asgn":
        return n["op"] in ("*=", "?=")
    if k in ("seq", "un"):
        return all(nullable(x) for x in n["xs"])
    if k == "alt":
        return any(nullable(x) for x in n["xs"])
    if k == "opt":
        return True
    if k == "rep":
        return (not n["plus"]) or nullable(n["x"])
    raise ValueError(k)


def kw_first(n):
    """Does every non-empty match of `n` start with a keyword?"""
    k = n["k"]
    if k == "kw":
        return True
    if k == "asgn":
        return False
    if k == "seq":
        for x in n["xs"]:
            if not kw_first(x):
                return False
            if not nullable(x):
                return True
        return True
    return all(kw_first(c) for c in kids(n))


def can_be_bare(body):
    """The contained rule may be written without its leading keyword `@sub` (its body is then the whole
    rule, with a root of any shape) when it cannot match the empty string and always starts with a keyword:
    an object then still starts at a token that no value of a list before it can swallow."""
    b = normalize(body)
    return not nullable(b) and kw_first(b)


def top_glue(case):
    """Are the tokens of the rule `Model` written without blanks (the rule, or else the metamodel, says
    noskipws)?"""
    return not skips_ws(rule_params(case, "Model"), bool(case.get("mm_skipws", True)))


def loops_forever(n, in_rep=False):
    """Arpeggio: an ordered choice accepts an alternative that matched nothing (`x*` gives `[]`) and
    wraps it into a truthy `[[]]`, an optional does the same; a repetition around such a result never
    ends (no input is consumed).  Such grammars are outside the property (nothing is ever accepted) and
    are not generated: below a repetition, no choice with a nullable alternative and no optional with a
    nullable operand."""
    k = n["k"]
    if in_rep and k == "alt" and any(nullable(x) for x in n["xs"]):
        return True
    if in_rep and k == "opt" and nullable(n["x"]):
        return True
    if k == "rep":
        return loops_forever(n["x"], True)
    return any(loops_forever(c, in_rep) for c in kids(n))


def has_asgn(n):
    return any(x["k"] == "asgn" for x in walk_nodes(n))


def uses_rhs(n, key):
    return any(x["k"] == "asgn" and x["rhs"] == key for x in walk_nodes(n))


def uses_sub(n):
    return uses_rhs(n, "Sub")


def uses_refs(case):
    return any(uses_rhs(b, "Ref") for b in case["rules"].values())


def gen_case(rng, refs=False):
    """refs: the reference dimension — attributes whose values are references (`a=[Decl]`, `a+=[Decl]`, …); the
    values then reach the object in the reference resolution, in the order the scope provider answers (texts
    with a resolution history: every reference is answered Postponed 0..3 times first)."""
    numeric = "FLOAT" if rng.chance(0.12) else "INT"
    allow_sub = rng.chance(0.35)
    allow_val = rng.chance(0.3)
    nattrs = rng.weighted([(1, 2), (2, 5), (3, 3)])
    depth = rng.weighted([(1, 2), (2, 5), (3, 4)])
    # rule modifiers; the root shape of a rule with modifiers is drawn on its own, so that every shape
    # `visit_textx_rule` tells apart (lone assignment, one repetition / optional / unordered group,
    # sequence, choice) meets every kind of modifier often
    params = {}
    force = None
    if rng.chance(0.4):
        params["Model"] = [list(x) for x in rng.weighted(RULE_PARAMS)]
        force = rng.weighted([(None, 40), ("rep", 22), ("un", 16), ("opt", 8), ("site", 6), ("seq", 4), ("alt", 4)])
    for _ in range(20):
        g = G(rng, ATTRS[:nattrs], numeric, allow_sub, allow_val, refs)
        body = g.body(max(depth, 1) if force else depth, force)
        if not has_asgn(body):
            body = {"k": "seq", "xs": [body, g.site()]}
        if not loops_forever(normalize(body)):
            break
    else:
        body = {"k": "seq", "xs": [g.site(), g.site()]}
    rules = {"Model": body}
    bare = False
    if uses_sub(body):
        sdepth = rng.weighted([(1, 4), (2, 4)])
        # the contained rule is written `'@sub' body` or, where that is unambiguous, bare (`body` is the whole
        # rule and its root has any shape); a bare rule gets a keyword before every assignment
        bare = rng.chance(0.4)
        sforce = rng.weighted([(None, 40), ("rep", 30), ("un", 20), ("alt", 10)]) if bare else None
        for _ in range(20):
            gs = G(rng, SUB_ATTRS[: rng.randint(1, 2)], numeric, False, allow_val, refs)
            gs.kw, gs.lit = 50, 50
            gs.kw_always = bare
            sb = gs.body(sdepth, sforce)
            if not has_asgn(sb):
                sb = {"k": "seq", "xs": [sb, gs.site()]}
            if not loops_forever(normalize(sb)) and (not bare or can_be_bare(sb)):
                break
        else:
            sb = gs.site()
        rules["Sub"] = sb
    case = {"rules": rules, "auto_init": rng.chance(0.7), "texts": []}
    if "Sub" in rules and rng.chance(0.6 if bare else 0.35):
        params["Sub"] = [list(x) for x in rng.weighted(RULE_PARAMS)]
    if params:
        case["params"] = params
    if rng.chance(0.2):
        case["memo"] = True  # packrat parsing: must not change anything
    if rng.chance(0.06):
        case["mm_skipws"] = False  # metamodel parameter: the same as [noskipws] on every rule that says nothing
    if "Sub" in rules and bare and can_be_bare(rules["Sub"]):
        case["sub_bare"] = True
    names = {}
    if "Sub" in rules:
        names["Sub"] = rng.choice(SUB_NAMES)
    if any(uses_rhs(b, "Val") for b in rules.values()):
        names["Val"] = rng.choice([x for x in VAL_NAMES if x != names.get("Sub")])
        num = "FLOAT" if numeric == "FLOAT" else "INT"
        case["val"] = rng.choice([{"kind": "re"}, {"kind": "re"}, {"kind": "alt", "alts": [num, "ID"]},
                                  {"kind": "alt", "alts": ["STRING", num]}, {"kind": "alt", "alts": [num, "STRING"]}])
    if names:
        case["names"] = names
    if refs:
        case["prov"] = {"key": rng.choice(PROVIDER_KEYS + [None]), "answer": rng.choice(["object", "none"])}
    case["texts"] = gen_texts(case, rng, 3)
    return case


def sep_token(sep, rng, out, glue=False):
    """One occurrence of the separator: a separator that can match nothing is left out half of the time."""
    if sep.get("opt") and rng.chance(0.5):
        return
    t = sep["s"]
    if sep.get("alt") and rng.chance(0.5):
        t = sep["alt"]
    out.append(tok("sep", t, glue))


def value_token(rhs, rng, numeric, case=None):
    if rhs.startswith("LIT:"):
        return rhs[4:]
    if rhs == "Val":
        v = val_rule(case or {})
        if v["kind"] == "re":
            return rng.choice(ID_VALUES)
        return value_token(rng.choice(v["alts"]), rng, numeric)
    if rhs == "INT":
        return rng.choice(INT_VALUES)
    if rhs == "FLOAT":
        return rng.choice(FLOAT_VALUES)
    if rhs == "BOOL":
        return rng.choice(BOOL_VALUES)
    if rhs == "STRING":
        return rng.choice(STRING_VALUES)
    if rhs == "ID":
        return rng.choice(ID_VALUES)
    if rhs == "Ref":
        return rng.choice(REF_NAMES)
    raise ValueError(rhs)


def tok(kind, text, glue):
    return [kind, text, 1] if glue else [kind, text]


def derive(n, rng, case, out, fuel, glue=False):
    """Append tokens [kind, text] of one derivation of `n` (kind: kw | val | sep | nl); a token matched inside
    a rule that does not skip whitespace is [kind, text, 1] = written without a blank before it."""
    k = n["k"]
    if k == "kw":
        out.append(tok("kw", n["s"], glue))
    elif k == "asgn":
        def one():
            if n["rhs"] == "Sub":
                # the contained rule's own modifiers decide from its first token on, the caller's again after it
                g = not skips_ws(rule_params(case, "Sub"), not glue)
                if not case.get("sub_bare"):
                    out.append(tok("kw", "@sub", g))
                derive(normalize(case["rules"]["Sub"]), rng, case, out, fuel, g)
            else:
                out.append(tok("val", value_token(n["rhs"], rng, None, case), glue))
        op = n["op"]
        if op == "=":
            one()
        elif op == "?=":
            if rng.chance(0.6):
                one()
        else:
            sep = sep_of(n)
            cnt = rng.weighted([(0, 2), (1, 3), (2, 4), (3, 1)] if not sep else [(0, 2), (1, 2), (2, 4), (3, 2), (4, 1)])
            if op == "+=":
                cnt = max(cnt, 1)
            for i in range(cnt):
                if i and sep:
                    sep_token(sep, rng, out, glue)
                one()
            if n.get("eol") and rng.chance(0.75):
                out.append(["nl", "\n"])
    elif k == "seq":
        for x in n["xs"]:
            derive(x, rng, case, out, fuel, glue)
    elif k == "alt":
        derive(rng.choice(n["xs"]), rng, case, out, fuel, glue)
    elif k == "opt":
        if rng.chance(0.6):
            derive(n["x"], rng, case, out, fuel, glue)
    elif k == "rep":
        cnt = rng.weighted([(0, 2), (1, 3), (2, 4), (3, 1)])
        if n["plus"]:
            cnt = max(cnt, 1)
        if len(out) > fuel:
            cnt = min(cnt, 1)
        sep = sep_of(n)
        for i in range(cnt):
            it = []
            derive(n["x"], rng, case, it, max(0, fuel - len(out)), glue)
            if i and sep:
                if not it:
                    break  # an empty iteration ends the repetition
                sep_token(sep, rng, out, glue)
            out.extend(it)
        if n.get("eol") and rng.chance(0.75):
            out.append(["nl", "\n"])
    elif k == "un":
        sep = sep_of(n)
        first = True
        for x in rng.shuffle(n["xs"]):
            it = []
            derive(x, rng, case, it, max(0, fuel - len(out)), glue)
            if it and sep and not first:
                sep_token(sep, rng, out, glue)
            first = first and not it
            out.extend(it)
    else:
        raise ValueError(k)


def gen_texts(case, rng, n):
    texts = []
    body = normalize(case["rules"]["Model"])
    for i in range(n):
        toks = []
        derive(body, rng, case, toks, 14, top_glue(case))
        origin = "derived"
        if i == n - 1 and toks and rng.chance(0.5):
            origin = "mutated"
            j = rng.below(len(toks))
            m = rng.choice(["drop", "dup", "swap", "falsy", "nl"] if has_eol(case) else ["drop", "dup", "swap", "falsy"])
            if m == "nl":
                toks = toks[:j] + [["nl", "\n"]] + toks[j:]
            elif m == "drop":
                toks = toks[:j] + toks[j + 1:]
            elif m == "dup":
                toks = toks[: j + 1] + toks[j:]
            elif m == "swap" and len(toks) > 1:
                j = rng.below(len(toks) - 1)
                toks[j], toks[j + 1] = toks[j + 1], toks[j]
            else:
                vs = [q for q, t in enumerate(toks) if t[0] == "val" and t[1][:1] in "0123456789-"]
                if vs:
                    q = rng.choice(vs)
                    toks[q] = ["val", "0"] + toks[q][2:]
        t = {"tokens": toks[:40], "origin": origin}
        if uses_refs(case) and rng.chance(0.8):
            # the resolution history: how often the scope provider answers Postponed for the reference that
            # starts at this token (one entry per token; used only where a reference is matched there)
            t["delays"] = [rng.weighted(DELAYS) if x[0] == "val" and x[1] in DECL_NAMES else 0 for x in t["tokens"]]
        texts.append(t)
    return texts


def has_eol(case):
    return any(n.get("eol") for b in case["rules"].values() for n in walk_nodes(b))


def can_glue(prev, cur):
    """May `cur` be written directly after `prev` so that the two are still read as these two tokens?
    Keywords (`@NN`, `@sub`), separators, string-match values (`=NN`) and quoted strings end by themselves; a
    word-like value (number, boolean, identifier) must be followed by a token that starts with none of its
    characters."""
    if prev[0] in ("kw", "sep", "nl") or prev[1][:1] in ("=", '"', "'"):
        return True
    return cur[0] == "nl" or cur[1][:1] in ("@", "=", ",", "|", ";", '"', "'")


def layout(t):
    """(text, [offset of every token]): tokens are separated by one blank, except a token of a rule that
    does not skip whitespace (third element 1), which follows its predecessor directly where that is
    unambiguous (elsewhere the blank stays and the text is simply not in the language)."""
    parts, offs, pos, prev = [], [], 0, None
    for x in t["tokens"]:
        if prev is not None and not (len(x) > 2 and x[2] and can_glue(prev, x)):
            parts.append(" ")
            pos += 1
        offs.append(pos)
        parts.append(x[1])
        pos += len(x[1])
        prev = x
    return "".join(parts), offs


def text_of(t):
    return layout(t)[0]


def token_kinds(t):
    """offset in `text_of(t)` -> kind of the token that starts there (kw | val | sep | nl)"""
    return {o: x[0] for o, x in zip(layout(t)[1], t["tokens"])}


# --------------------------------------------------------------------------
# watchdog: the code under test must not hang the run (a repetition over a
# body that succeeds without consuming input never ends in Arpeggio)
# --------------------------------------------------------------------------
class Watchdog(BaseException):
    pass


class watchdog:
    def __init__(self, seconds):
        self.seconds = seconds

    def __enter__(self):
        import signal
        import threading

        self.active = threading.current_thread() is threading.main_thread()
        if self.active:
            def handler(sig, frm):
                raise Watchdog()

            # CPU time of this process, not wall time: a loaded machine must not look like a hang
            self.old = signal.signal(signal.SIGPROF, handler)
            signal.setitimer(signal.ITIMER_PROF, self.seconds)
        return self

    def __exit__(self, *a):
        import signal

        if self.active:
            signal.setitimer(signal.ITIMER_PROF, 0)
            signal.signal(signal.SIGPROF, self.old)
        return False


# --------------------------------------------------------------------------
# the check
# --------------------------------------------------------------------------
class Prop(Check):
    ID = "C02"
    LEAN_MODULE = "TextxVerif.Props.C02"
    THEOREMS = [
        "Mult.C02_list_iff",
        "Mult.C02_list_iff_collect",
        "Mult.C02_scalar_once",
        "Mult.C02_store",
        "Mult.C02_no_overwrite",
        "Mult.C02_accepts_iff",
        "Mult.C02_store_raw",
        "Mult.C02_list_node",
        "Mult.C02_list_node_nosep",
        "Mult.C02_sep_by_place_false",
        "Mult.C02_unrepaired_false",
        "Mult.C02_bool_then_plain_rejected",
        "Mult.C02_rule_root",
        "Mult.C02_rule_list_iff",
        "Mult.C02_rule_list_iff_collect",
        "Mult.C02_rule_store_raw",
        "Mult.C02_skip_single_root_false",
        "Tx.C02_walk_bridge",
        "Tx.C02_ruleClass_bridge",
        "Tx.C02_ruleClass_list_iff",
        "Tx.C02_compile_list_iff",
        "Tx.C02_rule_root_bridge",
        "Tx.C02_tx_pinned_walk_false",
        "Mult.Ref.C02_ref_any_order",
        "Mult.Ref.C02_ref_history",
        "Mult.Ref.C02_ref_stale_false",
    ]
    DRIVER = "Drivers/Mult.lean"
    QUICK_CASES = 300
    THOROUGH_CASES = 20000
    PROCS_THOROUGH = 4
    RULE = ("grammar whose rule bodies assign <=3 attributes at <=7 sites under nested sequence / ordered choice / "
            "optional / repetition / unordered group with all four operators and INT, FLOAT, BOOL, STRING, ID, "
            "string-match, user-match-rule (regex or choice of base types) and contained-object values; repetitions, "
            "list assignments and unordered groups with repeat modifiers: separator = string or regex match, mandatory "
            "or able to match nothing (then written or left out at random per occurrence), optionally a trailing "
            "separator keyword after a list assignment, eolterm (texts with line breaks); user rule names from a pool "
            "with `sep`, `list`, `eolterm`; rule modifiers ([skipws], [noskipws], [ws=…], [split=…], combined) on 40 % of the "
            "Model rules and 35 % of the contained rules, the root shape of a rule with modifiers drawn on its own "
            "(lone assignment / one repetition / optional / unordered group / sequence / choice), tokens inside a "
            "noskipws rule written without blanks; redundant parentheses (5 % per node), packrat memoization (20 %); "
            "metamodel-wide skipws=False (6 %); the contained rule 40 % of the time without its leading "
            "keyword (then a keyword before each of its assignments; its root has any shape); 3 texts each (derived; one in two mutated; falsy "
            "values 0, \"\", false favoured); non-trivial = the grammar is accepted, some attribute is assigned at "
            ">=2 sites or below a repetition or with *= / +=, and at least one text is accepted in which some object "
            "gets >=2 values for one attribute or a falsy value; plus QUICK/5 cases of the reference dimension: the same bodies "
            "with reference-valued attributes (a=[Decl] …), declared objects as builtins, per text a resolution history "
            "(each reference answered Postponed 0..3 steps), provider registered as *.* / Class.attr / *.attr / Class.* / "
            "none; plus the reference-list family (6 shapes x 27 histories of three references; 30 sampled in quick)")
    MODELLED = ("hand-modelled: lang.py visit_assignment (operator base multiplicities, ?= rejection) and "
                "_update_attr_multiplicities (Mult.visit / Mult.walk), started from the root expression visit_textx_rule makes of rule "
                "modifiers + body (Mult.Rule.root: one-element sequence around a lone assignment / around a non-sequence "
                "body of a rule with modifiers); model.py process_node assignment branch and "
                "metamodel.py _init_obj_attrs (Mult.store / Mult.initHeap), the list branch on the raw node with its "
                "separator children skipped by the identity of the separator match (Mult.storeKids / Mult.storeRaw); "
                "tie X: op case — multiplicity per "
                "attribute and grammar rejection vs the metamodel, assignment trace of every object of every real "
                "parse tree checked for membership in Mult.Events by the verified matcher, Mult.storeRaw replay of the "
                "raw trace (list nodes with all children and the parsing expression that made each) vs the attribute "
                "values of the real model object, the children the model keeps vs the value tokens of the text; not exhibited: Arpeggio's parsing itself "
                "(traces are taken from its parse trees), user classes, object processors; reference values: "
                "model.py ReferenceResolver.resolve_one_step, insertion of a resolved reference into a list by its text "
                "position (Mult.Ref.resolveRef / resolveAll, order of resolution of a Postponed history = scheduleOf), "
                "replayed per reference list with the text's history and compared with the real list")
    ASSUMPTIONS = [
        "attribute defaults are Python-falsy (None, 0, '', False, 0.0) — checked on every unassigned scalar attribute",
        "the assignment trace of an object is what Arpeggio's parse tree shows below the object's node (children with rule name __asgn_*, in order)",
        "Events over-approximates the traces of an unordered group (an element's trace may be inserted anywhere in the trace of the others)",
        "a child of a list assignment node is a value iff it is a contained object or starts at a value token of the generated text (separator, keyword and value tokens are disjoint by construction); the model instead skips the children made by the repetition's separator match — both are compared on every list node",
        "references resolve to declared objects handed to the metamodel as builtins; the scope provider of the harness answers Postponed a drawn number of times per reference, then the object (or None = builtins fallback); a reference is observed by the name of its target",
        "an attribute holds references at all of its assignment sites or at none",
    ]

    # ---- generation ------------------------------------------------------
    def gen(self, rng, n, tier):
        for _ in range(n):
            yield gen_case(rng)
        # the reference dimension (a stream of its own: the cases above stay what they were)
        rr = rng.fork("refs")
        for _ in range(n // 5):
            yield gen_case(rr, refs=True)
        fam = list(ref_family(rr))
        yield from (fam if tier == "thorough" else rr.sample(fam, 30))
        if tier == "thorough":
            yield from small_family(rng)
            yield from rule_family(rng)
        else:
            # a different part of the complete rule-level family with every seed
            fam = list(rule_family(rng.fork("family")))
            for part in ("Model", "Sub"):
                yield from rng.sample([c for c in fam if part in (c.get("params") or {"Model": 0})], 12)

    def extra_search(self, rng, tier, broken):
        out = list(small_family(rng)) + list(rule_family(rng)) + list(ref_family(rng))
        out += [gen_case(rng, refs=i % 4 == 3) for i in range(1500)]
        return out

    # ---- implementation --------------------------------------------------
    def impl(self, case):
        use_repo()
        from arpeggio import NonTerminal, Terminal
        from textx import metamodel_from_str
        from textx.exceptions import TextXError, TextXSemanticError, TextXSyntaxError

        gtxt = grammar_text(case)
        obs = {"grammar_text": gtxt}
        with_refs = uses_refs(case)
        decls = {}  # the declared objects references resolve to: the metamodel's builtins (filled below)
        try:
            with watchdog(40):
                mm = metamodel_from_str(gtxt, auto_init_attributes=bool(case.get("auto_init", True)),
                                        **({"builtins": decls} if with_refs else {}),
                                        **({"memoization": True} if case.get("memo") else {}),
                                        **({"skipws": False} if case.get("mm_skipws") is False else {}))
        except Watchdog:
            obs["grammar"] = {"other": "Watchdog", "msg": "grammar load did not finish in 40 s of CPU time"}
            return obs
        except TextXError as e:
            msg = str(e)
            kind = "other"
            if 'Cannot use "?=" operator on multiple' in msg:
                kind = "bool-multi"
            elif "Can't use bool assignment inside repetition" in msg:
                kind = "bool-rep"
            obs["grammar"] = {"err": {"cls": type(e).__name__, "kind": kind, "msg": msg[:200]}}
            return obs
        except RecursionError:
            obs["grammar"] = {"other": "RecursionError"}
            return obs
        except Exception as e:
            obs["grammar"] = {"other": type(e).__name__, "msg": str(e)[:200]}
            return obs
        mults = {}
        roots = {}
        names = names_of(case)
        for rule in case["rules"]:
            cls = mm[names[rule]]
            mults[rule] = {a: m.mult for a, m in cls._tx_attrs.items()}
            # evidence only (not compared): the root parsing expression and how many operands it has
            peg = getattr(cls, "_tx_peg_rule", None)
            roots[rule] = [type(peg).__name__, len(getattr(peg, "nodes", []) or [])]
        obs["grammar"] = {"ok": mults}
        obs["roots"] = roots
        refpos = []  # per text: the positions at which a reference is matched
        delay, calls = {}, {}  # per text: reference position -> Postponed answers wanted / provider calls so far
        if with_refs:
            from textx.scoping import Postponed
            decl_cls = mm["Decl"]
            for dn in DECL_NAMES:
                d = decl_cls()
                d.name = dn
                decls[dn] = d

            def provider(obj, attr, obj_ref):
                calls[obj_ref.position] = calls.get(obj_ref.position, 0) + 1
                if calls[obj_ref.position] <= delay.get(obj_ref.position, 0):
                    return Postponed()
                return decls.get(obj_ref.obj_name) if prov.get("answer") == "object" else None

            prov = case.get("prov") or {}
            ref_attrs = [(names[r], a) for r in case["rules"] for a, m in mm[names[r]]._tx_attrs.items()
                         if m.ref and not m.cont]
            if prov.get("key") == "*.*":
                mm.register_scope_providers({"*.*": provider})
            elif prov.get("key") == "class.attr":
                mm.register_scope_providers({f"{c}.{a}": provider for c, a in ref_attrs})
            elif prov.get("key") == "*.attr":
                mm.register_scope_providers({f"*.{a}": provider for c, a in ref_attrs})
            elif prov.get("key") == "class.*":
                mm.register_scope_providers({f"{c}.*": provider for c, a in ref_attrs})
            # without a provider: the default scope provider finds nothing and the builtins answer
        obs["texts"] = []
        # name in the grammar text -> internal key, of the rules that make objects
        rule_names = {names[r]: r for r in case["rules"]}
        val_name = names["Val"]
        kinds = {}   # offset -> token kind of the text being observed
        rids = {}    # id(parsing expression) -> small number, per text

        def rid(rule):
            return rids.setdefault(id(rule), len(rids))

        def is_obj(v):
            return hasattr(type(v), "_tx_attrs")

        def tree_value(n, objs):
            if isinstance(n, Terminal):
                if n.rule_name == val_name and val_name not in ("INT", "FLOAT", "BOOL", "STRING", "ID"):
                    return prim(n.value)  # a regex match rule gives the matched text
                return prim(convert(n.rule_name, n.value))
            if n.rule_name in rule_names:
                tree_obj(n, objs)
                return {"obj": n.position, "rule": rule_names[n.rule_name]}
            if n.rule_name == val_name and len(n) == 1 and isinstance(n[0], Terminal):
                return prim(convert(n[0].rule_name, n[0].value))  # match rule `T1 | T2`: the base type's value
            return {"p": "tree", "v": n.rule_name}

        def raw_tokens(n, acc):
            """value tokens below an assignment node: the terminals that start at a value token of the text
            (not the separators, and never the keywords of nested objects)"""
            if isinstance(n, Terminal):
                if kinds.get(n.position) == "val":
                    acc.append(n.value)
                return
            if n.rule_name in rule_names:
                for c in n:
                    if isinstance(c, NonTerminal) and c.rule_name.startswith("__asgn"):
                        raw_tokens(c, acc)
                return
            for c in n:
                raw_tokens(c, acc)

        def kid_kind(x):
            """What a child of a list assignment node is, told by the *text*: the generator knows which
            tokens are values, separators and keywords (independent of rule names and places)."""
            if isinstance(x, NonTerminal) and x.rule_name in rule_names:
                return "obj"
            return kinds.get(x.position, "?")

        def tree_obj(node, objs):
            rec = {"rule": rule_names[node.rule_name], "pos": node.position, "trace": []}
            objs.append(rec)
            mattrs = mm[node.rule_name]._tx_attrs
            for c in node:
                if isinstance(c, NonTerminal) and c.rule_name.startswith("__asgn"):
                    op = {"plain": "=", "optional": "?=", "zeroormore": "*=", "oneormore": "+="}[c.rule_name.split("_")[-1]]
                    attr = c.rule._attr_name
                    ev = {"a": attr, "op": op}
                    isref = attr in mattrs and mattrs[attr].ref and not mattrs[attr].cont
                    if isref:
                        ev["ref"] = True
                    if op == "=":
                        ev["vs"] = [tree_value(c[0], objs)]
                        if isref:
                            refpos.append(c[0].position)
                            ev["rpos"] = [c[0].position]
                    elif op == "?=":
                        ev["vs"] = [prim(True)]
                    else:
                        # the raw node: every child with the parsing expression that made it; `sep` = the
                        # separator match Arpeggio's repetition was given (None without a separator)
                        sep_rule = getattr(c.rule, "sep", None)
                        ev["sep"] = None if sep_rule is None else rid(sep_rule)
                        ev["kids"] = [{"r": rid(x.rule), "kind": kid_kind(x), "v": tree_value(x, objs)} for x in c]
                        # the values, by the text: children that are value tokens or contained objects
                        ev["vs"] = [k["v"] for k in ev["kids"] if k["kind"] in ("val", "obj")]
                        if isref:
                            ev["rpos"] = [x.position for x in c if kid_kind(x) == "val"]
                            refpos.extend(ev["rpos"])
                    rec["trace"].append(ev)
                elif isinstance(c, NonTerminal) and c.rule_name in rule_names:
                    # an object that is matched but assigned nowhere (not generated)
                    tree_obj(c, objs)

        def model_objs(root):
            out, seen = [], set()

            def val(v):
                if isinstance(v, list):
                    return [val(x) for x in v]
                if with_refs and type(v) is decl_cls:
                    return prim(v.name)  # a reference is observed by the name of the object it points to
                if is_obj(v):
                    go(v)
                    return {"obj": getattr(v, "_tx_position", None), "rule": rule_names.get(type(v).__name__, type(v).__name__)}
                return prim(v)

            def go(o):
                if id(o) in seen:
                    return
                seen.add(id(o))
                rec = {"rule": rule_names.get(type(o).__name__, type(o).__name__), "pos": getattr(o, "_tx_position", None), "attrs": {}}
                out.append(rec)
                for name in type(o)._tx_attrs:
                    rec["attrs"][name] = val(getattr(o, name, None))

            if is_obj(root):
                go(root)
            return out

        for t in case["texts"]:
            text = text_of(t)
            tobs = {"text": text}
            obs["texts"].append(tobs)
            kinds.clear()
            kinds.update(token_kinds(t))
            rids.clear()
            refpos.clear()
            delay.clear()
            calls.clear()
            # 1. what the parser matched
            try:
                with watchdog(20):
                    parser = mm._parser_blueprint.clone()
                    parser.parse(text)
                top = parser.parse_tree[0] if isinstance(parser.parse_tree, NonTerminal) and len(parser.parse_tree) else None
            except Watchdog:
                tobs["parse"] = {"other": "Watchdog", "msg": "parse did not finish in 20 s of CPU time"}
                continue
            except TextXSyntaxError as e:
                tobs["parse"] = {"syntax": [e.line, e.col]}
                continue
            except RecursionError:
                tobs["parse"] = {"other": "RecursionError"}
                continue
            except Exception as e:
                tobs["parse"] = {"other": type(e).__name__, "msg": str(e)[:200]}
                continue
            objs, assigned = [], []
            if isinstance(top, NonTerminal) and top.rule_name in rule_names:
                tree_obj(top, objs)
                raw_tokens(top, assigned)
            tobs["parse"] = {"ok": {"objs": objs, "assigned": assigned}}
            if with_refs:
                # the resolution history of this text: the delays drawn for the tokens at which a reference is
                # matched, made contiguous (0, 1, 2, … all occur) so that every resolution step resolves
                # something and the resolution as a whole succeeds
                raw = dict(zip(layout(t)[1], t.get("delays") or []))
                levels = sorted({raw.get(q, 0) for q in refpos})
                if prov.get("key") in PROVIDER_KEYS:
                    delay.update({q: levels.index(raw.get(q, 0)) for q in refpos})
                tobs["refs"] = [[q, delay.get(q, 0)] for q in sorted(refpos)]
            # 2. what the model holds
            try:
                with watchdog(20):
                    model = mm.model_from_str(text)
                tobs["model"] = {"ok": model_objs(model)}
            except Watchdog:
                tobs["model"] = {"other": "Watchdog", "msg": "model construction did not finish in 20 s of CPU time"}
            except TextXSemanticError as e:
                tobs["model"] = {"err": {"cls": type(e).__name__, "err_type": getattr(e, "err_type", None), "msg": str(e)[:200]}}
            except TextXError as e:
                tobs["model"] = {"err": {"cls": type(e).__name__, "err_type": getattr(e, "err_type", None), "msg": str(e)[:200]}}
            except RecursionError:
                tobs["model"] = {"other": "RecursionError"}
            except Exception as e:
                tobs["model"] = {"other": type(e).__name__, "msg": str(e)[:200]}
        return obs

    # ---- model request ---------------------------------------------------
    def _rules(self, case):
        names = list(case["rules"])
        out = []
        for r in names:
            b = rule_body(case, r)
            attrs = rule_attrs(b)
            out.append((r, b, attrs, {a: i for i, a in enumerate(attrs)}))
        return out

    def _tree_objs(self, obs):
        """[(text index, tree object)] of all accepted texts, in order."""
        out = []
        for ti, t in enumerate(obs.get("texts", [])):
            p = t.get("parse", {})
            if "ok" in p:
                for o in p["ok"]["objs"]:
                    out.append((ti, o))
        return out

    def model_req(self, case, obs):
        rules = self._rules(case)
        ridx = {r: i for i, (r, _, _, _) in enumerate(rules)}
        req = {"op": "case", "rules": [{"params": bool(rule_params(case, r)), "body": lean_body(b, idx),
                                        "attrs": list(range(len(attrs)))}
                                       for (r, b, attrs, idx) in rules], "objs": []}
        for ti, o in self._tree_objs(obs):
            if o["rule"] not in ridx:
                return {"op": "case", "rules": "unknown rule in parse tree"}
            _, _, attrs, idx = rules[ridx[o["rule"]]]
            trace = []
            for e in o["trace"]:
                if e["a"] not in idx:
                    return {"op": "case", "rules": "unknown attribute in parse tree"}
                if "kids" in e:
                    trace.append({"a": idx[e["a"]], "op": e["op"], "sep": e["sep"],
                                  "kids": [{"r": k["r"], "t": truthy(k["v"]), "v": k["v"]} for k in e["kids"]]})
                else:
                    trace.append({"a": idx[e["a"]], "op": e["op"], "vs": [{"t": truthy(v), "v": v} for v in e["vs"]]})
            ob = {"rule": ridx[o["rule"]], "trace": trace}
            rl = self._ref_lists(obs, ti, o)
            if rl:
                ob["refs"] = [{"n": max([r["d"] for r in refs] + [0]), "refs": refs} for _, refs in rl]
            req["objs"].append(ob)
        return req

    def _ref_lists(self, obs, ti, o):
        """[(attribute, [{"d", "p", "v"} …])] — the reference lists of the tree object `o` of text `ti`: per list
        attribute that holds references, the references in the order `process_node` records them, each with the
        number of resolution steps in which the scope provider first answers Postponed."""
        t = obs["texts"][ti]
        if not t.get("refs"):
            return []
        delay = {q: d for q, d in t["refs"]}
        mults = obs["grammar"]["ok"].get(o["rule"], {})
        out = {}
        for e in o["trace"]:
            if e.get("ref") and mults.get(e["a"]) in MANY and len(e.get("rpos", [])) == len(e["vs"]):
                out.setdefault(e["a"], []).extend({"d": delay.get(q, 0), "p": q, "v": v} for q, v in zip(e["rpos"], e["vs"]))
        return sorted(out.items())

    # ---- correspondence --------------------------------------------------
    def compare(self, case, obs, out):
        if "err" in out:
            return f"model rejected the request: {out}"
        rules = self._rules(case)
        g = obs["grammar"]
        mrej = [r["rej"] for r in out["rules"]]
        if g.get("other") == "Watchdog":
            return None  # not an observation of the property (counted in the evidence)
        if "ok" not in g:
            if "err" in g and g["err"]["kind"] in ("bool-multi", "bool-rep"):
                if not any(mrej):
                    return f"grammar rejected by the implementation ({g['err']['kind']}) but accepted by the model"
                return None
            return f"grammar not loaded by the implementation: {g}"
        if any(mrej):
            return f"grammar accepted by the implementation but rejected by the model ({[x for x in mrej if x]})"
        if not all(r["wf"] for r in out["rules"]):
            return "rule body with an empty choice (hypothesis of C02_list_iff_collect not met)"
        for (r, _, attrs, _), mo in zip(rules, out["rules"]):
            im = g["ok"].get(r, {})
            if list(im) != attrs:
                return f"rule {r}: implementation attributes {list(im)}, grammar AST {attrs}"
            for a, mm_ in zip(attrs, mo["mults"]):
                # property-relevant observable: list or not (exact agreement is counted in the evidence)
                if (im[a] in MANY) != (mm_ in MANY):
                    return f"rule {r} attribute {a}: multiplicity {im[a]} (implementation) vs {mm_} (model)"
        tobjs = self._tree_objs(obs)
        ridx = {r: i for i, (r, _, _, _) in enumerate(rules)}
        # per text: does the model predict a failure for some object?
        for ti, t in enumerate(obs["texts"]):
            if "ok" not in t.get("parse", {}):
                continue
            mine = [(o, mo) for (tj, o), mo in zip(tobjs, out["objs"]) if tj == ti]
            for o, mo in mine:
                # the children the model keeps (not made by the separator match) are the value tokens of the text
                byvals = [e["vs"] for e in o["trace"] if e["op"] in ("*=", "+=")]
                if mo.get("lists") != byvals:
                    return (f"text {ti}: list assignment nodes of {o['rule']}@{o['pos']}: the children not made by the "
                            f"separator match are {mo.get('lists')} but the value tokens of the text are {byvals}")
                if not mo["accepts"]:
                    return f"text {ti}: assignment trace of {o['rule']}@{o['pos']} is not in Events of the rule body: {o['trace']}"
            predicted_err = [mo["store"]["err"] for _, mo in mine if "err" in mo["store"]]
            m = t["model"]
            if m.get("other") == "Watchdog":
                continue
            if "ok" not in m:
                kind = "multAssign" if m.get("err", {}).get("err_type") == "Multiple assignments" else "crash"
                if kind not in predicted_err:
                    return f"text {ti}: implementation fails ({m}) but the model store predicts {predicted_err or 'success'}"
                continue
            if predicted_err:
                return f"text {ti}: model store predicts {predicted_err} but the implementation built the model"
            real = {(x["rule"], x["pos"]): x for x in m["ok"]}
            for o, mo in mine:
                x = real.get((o["rule"], o["pos"]))
                if x is None:
                    return f"text {ti}: object {o['rule']}@{o['pos']} of the parse tree is not in the model"
                # reference lists: the resolver model replayed with this text's history vs the real list
                for (a, _), ml in zip(self._ref_lists(obs, ti, o), mo.get("reflists") or []):
                    if x["attrs"].get(a) != ml:
                        return (f"text {ti}: reference list {o['rule']}@{o['pos']}.{a} = {x['attrs'].get(a)} (implementation) "
                                f"vs {ml} (resolver model, history {t.get('refs')})")
                attrs = rules[ridx[o["rule"]]][2]
                for a, slot in zip(attrs, mo["store"]["ok"]):
                    v = x["attrs"].get(a)
                    if "list" in slot:
                        if v != slot["list"]:
                            return f"text {ti}: {o['rule']}@{o['pos']}.{a} = {v} (implementation) vs list {slot['list']} (model)"
                    elif "scalar" in slot:
                        if v != slot["scalar"]:
                            return f"text {ti}: {o['rule']}@{o['pos']}.{a} = {v} (implementation) vs {slot['scalar']} (model)"
                    else:
                        if isinstance(v, list) or truthy(v):
                            return f"text {ti}: {o['rule']}@{o['pos']}.{a} = {v} (implementation) but nothing was assigned (model: default)"
        return None

    # ---- the property, decided directly on the implementation ------------
    def oracle(self, case, obs):
        g = obs["grammar"]
        bodies = {r: rule_body(case, r) for r in case["rules"]}
        expected_rej = any(bool_rejection_expected(b) for b in bodies.values())
        if g.get("other") == "Watchdog":
            return None  # a hang is not an observation of this property (counted in the evidence)
        if "ok" not in g:
            if "err" in g and g["err"]["kind"] in ("bool-multi", "bool-rep") and expected_rej:
                return None
            return f"valid grammar not loaded: {g}"
        # static half: list exactly when more than one value can be collected
        for r, b in bodies.items():
            for a in rule_attrs(b):
                mult = g["ok"].get(r, {}).get(a)
                if mult is None:
                    return f"rule {r}: attribute {a} missing in the metaclass"
                can_many = count_spec(b, a) >= 2
                if (mult in MANY) != can_many:
                    return (f"rule {r}: attribute {a} has multiplicity {mult} but one object can collect "
                            f"{'more than one value' if can_many else 'at most one value'} for it")
        # dynamic half
        for ti, (t, tc) in enumerate(zip(obs["texts"], case["texts"])):
            p = t.get("parse", {})
            if "ok" not in p:
                if "syntax" in p or p.get("other") == "Watchdog":
                    continue
                return f"text {ti} {t['text']!r}: parser crashed: {p}"
            vals = [x[1] for x in tc["tokens"] if x[0] == "val"]
            if p["ok"]["assigned"] != vals:
                return (f"text {ti} {t['text']!r}: accepted, value tokens {vals} but the assignments of the parse "
                        f"matched {p['ok']['assigned']}")
            m = t["model"]
            if m.get("other") == "Watchdog":
                continue
            if "ok" not in m:
                et = m.get("err", {}).get("err_type")
                if et == "Multiple assignments":
                    return f"text {ti} {t['text']!r}: accepted by the grammar but fails with 'Multiple assignments': {m['err']['msg']}"
                return f"text {ti} {t['text']!r}: accepted by the grammar but building the model fails: {m}"
            real = {(x["rule"], x["pos"]): x for x in m["ok"]}
            tree = {(o["rule"], o["pos"]): o for o in p["ok"]["objs"]}
            if set(real) != set(tree):
                return f"text {ti} {t['text']!r}: objects of the parse {sorted(tree)} vs objects of the model {sorted(real)}"
            for key, o in tree.items():
                x = real[key]
                matched = {}
                for e in o["trace"]:
                    matched.setdefault(e["a"], []).extend(e["vs"])
                for a, v in x["attrs"].items():
                    want = matched.get(a, [])
                    if isinstance(v, list):
                        if v != want:
                            return (f"text {ti} {t['text']!r}: {key[0]}.{a} = {v} but the assignments matched "
                                    f"{want} (in input order)")
                    elif len(want) >= 2:
                        return (f"text {ti} {t['text']!r}: {key[0]}.{a} = {v} is single-valued but the assignments "
                                f"matched {len(want)} values {want}: values were lost")
                    elif len(want) == 1:
                        if v != want[0]:
                            return f"text {ti} {t['text']!r}: {key[0]}.{a} = {v} but the assignment matched {want[0]}"
                    elif truthy(v):
                        return f"text {ti} {t['text']!r}: {key[0]}.{a} = {v} although nothing was assigned (default not falsy)"
                for a in matched:
                    if a not in x["attrs"]:
                        return f"text {ti}: attribute {a} matched but not an attribute of {key[0]}"
        return None

    # ---- evidence --------------------------------------------------------
    def nontrivial(self, case, obs):
        if "ok" not in obs["grammar"]:
            return False
        multi = False
        for r in case["rules"]:
            b = rule_body(case, r)
            for a in rule_attrs(b):
                sites = [n for n in walk_nodes(b) if n["k"] == "asgn" and n["a"] == a]
                if len(sites) >= 2 or count_spec(b, a) >= 2:
                    multi = True
        if not multi:
            return False
        for t in obs.get("texts", []):
            p = t.get("parse", {})
            if "ok" in p and "ok" in t.get("model", {}):
                for o in p["ok"]["objs"]:
                    per = {}
                    for e in o["trace"]:
                        per.setdefault(e["a"], []).extend(e["vs"])
                    for vs in per.values():
                        if len(vs) >= 2 or any(not truthy(v) for v in vs):
                            return True
        return False

    def extra_evidence(self, cases, obs, outs):
        d = {"grammars_accepted": 0, "grammars_rejected": 0, "texts": 0, "texts_accepted": 0, "texts_mutated": 0,
             "objects_checked": 0, "events": 0, "falsy_values": 0, "list_attrs": 0, "scalar_attrs": 0,
             "attrs_with_2plus_values_in_some_text": 0, "watchdog": 0,
             "list_nodes": 0, "list_nodes_with_separator": 0, "list_nodes_not_alternating": 0,
             "list_nodes_trailing_separator": 0, "grammars_with_rule_named_sep": 0, "grammars_with_eolterm": 0,
             "grammars_with_nullable_separator": 0,
             "grammars_with_rule_modifiers": 0, "rules_with_modifiers_by_root": {}, "rules_root_wrapped_model": 0,
             "rules_root_wrapped_agreement": [0, 0], "texts_accepted_in_noskipws_grammars": 0,
             "grammars_with_memoization": 0, "grammars_with_redundant_parentheses": 0,
             "grammars_with_metamodel_noskipws": 0, "contained_rules_without_keyword_by_root": {},
             "grammars_with_references": 0, "texts_with_references": 0, "references": 0, "references_postponed": 0,
             "texts_with_postponed_before_direct_reference": 0, "reference_lists_2plus": 0,
             "reference_lists_checked_by_resolver_model": 0}
        d["exact_multiplicity_agreement"] = [0, 0]
        for c, o, mo in zip(cases, obs, outs):
            if isinstance(mo, dict):
                d["reference_lists_checked_by_resolver_model"] += sum(len(x.get("reflists") or []) for x in mo.get("objs", []))
            if isinstance(o, dict) and "ok" in o.get("grammar", {}) and isinstance(mo, dict) and "rules" in mo:
                for (r, _, attrs, _), ro in zip(self._rules(c), mo["rules"]):
                    for a, mm_ in zip(attrs, ro["mults"]):
                        d["exact_multiplicity_agreement"][1] += 1
                        d["exact_multiplicity_agreement"][0] += o["grammar"]["ok"].get(r, {}).get(a) == mm_
                    if "wrapped" in ro and r in o.get("roots", {}):
                        d["rules_root_wrapped_model"] += bool(ro["wrapped"])
                        d["rules_root_wrapped_agreement"][1] += 1
                        d["rules_root_wrapped_agreement"][0] += (o["roots"][r] == ["Sequence", 1]) == bool(ro["wrapped"])
        for c, o in zip(cases, obs):
            if not isinstance(o, dict) or "grammar" not in o:
                continue
            d["watchdog"] += o["grammar"].get("other") == "Watchdog"
            if "ok" in o["grammar"]:
                d["grammars_accepted"] += 1
                used = [v for k_, v in names_of(c).items() if k_ in c["rules"] or any(uses_rhs(b, k_) for b in c["rules"].values())]
                d["grammars_with_rule_named_sep"] += "sep" in used
                d["grammars_with_eolterm"] += has_eol(c)
                d["grammars_with_rule_modifiers"] += bool(c.get("params"))
                d["grammars_with_memoization"] += bool(c.get("memo"))
                d["grammars_with_references"] += uses_refs(c)
                d["grammars_with_metamodel_noskipws"] += c.get("mm_skipws") is False
                if c.get("sub_bare"):
                    key = rule_body(c, "Sub")["k"]
                    d["contained_rules_without_keyword_by_root"][key] = d["contained_rules_without_keyword_by_root"].get(key, 0) + 1
                d["grammars_with_redundant_parentheses"] += any(
                    n.get("par") for b in c["rules"].values() for n in walk_nodes(b))
                for r in c["rules"]:
                    if rule_params(c, r):
                        key = rule_body(c, r)["k"]
                        d["rules_with_modifiers_by_root"][key] = d["rules_with_modifiers_by_root"].get(key, 0) + 1
                d["grammars_with_nullable_separator"] += any(
                    (sep_of(n) or {}).get("opt") for b in c["rules"].values() for n in walk_nodes(b))
                for r, ms in o["grammar"]["ok"].items():
                    for a, m in ms.items():
                        d["list_attrs" if m in MANY else "scalar_attrs"] += 1
            else:
                d["grammars_rejected"] += 1
            for t, tc in zip(o.get("texts", []), c["texts"]):
                d["texts"] += 1
                d["texts_mutated"] += tc.get("origin") == "mutated"
                p = t.get("parse", {})
                d["watchdog"] += p.get("other") == "Watchdog" or t.get("model", {}).get("other") == "Watchdog"
                if "ok" in p and t.get("refs"):
                    rs = sorted(t["refs"])
                    d["texts_with_references"] += 1
                    d["references"] += len(rs)
                    d["references_postponed"] += sum(1 for _, dl in rs if dl)
                    d["texts_with_postponed_before_direct_reference"] += any(
                        dl > rs[j][1] for i, (_, dl) in enumerate(rs) for j in range(i + 1, len(rs)))
                    for ob in p["ok"]["objs"]:
                        per = {}
                        for e in ob["trace"]:
                            if e.get("ref"):
                                per[e["a"]] = per.get(e["a"], 0) + len(e["vs"])
                        d["reference_lists_2plus"] += sum(1 for k_ in per.values() if k_ >= 2)
                if "ok" in p:
                    d["texts_accepted"] += 1
                    d["texts_accepted_in_noskipws_grammars"] += c.get("mm_skipws") is False or any(
                        n == "noskipws" for ps in (c.get("params") or {}).values() for n, _ in ps)
                    for ob in p["ok"]["objs"]:
                        d["objects_checked"] += 1
                        per = {}
                        for e in ob["trace"]:
                            d["events"] += 1
                            per.setdefault(e["a"], []).extend(e["vs"])
                            if "kids" in e:
                                ks = [k["kind"] in ("val", "obj") for k in e["kids"]]
                                d["list_nodes"] += 1
                                d["list_nodes_with_separator"] += e["sep"] is not None
                                if e["sep"] is not None and len(ks) > 1:
                                    d["list_nodes_not_alternating"] += ks != [i % 2 == 0 for i in range(len(ks))] or not ks[-1]
                                    d["list_nodes_trailing_separator"] += not ks[-1]
                            d["falsy_values"] += sum(1 for v in e["vs"] if not truthy(v))
                        d["attrs_with_2plus_values_in_some_text"] += sum(1 for vs in per.values() if len(vs) >= 2)
        return {"distribution": d}

    def sample_view(self, case, obs):
        return {"grammar": obs.get("grammar_text"), "auto_init": case.get("auto_init"),
                "texts": [t.get("text") for t in obs.get("texts", [])][:3],
                "impl": {"grammar": obs.get("grammar"),
                         "first_text": (obs.get("texts") or [None])[0]}}

    # ---- shrinking -------------------------------------------------------
    def shrink(self, case):
        rng = Rng("shrink:" + canon(case["rules"]))
        texts = case["texts"]
        if len(texts) > 1:
            for i in range(len(texts)):
                yield dict(case, texts=[texts[i]])
        for rule in list(case["rules"]):
            for smaller in shrink_body(case["rules"][rule]):
                rules = dict(case["rules"], **{rule: smaller})
                if not has_asgn(rules[rule]) or loops_forever(normalize(rules[rule])):
                    continue
                if "Sub" in rules and not uses_sub(rules["Model"]):
                    rules = {"Model": rules["Model"]}
                if uses_sub(rules["Model"]) and "Sub" not in rules:
                    continue
                c = {"rules": rules, "auto_init": case.get("auto_init", True), "texts": []}
                for key in ("names", "val", "memo", "mm_skipws", "prov"):
                    if key in case:
                        c[key] = case[key]
                if case.get("sub_bare") and "Sub" in rules and can_be_bare(rules["Sub"]):
                    c["sub_bare"] = True
                if case.get("params"):
                    ps = {r: v for r, v in case["params"].items() if r in rules}
                    if ps:
                        c["params"] = ps
                c["texts"] = gen_texts(c, rng.fork("t"), 4)
                c["texts"] += [dict(t, origin="kept") for t in texts[:2]]
                yield c
        # plain rule names, the simplest user match rule, no memoization
        for key in ("names", "val", "memo"):
            if key in case:
                yield {k_: v for k_, v in case.items() if k_ != key}
        for key in ("mm_skipws", "sub_bare"):  # the texts depend on these
            if key in case:
                c = {k_: v for k_, v in case.items() if k_ != key}
                c["texts"] = gen_texts(c, rng.fork(key), 4)
                yield c
        # fewer / simpler rule modifiers (the texts are derived anew: blanks depend on the modifiers)
        for r, ps in (case.get("params") or {}).items():
            smaller = [[]] + ([[q] for q in ps] if len(ps) > 1 else []) + ([[["skipws", None]]] if ps != [["skipws", None]] else [])
            for q in smaller:
                pp = {k_: v for k_, v in case["params"].items() if k_ != r}
                if q:
                    pp[r] = q
                c = {k_: v for k_, v in case.items() if k_ != "params"}
                if pp:
                    c["params"] = pp
                c["texts"] = gen_texts(c, rng.fork("p"), 4)
                yield c
        # shorter texts
        if len(texts) == 1:
            toks = texts[0]["tokens"]
            ds = texts[0].get("delays")
            for j in range(len(toks)):
                t = {"tokens": toks[:j] + toks[j + 1:], "origin": "shrunk"}
                if ds:
                    t["delays"] = ds[:j] + ds[j + 1:]
                yield dict(case, texts=[t])
            # a simpler resolution history: nothing postponed, one reference less postponed, postponed once
            if ds and any(ds):
                yield dict(case, texts=[{k_: v for k_, v in texts[0].items() if k_ != "delays"}])
                for j, dl in enumerate(ds):
                    if dl:
                        yield dict(case, texts=[dict(texts[0], delays=ds[:j] + [0] + ds[j + 1:])])
                if max(ds) > 1:
                    yield dict(case, texts=[dict(texts[0], delays=[min(dl, 1) for dl in ds])])
            if case.get("prov") and case["prov"] != {"key": "*.*", "answer": "object"}:
                yield dict(case, prov={"key": "*.*", "answer": "object"})


def shrink_body(n):
    """Smaller bodies: a child instead of the node, one element less."""
    k = n["k"]
    if n.get("par"):
        yield {kk: v for kk, v in n.items() if kk != "par"}
    for c in kids(n):
        yield c
    if k in ("seq", "alt", "un") and len(n["xs"]) > 1:
        for i in range(len(n["xs"])):
            yield dict(n, xs=n["xs"][:i] + n["xs"][i + 1:])
    if k in ("seq", "alt", "un"):
        for i, x in enumerate(n["xs"]):
            for s in shrink_body(x):
                yield dict(n, xs=n["xs"][:i] + [s] + n["xs"][i + 1:])
    elif k in ("opt", "rep"):
        for s in shrink_body(n["x"]):
            yield dict(n, x=s)
    if k in ("asgn", "rep", "un"):
        if n.get("sep"):
            yield {kk: v for kk, v in n.items() if kk != "sep"}
            if n["sep"] is not True and n["sep"] != {"s": ","}:
                sep = n["sep"]
                yield dict(n, sep={"s": ","})
                if sep.get("alt"):
                    yield dict(n, sep={kk: v for kk, v in sep.items() if kk != "alt"})
        if n.get("eol"):
            yield {kk: v for kk, v in n.items() if kk != "eol"}
    if k == "asgn":
        if n["rhs"] not in ("INT", "Ref") and n["op"] != "?=":
            yield dict(n, rhs="INT")  # (not a reference: an attribute holds references at all of its sites or at none)


def small_family(rng):
    """All bodies built from two assignment sites of attribute `a` (operators =, +=, *=) and one of `b`,
    combined by one or two of sequence / choice / unordered group, each part optionally under ? * +
    — the shapes on which the inference must tell one from many."""
    def site(attr, op, kw):
        return {"k": "seq", "xs": [{"k": "kw", "s": kw}, {"k": "asgn", "a": attr, "op": op, "rhs": "INT"}]}

    def wraps(x):
        yield x
        yield {"k": "opt", "x": x}
        yield {"k": "rep", "plus": False, "x": x}
        yield {"k": "rep", "plus": True, "x": x}

    cases = []
    for op1 in ("=", "+="):
        for op2 in ("=", "*="):
            s1, s2, s3 = site("a", op1, "@01"), site("a", op2, "@02"), site("b", "=", "@03")
            for k1 in ("seq", "alt", "un"):
                for k2 in ("seq", "alt", "un"):
                    for w in range(4):
                        inner = list(wraps({"k": k2, "xs": [s2, s3]}))[w]
                        for shape in ({"k": k1, "xs": [s1, inner]}, {"k": k1, "xs": [inner, s1]},
                                      {"k": k1, "xs": [{"k": "opt", "x": s1}, inner, s3]}):
                            cases.append(shape)
    for body in cases:
        c = {"rules": {"Model": body}, "auto_init": rng.chance(0.5), "texts": []}
        c["texts"] = gen_texts(c, rng, 3)
        c["origin"] = "family"
        yield c


def rule_family(rng):
    """Every root shape `visit_textx_rule` tells apart x every kind of rule modifier: the body is a lone
    assignment, one repetition / optional / unordered group (both forms), a sequence or a choice, over one or
    two plain assignment sites of `a` (and one of `b`), once as the rule `Model` and once as the contained
    rule."""
    def site(attr, kw):
        return {"k": "seq", "xs": [{"k": "kw", "s": kw}, {"k": "asgn", "a": attr, "op": "=", "rhs": "INT"}]}

    inners = [site("a", "@01"), {"k": "seq", "xs": [site("a", "@01"), site("a", "@02")]},
              {"k": "alt", "xs": [site("a", "@01"), {"k": "seq", "xs": [site("b", "@03"), site("a", "@02")]}]}]
    roots = []
    for x in inners:
        roots += [{"k": "rep", "plus": True, "x": x}, {"k": "rep", "plus": False, "x": x}, {"k": "opt", "x": x},
                  {"k": "un", "xs": [x], "form": "seq"}, {"k": "un", "xs": [x, site("a", "@04")], "form": "alt"}, x]
    roots += [{"k": "asgn", "a": "a", "op": op, "rhs": "INT"} for op in ("=", "+=", "*=")]
    roots += [{"k": "rep", "plus": True, "x": {"k": "asgn", "a": "a", "op": "=", "rhs": "INT"}},
              {"k": "un", "xs": [{"k": "rep", "plus": False, "x": site("a", "@01")}], "form": "seq"}]
    for ps, _ in [([], 0)] + RULE_PARAMS:
        for body in roots:
            c = {"rules": {"Model": body}, "auto_init": rng.chance(0.5), "texts": []}
            if ps:
                c["params"] = {"Model": [list(x) for x in ps]}
            c["texts"] = gen_texts(c, rng, 3)
            c["origin"] = "family"
            yield c
    for ps, _ in RULE_PARAMS:
        # the contained rule with modifiers: behind its keyword (the root is the sequence `'@sub' body`), and
        # bare (the root is the body) where that is unambiguous
        for body in roots:
            for bare in (False, True):
                if not (can_be_bare(body) if bare else body in roots[:6]):
                    continue
                c = {"rules": {"Model": {"k": "rep", "plus": True, "x": {"k": "asgn", "a": "c", "op": "=", "rhs": "Sub"}},
                               "Sub": body},
                     "auto_init": True, "params": {"Sub": [list(x) for x in ps]}, "texts": []}
                if bare:
                    c["sub_bare"] = True
                c["texts"] = gen_texts(c, rng, 3)
                c["origin"] = "family"
                yield c


def ref_family(rng):
    """Reference lists x resolution histories, complete for three references of one list: every way one
    object collects several references for one attribute (list assignment with / without separator, plain
    assignment below a repetition, a sequence of plain assignments, plain + list assignment, unordered group,
    contained objects with a reference list each) x every history in which each of the first three references
    is answered Postponed 0, 1 or 2 times (27), x how the provider is registered and what it answers."""
    def kw(s):
        return {"k": "kw", "s": s}

    def ref(op, **kv):
        return dict({"k": "asgn", "a": "a", "op": op, "rhs": "Ref"}, **kv)

    def v(i):
        return ["val", REF_NAMES[i]]

    shapes = [
        (ref("+="), lambda n: [v(i) for i in range(n)]),
        (ref("*=", sep={"s": ","}), lambda n: [x for i in range(n) for x in ([["sep", ","]] if i else []) + [v(i)]]),
        ({"k": "rep", "plus": True, "x": {"k": "seq", "xs": [kw("@01"), ref("=")]}},
         lambda n: [x for i in range(n) for x in (["kw", "@01"], v(i))]),
        ({"k": "seq", "xs": [kw("@01"), ref("="), kw("@02"), ref("="), kw("@03"), ref("*=")]},
         lambda n: [["kw", "@01"], v(0), ["kw", "@02"], v(1), ["kw", "@03"]] + [v(i) for i in range(2, n)]),
        ({"k": "un", "form": "seq", "xs": [{"k": "seq", "xs": [kw("@01"), ref("=")]}, {"k": "seq", "xs": [kw("@02"), ref("+=")]}]},
         lambda n: [["kw", "@02"]] + [v(i) for i in range(n - 1)] + [["kw", "@01"], v(n - 1)]),
    ]
    hist = [(d0, d1, d2) for d0 in range(3) for d1 in range(3) for d2 in range(3)]
    for si, (body, toks) in enumerate(shapes):
        for hi in range(0, len(hist), 3):
            texts = []
            for h in hist[hi:hi + 3]:
                n = 3 + (sum(h) + si) % 2
                tk = toks(n)
                ds, j = [], 0
                for x in tk:
                    if x[0] == "val":
                        ds.append(h[j] if j < 3 else 0)
                        j += 1
                    else:
                        ds.append(0)
                texts.append({"tokens": tk, "origin": "family", "delays": ds})
            yield {"rules": {"Model": body}, "auto_init": rng.chance(0.5), "texts": texts, "origin": "family",
                   "prov": {"key": rng.choice(PROVIDER_KEYS), "answer": rng.choice(["object", "none"])}}
    # contained objects, each with a reference list of its own (the resolver keeps one bookkeeping per list)
    sub = {"k": "seq", "xs": [ref("+=", a="x")]}
    for hi in range(0, len(hist), 3):
        texts = []
        for h in hist[hi:hi + 3]:
            tk, ds = [], []
            for o in range(2):
                tk += [["kw", "@sub"]] + [["val", REF_NAMES[(3 * o + i) % 8]] for i in range(3)]
                ds += [0] + list(h if o == 0 else h[::-1])
            texts.append({"tokens": tk, "origin": "family", "delays": ds})
        yield {"rules": {"Model": {"k": "asgn", "a": "c", "op": "+=", "rhs": "Sub"}, "Sub": sub}, "auto_init": True,
               "texts": texts, "origin": "family",
               "prov": {"key": rng.choice(PROVIDER_KEYS), "answer": rng.choice(["object", "none"])}}
