"""C02 — assignments never lose, duplicate or reorder matched values.

One case = one generated grammar (rule `Model`, optionally a contained rule `Sub`)
whose bodies assign a few attributes several times under nested sequence /
ordered choice / optional / repetition / unordered group, plus a few texts
(derived from the grammar, some mutated).

Implementation side (`impl`): `metamodel_from_str` -> inferred multiplicities
(`cls._tx_attrs[a].mult`) or the grammar error; per text: the parse tree of the
real parser (which assignment nodes matched which tokens, per object, in input
order), and the outcome of `model_from_str` (attribute values per object or the
error).

Model side: Drivers/Mult.lean, op `case` — multiplicities / rejection per rule
(`Mult.infer`), and per object of every accepted text: is its assignment trace
in `Mult.Events` (the matcher `Mult.accepts`, proved equivalent), and the
result of `Mult.store` on that trace.

Direct oracle (no model): see `oracle`.
"""
import json

from harness.core import Check, Rng, canon, use_repo

ATTRS = ["a", "b", "c"]
SUB_ATTRS = ["x", "y"]
FLAGS = ["f", "g", "h"]
OPS = ["=", "?=", "*=", "+="]
MANY = ("0..*", "1..*")

INT_VALUES = ["0", "0", "0", "1", "2", "7", "42", "-3"]
FLOAT_VALUES = ["0.0", "0.0", "2.5", "1.0", "7.25"]
BOOL_VALUES = ["false", "false", "true", "0", "1"]
STRING_VALUES = ['""', "''", '""', '"x"', "'y z'", '"0"']
ID_VALUES = ["foo", "bar", "x1", "true"]


# --------------------------------------------------------------------------
# grammar AST helpers
# --------------------------------------------------------------------------
def kids(n):
    k = n["k"]
    if k in ("seq", "alt", "un"):
        return n["xs"]
    if k in ("opt", "rep"):
        return [n["x"]]
    return []


def walk_nodes(n):
    yield n
    for c in kids(n):
        yield from walk_nodes(c)


def normalize(n):
    """What the grammar text means: one-element sequences / choices are the
    element; `( s )#` over a single sequence or choice is the group of its
    elements."""
    k = n["k"]
    if k in ("seq", "alt"):
        xs = [normalize(x) for x in n["xs"]]
        return xs[0] if len(xs) == 1 else {"k": k, "xs": xs}
    if k == "un":
        xs = [normalize(x) for x in n["xs"]]
        if len(xs) == 1 and xs[0]["k"] in ("seq", "alt"):
            xs = xs[0]["xs"]
        return {"k": "un", "xs": xs, "form": n.get("form", "seq")}
    if k == "opt":
        return {"k": "opt", "x": normalize(n["x"])}
    if k == "rep":
        return {"k": "rep", "plus": n["plus"], "sep": bool(n.get("sep")), "x": normalize(n["x"])}
    return dict(n)


def render_rhs(a):
    t = a["rhs"]
    if t.startswith("LIT:"):
        return "'" + t[4:] + "'"
    return t


def render(n, ctx="top"):
    """ctx: top (rule body / inside parentheses), alt (alternative of a choice), seq (element of a
    sequence), post (operand of a postfix operator).  Nested sequences and choices are parenthesised so
    that the parser model textX builds has the shape of the AST."""
    k = n["k"]
    if k == "kw":
        return "'" + n["s"] + "'"
    if k == "asgn":
        s = f"{n['a']}{n['op']}{render_rhs(n)}"
        if n.get("sep") and n["op"] in ("*=", "+="):
            s += "[',']"
            if ctx == "post":
                s = f"({s})"
        return s
    if k == "seq":
        s = " ".join(render(x, "seq") for x in n["xs"])
        return f"({s})" if ctx in ("seq", "post") else s
    if k == "alt":
        s = " | ".join(render(x, "alt") for x in n["xs"])
        return f"({s})" if ctx in ("alt", "seq", "post") else s
    if k == "opt":
        s = render(n["x"], "post") + "?"
    elif k == "rep":
        s = render(n["x"], "post") + ("+" if n["plus"] else "*") + ("[',']" if n.get("sep") else "")
    elif k == "un":
        if n.get("form") == "alt" and len(n["xs"]) > 1:
            inner = " | ".join(render(x, "alt") for x in n["xs"])
        else:
            inner = " ".join(render(x, "seq") for x in n["xs"])
        s = f"({inner})#"
    else:
        raise ValueError(k)
    return f"({s})" if ctx == "post" else s


def grammar_text(case):
    rules = case["rules"]
    out = [f"Model: {render(normalize(rules['Model']), 'top')} ;"]
    if "Sub" in rules:
        out.append(f"Sub: '@sub' {render(normalize(rules['Sub']), 'seq')} ;")
    return "\n".join(out) + "\n"


def rule_attrs(body):
    seen = []
    for n in walk_nodes(body):
        if n["k"] == "asgn" and n["a"] not in seen:
            seen.append(n["a"])
    return seen


def lean_body(n, idx):
    k = n["k"]
    if k == "kw":
        return {"k": "leaf"}
    if k == "asgn":
        return {"k": "asgn", "a": idx[n["a"]], "op": n["op"]}
    if k in ("seq", "alt", "un"):
        return {"k": k, "xs": [lean_body(x, idx) for x in n["xs"]]}
    if k == "opt":
        return {"k": "opt", "x": lean_body(n["x"], idx)}
    if k == "rep":
        return {"k": "rep", "plus": bool(n["plus"]), "x": lean_body(n["x"], idx)}
    raise ValueError(k)


def rule_body(case, rule):
    """The body as textX sees it (Sub has its leading keyword)."""
    b = normalize(case["rules"][rule])
    if rule == "Sub":
        b = {"k": "seq", "xs": [{"k": "kw", "s": "@sub"}, b]}
    return b


# --------------------------------------------------------------------------
# the property's reading, directly on the grammar AST (used by the oracle only)
# --------------------------------------------------------------------------
def cnt_add(x, y):
    return min(2, x + y)


def count_spec(n, attr):
    """0, 1 or 2 (= many): how many values one object can collect for `attr`."""
    k = n["k"]
    if k == "kw":
        return 0
    if k == "asgn":
        if n["a"] != attr:
            return 0
        return 2 if n["op"] in ("*=", "+=") else 1
    if k in ("seq", "un"):
        c = 0
        for x in n["xs"]:
            c = cnt_add(c, count_spec(x, attr))
        return c
    if k == "alt":
        return max(count_spec(x, attr) for x in n["xs"])
    if k == "opt":
        return count_spec(n["x"], attr)
    if k == "rep":
        return 0 if count_spec(n["x"], attr) == 0 else 2
    raise ValueError(k)


def bool_rejection_expected(body):
    """The two documented grammar-level restrictions of `?=`."""
    sites = {}
    for n in walk_nodes(body):
        if n["k"] == "asgn":
            sites.setdefault(n["a"], []).append(n["op"])
    if any("?=" in ops and len(ops) > 1 for ops in sites.values()):
        return True

    def in_rep(n, r):
        if n["k"] == "asgn":
            return r and n["op"] == "?="
        if n["k"] == "rep":
            return in_rep(n["x"], True)
        return any(in_rep(c, r) for c in kids(n))

    return in_rep(body, False)


# --------------------------------------------------------------------------
# values
# --------------------------------------------------------------------------
def convert(kind, text):
    """Token text -> Python value, by the documented base type semantics."""
    if kind == "INT":
        return int(text)
    if kind == "FLOAT":
        return float(text)
    if kind == "BOOL":
        return text == "1" or text.lower() == "true"
    if kind == "STRING":
        return text[1:-1]
    return text  # ID, string match


def prim(v):
    if v is None:
        return {"p": "none"}
    if isinstance(v, bool):
        return {"p": "bool", "v": v}
    if isinstance(v, int):
        return {"p": "int", "v": v}
    if isinstance(v, float):
        return {"p": "float", "v": repr(v)}
    if isinstance(v, str):
        return {"p": "str", "v": v}
    return {"p": type(v).__name__, "v": repr(v)[:60]}


def truthy(cv):
    """Python truthiness of a canonical value."""
    if "obj" in cv:
        return True
    p = cv.get("p")
    if p == "none":
        return False
    if p == "float":
        return float(cv["v"]) != 0.0
    if p in ("int", "bool", "str"):
        return bool(cv["v"])
    return True


# --------------------------------------------------------------------------
# generator
# --------------------------------------------------------------------------
class G:
    def __init__(self, rng, attrs, numeric, allow_sub):
        self.rng = rng
        self.attrs = attrs
        self.numeric = numeric
        self.allow_sub = allow_sub
        self.kw = 0
        self.lit = 0
        self.pref = {}
        self.sites = 0
        self.flags_used = []

    def keyword(self):
        self.kw += 1
        return {"k": "kw", "s": "@%02d" % (self.kw % 100)}

    def literal(self):
        self.lit += 1
        return "LIT:=%02d" % (self.lit % 100)

    def vtype(self, attr):
        rng = self.rng
        if attr not in self.pref:
            pool = [("NUM", 5), ("STRING", 3), ("BOOL", 2), ("ID", 1), ("LIT", 1)]
            if self.allow_sub:
                pool.append(("Sub", 2))
            self.pref[attr] = rng.weighted(pool)
        t = self.pref[attr] if rng.chance(0.8) else rng.choice(["NUM", "STRING", "BOOL", "ID", "LIT"])
        if t == "NUM":
            t = "FLOAT" if self.numeric == "FLOAT" else "INT"
        if t == "BOOL" and self.numeric == "FLOAT":
            t = "FLOAT"
        if t == "LIT":
            t = self.literal()
        return t

    def site(self):
        rng = self.rng
        self.sites += 1
        attr = rng.choice(self.attrs)
        op = rng.weighted([("=", 70), ("+=", 10), ("*=", 8), ("?=", 10)])
        if op == "?=" and rng.chance(0.85):
            # a flag attribute of its own (a second assignment to it is rejected by textX)
            free = [f for f in FLAGS if f not in self.flags_used]
            if free:
                attr = free[0]
                self.flags_used.append(attr)
        if op == "?=":
            rhs = self.literal() if rng.chance(0.8) else self.vtype(attr)
        else:
            rhs = self.vtype(attr)
        a = {"k": "asgn", "a": attr, "op": op, "rhs": rhs}
        if op in ("*=", "+=") and rng.chance(0.4):
            a["sep"] = True
        if rng.chance(0.65):
            return {"k": "seq", "xs": [self.keyword(), a]}
        return a

    def body(self, depth):
        rng = self.rng
        if depth <= 0 or self.sites >= 7:
            return self.site() if rng.chance(0.9) else self.keyword()
        k = rng.weighted([("site", 30), ("seq", 26), ("alt", 18), ("opt", 8), ("rep", 9), ("un", 7), ("kw", 2)])
        if k == "site":
            return self.site()
        if k == "kw":
            return self.keyword()
        if k in ("seq", "alt", "un"):
            n = rng.weighted([(2, 6), (3, 3), (1, 1)]) if k != "seq" else rng.weighted([(2, 5), (3, 4), (4, 1)])
            node = {"k": k, "xs": [self.body(depth - 1) for _ in range(n)]}
            if k == "un":
                node["form"] = rng.choice(["seq", "alt"])
            return node
        if k == "opt":
            return {"k": "opt", "x": self.body(depth - 1)}
        node = {"k": "rep", "plus": rng.chance(0.4), "x": self.body(depth - 1)}
        if rng.chance(0.2):
            node["sep"] = True
        return node


def nullable(n):
    k = n["k"]
    if k == "kw":
        return False
    if k == "asgn":
        return n["op"] in ("*=", "?=")
    if k in ("seq", "un"):
        return all(nullable(x) for x in n["xs"])
    if k == "alt":
        return any(nullable(x) for x in n["xs"])
    if k == "opt":
        return True
    if k == "rep":
        return (not n["plus"]) or nullable(n["x"])
    raise ValueError(k)


def loops_forever(n, in_rep=False):
    """Arpeggio: an ordered choice accepts an alternative that matched nothing (`x*` gives `[]`) and
    wraps it into a truthy `[[]]`, an optional does the same; a repetition around such a result never
    ends (no input is consumed).  Such grammars are outside the property (nothing is ever accepted) and
    are not generated: below a repetition, no choice with a nullable alternative and no optional with a
    nullable operand."""
    k = n["k"]
    if in_rep and k == "alt" and any(nullable(x) for x in n["xs"]):
        return True
    if in_rep and k == "opt" and nullable(n["x"]):
        return True
    if k == "rep":
        return loops_forever(n["x"], True)
    return any(loops_forever(c, in_rep) for c in kids(n))


def has_asgn(n):
    return any(x["k"] == "asgn" for x in walk_nodes(n))


def uses_sub(n):
    return any(x["k"] == "asgn" and x["rhs"] == "Sub" for x in walk_nodes(n))


def gen_case(rng):
    numeric = "FLOAT" if rng.chance(0.12) else "INT"
    allow_sub = rng.chance(0.35)
    nattrs = rng.weighted([(1, 2), (2, 5), (3, 3)])
    depth = rng.weighted([(1, 2), (2, 5), (3, 4)])
    for _ in range(20):
        g = G(rng, ATTRS[:nattrs], numeric, allow_sub)
        body = g.body(depth)
        if not has_asgn(body):
            body = {"k": "seq", "xs": [body, g.site()]}
        if not loops_forever(normalize(body)):
            break
    else:
        body = {"k": "seq", "xs": [g.site(), g.site()]}
    rules = {"Model": body}
    if uses_sub(body):
        sdepth = rng.weighted([(1, 4), (2, 4)])
        for _ in range(20):
            gs = G(rng, SUB_ATTRS[: rng.randint(1, 2)], numeric, False)
            gs.kw, gs.lit = 50, 50
            sb = gs.body(sdepth)
            if not has_asgn(sb):
                sb = {"k": "seq", "xs": [sb, gs.site()]}
            if not loops_forever(normalize(sb)):
                break
        else:
            sb = gs.site()
        rules["Sub"] = sb
    case = {"rules": rules, "auto_init": rng.chance(0.7), "texts": []}
    case["texts"] = gen_texts(case, rng, 3)
    return case


def value_token(rhs, rng, numeric):
    if rhs.startswith("LIT:"):
        return rhs[4:]
    if rhs == "INT":
        return rng.choice(INT_VALUES)
    if rhs == "FLOAT":
        return rng.choice(FLOAT_VALUES)
    if rhs == "BOOL":
        return rng.choice(BOOL_VALUES)
    if rhs == "STRING":
        return rng.choice(STRING_VALUES)
    if rhs == "ID":
        return rng.choice(ID_VALUES)
    raise ValueError(rhs)


def derive(n, rng, case, out, fuel):
    """Append tokens [kind, text] of one derivation of `n` (kind: kw | val | sep)."""
    k = n["k"]
    if k == "kw":
        out.append(["kw", n["s"]])
    elif k == "asgn":
        def one():
            if n["rhs"] == "Sub":
                out.append(["kw", "@sub"])
                derive(normalize(case["rules"]["Sub"]), rng, case, out, fuel)
            else:
                out.append(["val", value_token(n["rhs"], rng, None)])
        op = n["op"]
        if op == "=":
            one()
        elif op == "?=":
            if rng.chance(0.6):
                one()
        else:
            cnt = rng.weighted([(0, 2), (1, 3), (2, 4), (3, 1)])
            if op == "+=":
                cnt = max(cnt, 1)
            for i in range(cnt):
                if i and n.get("sep"):
                    out.append(["sep", ","])
                one()
    elif k == "seq":
        for x in n["xs"]:
            derive(x, rng, case, out, fuel)
    elif k == "alt":
        derive(rng.choice(n["xs"]), rng, case, out, fuel)
    elif k == "opt":
        if rng.chance(0.6):
            derive(n["x"], rng, case, out, fuel)
    elif k == "rep":
        cnt = rng.weighted([(0, 2), (1, 3), (2, 4), (3, 1)])
        if n["plus"]:
            cnt = max(cnt, 1)
        if len(out) > fuel:
            cnt = min(cnt, 1)
        for i in range(cnt):
            before = len(out)
            if i and n.get("sep"):
                out.append(["sep", ","])
            derive(n["x"], rng, case, out, fuel)
            if i and n.get("sep") and len(out) == before + 1:
                out.pop()  # an empty iteration ends the repetition
                break
    elif k == "un":
        for x in rng.shuffle(n["xs"]):
            derive(x, rng, case, out, fuel)
    else:
        raise ValueError(k)


def gen_texts(case, rng, n):
    texts = []
    body = normalize(case["rules"]["Model"])
    for i in range(n):
        toks = []
        derive(body, rng, case, toks, 14)
        origin = "derived"
        if i == n - 1 and toks and rng.chance(0.5):
            origin = "mutated"
            j = rng.below(len(toks))
            m = rng.choice(["drop", "dup", "swap", "falsy"])
            if m == "drop":
                toks = toks[:j] + toks[j + 1:]
            elif m == "dup":
                toks = toks[: j + 1] + toks[j:]
            elif m == "swap" and len(toks) > 1:
                j = rng.below(len(toks) - 1)
                toks[j], toks[j + 1] = toks[j + 1], toks[j]
            else:
                vs = [q for q, t in enumerate(toks) if t[0] == "val" and t[1][:1] in "0123456789-"]
                if vs:
                    toks[rng.choice(vs)] = ["val", "0"]
        texts.append({"tokens": toks[:40], "origin": origin})
    return texts


def text_of(t):
    return " ".join(x[1] for x in t["tokens"])


# --------------------------------------------------------------------------
# watchdog: the code under test must not hang the run (a repetition over a
# body that succeeds without consuming input never ends in Arpeggio)
# --------------------------------------------------------------------------
class Watchdog(BaseException):
    pass


class watchdog:
    def __init__(self, seconds):
        self.seconds = seconds

    def __enter__(self):
        import signal
        import threading

        self.active = threading.current_thread() is threading.main_thread()
        if self.active:
            def handler(sig, frm):
                raise Watchdog()

            # CPU time of this process, not wall time: a loaded machine must not look like a hang
            self.old = signal.signal(signal.SIGPROF, handler)
            signal.setitimer(signal.ITIMER_PROF, self.seconds)
        return self

    def __exit__(self, *a):
        import signal

        if self.active:
            signal.setitimer(signal.ITIMER_PROF, 0)
            signal.signal(signal.SIGPROF, self.old)
        return False


# --------------------------------------------------------------------------
# the check
# --------------------------------------------------------------------------
class Prop(Check):
    ID = "C02"
    LEAN_MODULE = "TextxVerif.Props.C02"
    THEOREMS = [
        "Mult.C02_list_iff",
        "Mult.C02_list_iff_collect",
        "Mult.C02_scalar_once",
        "Mult.C02_store",
        "Mult.C02_no_overwrite",
        "Mult.C02_accepts_iff",
        "Mult.C02_unrepaired_false",
        "Mult.C02_bool_then_plain_rejected",
    ]
    DRIVER = "Drivers/Mult.lean"
    QUICK_CASES = 300
    THOROUGH_CASES = 20000
    PROCS_THOROUGH = 4
    RULE = ("grammar whose rule bodies assign <=3 attributes at <=7 sites under nested sequence / ordered choice / "
            "optional / repetition (with separators) / unordered group with all four operators and INT, FLOAT, BOOL, "
            "STRING, ID, string-match and contained-object values, 3 texts each (derived; one in two mutated; falsy "
            "values 0, \"\", false favoured); non-trivial = the grammar is accepted, some attribute is assigned at "
            ">=2 sites or below a repetition or with *= / +=, and at least one text is accepted in which some object "
            "gets >=2 values for one attribute or a falsy value")
    MODELLED = ("hand-modelled: lang.py visit_assignment (operator base multiplicities, ?= rejection) and "
                "_update_attr_multiplicities (Mult.visit / Mult.walk); model.py process_node assignment branch and "
                "metamodel.py _init_obj_attrs (Mult.store / Mult.initHeap); tie X: op case — multiplicity per "
                "attribute and grammar rejection vs the metamodel, assignment trace of every object of every real "
                "parse tree checked for membership in Mult.Events by the verified matcher, Mult.store replay of the "
                "trace vs the attribute values of the real model object; not exhibited: Arpeggio's parsing itself "
                "(traces are taken from its parse trees), references (C08), user classes, object processors")
    ASSUMPTIONS = [
        "attribute defaults are Python-falsy (None, 0, '', False, 0.0) — checked on every unassigned scalar attribute",
        "the assignment trace of an object is what Arpeggio's parse tree shows below the object's node (children with rule name __asgn_*, in order)",
        "Events over-approximates the traces of an unordered group (an element's trace may be inserted anywhere in the trace of the others)",
        "values are non-reference values (base types, string matches, contained objects); list order of references is C08",
    ]

    # ---- generation ------------------------------------------------------
    def gen(self, rng, n, tier):
        for _ in range(n):
            yield gen_case(rng)
        if tier == "thorough":
            yield from small_family(rng)

    def extra_search(self, rng, tier, broken):
        out = list(small_family(rng))
        out += [gen_case(rng) for _ in range(1500)]
        return out

    # ---- implementation --------------------------------------------------
    def impl(self, case):
        use_repo()
        from arpeggio import NonTerminal, Terminal
        from textx import metamodel_from_str
        from textx.exceptions import TextXError, TextXSemanticError, TextXSyntaxError

        gtxt = grammar_text(case)
        obs = {"grammar_text": gtxt}
        try:
            with watchdog(40):
                mm = metamodel_from_str(gtxt, auto_init_attributes=bool(case.get("auto_init", True)))
        except Watchdog:
            obs["grammar"] = {"other": "Watchdog", "msg": "grammar load did not finish in 40 s of CPU time"}
            return obs
        except TextXError as e:
            msg = str(e)
            kind = "other"
            if 'Cannot use "?=" operator on multiple' in msg:
                kind = "bool-multi"
            elif "Can't use bool assignment inside repetition" in msg:
                kind = "bool-rep"
            obs["grammar"] = {"err": {"cls": type(e).__name__, "kind": kind, "msg": msg[:200]}}
            return obs
        except RecursionError:
            obs["grammar"] = {"other": "RecursionError"}
            return obs
        except Exception as e:
            obs["grammar"] = {"other": type(e).__name__, "msg": str(e)[:200]}
            return obs
        mults = {}
        for rule in case["rules"]:
            cls = mm[rule]
            mults[rule] = {a: m.mult for a, m in cls._tx_attrs.items()}
        obs["grammar"] = {"ok": mults}
        obs["texts"] = []
        rule_names = set(case["rules"])

        def is_obj(v):
            return hasattr(type(v), "_tx_attrs")

        def tree_value(n, objs):
            if isinstance(n, Terminal):
                return prim(convert(n.rule_name, n.value))
            if n.rule_name in rule_names:
                tree_obj(n, objs)
                return {"obj": n.position, "rule": n.rule_name}
            return {"p": "tree", "v": n.rule_name}

        def raw_tokens(n, acc):
            """terminals below an assignment node, except separators and the keywords of nested objects"""
            if isinstance(n, Terminal):
                acc.append(n.value)
                return
            if n.rule_name in rule_names:
                for c in n:
                    if isinstance(c, NonTerminal) and c.rule_name.startswith("__asgn"):
                        asgn_tokens(c, acc)
                return
            for c in n:
                raw_tokens(c, acc)

        def asgn_tokens(a, acc):
            for c in a:
                if c.rule_name != "sep":
                    raw_tokens(c, acc)

        def tree_obj(node, objs):
            rec = {"rule": node.rule_name, "pos": node.position, "trace": []}
            objs.append(rec)
            for c in node:
                if isinstance(c, NonTerminal) and c.rule_name.startswith("__asgn"):
                    op = {"plain": "=", "optional": "?=", "zeroormore": "*=", "oneormore": "+="}[c.rule_name.split("_")[-1]]
                    attr = c.rule._attr_name
                    if op == "=":
                        vs = [tree_value(c[0], objs)]
                    elif op == "?=":
                        vs = [prim(True)]
                    else:
                        vs = [tree_value(x, objs) for x in c if x.rule_name != "sep"]
                    rec["trace"].append({"a": attr, "op": op, "vs": vs})
                elif isinstance(c, NonTerminal) and c.rule_name in rule_names:
                    # an object that is matched but assigned nowhere (not generated)
                    tree_obj(c, objs)

        def model_objs(root):
            out, seen = [], set()

            def val(v):
                if isinstance(v, list):
                    return [val(x) for x in v]
                if is_obj(v):
                    go(v)
                    return {"obj": getattr(v, "_tx_position", None), "rule": type(v).__name__}
                return prim(v)

            def go(o):
                if id(o) in seen:
                    return
                seen.add(id(o))
                rec = {"rule": type(o).__name__, "pos": getattr(o, "_tx_position", None), "attrs": {}}
                out.append(rec)
                for name in type(o)._tx_attrs:
                    rec["attrs"][name] = val(getattr(o, name, None))

            if is_obj(root):
                go(root)
            return out

        for t in case["texts"]:
            text = text_of(t)
            tobs = {"text": text}
            obs["texts"].append(tobs)
            # 1. what the parser matched
            try:
                with watchdog(20):
                    parser = mm._parser_blueprint.clone()
                    parser.parse(text)
                top = parser.parse_tree[0] if isinstance(parser.parse_tree, NonTerminal) and len(parser.parse_tree) else None
            except Watchdog:
                tobs["parse"] = {"other": "Watchdog", "msg": "parse did not finish in 20 s of CPU time"}
                continue
            except TextXSyntaxError as e:
                tobs["parse"] = {"syntax": [e.line, e.col]}
                continue
            except RecursionError:
                tobs["parse"] = {"other": "RecursionError"}
                continue
            except Exception as e:
                tobs["parse"] = {"other": type(e).__name__, "msg": str(e)[:200]}
                continue
            objs, assigned = [], []
            if isinstance(top, NonTerminal) and top.rule_name in rule_names:
                tree_obj(top, objs)
                raw_tokens(top, assigned)
            tobs["parse"] = {"ok": {"objs": objs, "assigned": assigned}}
            # 2. what the model holds
            try:
                with watchdog(20):
                    model = mm.model_from_str(text)
                tobs["model"] = {"ok": model_objs(model)}
            except Watchdog:
                tobs["model"] = {"other": "Watchdog", "msg": "model construction did not finish in 20 s of CPU time"}
            except TextXSemanticError as e:
                tobs["model"] = {"err": {"cls": type(e).__name__, "err_type": getattr(e, "err_type", None), "msg": str(e)[:200]}}
            except TextXError as e:
                tobs["model"] = {"err": {"cls": type(e).__name__, "err_type": getattr(e, "err_type", None), "msg": str(e)[:200]}}
            except RecursionError:
                tobs["model"] = {"other": "RecursionError"}
            except Exception as e:
                tobs["model"] = {"other": type(e).__name__, "msg": str(e)[:200]}
        return obs

    # ---- model request ---------------------------------------------------
    def _rules(self, case):
        names = list(case["rules"])
        out = []
        for r in names:
            b = rule_body(case, r)
            attrs = rule_attrs(b)
            out.append((r, b, attrs, {a: i for i, a in enumerate(attrs)}))
        return out

    def _tree_objs(self, obs):
        """[(text index, tree object)] of all accepted texts, in order."""
        out = []
        for ti, t in enumerate(obs.get("texts", [])):
            p = t.get("parse", {})
            if "ok" in p:
                for o in p["ok"]["objs"]:
                    out.append((ti, o))
        return out

    def model_req(self, case, obs):
        rules = self._rules(case)
        ridx = {r: i for i, (r, _, _, _) in enumerate(rules)}
        req = {"op": "case", "rules": [{"body": lean_body(b, idx), "attrs": list(range(len(attrs)))}
                                       for (_, b, attrs, idx) in rules], "objs": []}
        for ti, o in self._tree_objs(obs):
            if o["rule"] not in ridx:
                return {"op": "case", "rules": "unknown rule in parse tree"}
            _, _, attrs, idx = rules[ridx[o["rule"]]]
            trace = []
            for e in o["trace"]:
                if e["a"] not in idx:
                    return {"op": "case", "rules": "unknown attribute in parse tree"}
                trace.append({"a": idx[e["a"]], "op": e["op"], "vs": [{"t": truthy(v), "v": v} for v in e["vs"]]})
            req["objs"].append({"rule": ridx[o["rule"]], "trace": trace})
        return req

    # ---- correspondence --------------------------------------------------
    def compare(self, case, obs, out):
        if "err" in out:
            return f"model rejected the request: {out}"
        rules = self._rules(case)
        g = obs["grammar"]
        mrej = [r["rej"] for r in out["rules"]]
        if g.get("other") == "Watchdog":
            return None  # not an observation of the property (counted in the evidence)
        if "ok" not in g:
            if "err" in g and g["err"]["kind"] in ("bool-multi", "bool-rep"):
                if not any(mrej):
                    return f"grammar rejected by the implementation ({g['err']['kind']}) but accepted by the model"
                return None
            return f"grammar not loaded by the implementation: {g}"
        if any(mrej):
            return f"grammar accepted by the implementation but rejected by the model ({[x for x in mrej if x]})"
        if not all(r["wf"] for r in out["rules"]):
            return "rule body with an empty choice (hypothesis of C02_list_iff_collect not met)"
        for (r, _, attrs, _), mo in zip(rules, out["rules"]):
            im = g["ok"].get(r, {})
            if list(im) != attrs:
                return f"rule {r}: implementation attributes {list(im)}, grammar AST {attrs}"
            for a, mm_ in zip(attrs, mo["mults"]):
                # property-relevant observable: list or not (exact agreement is counted in the evidence)
                if (im[a] in MANY) != (mm_ in MANY):
                    return f"rule {r} attribute {a}: multiplicity {im[a]} (implementation) vs {mm_} (model)"
        tobjs = self._tree_objs(obs)
        ridx = {r: i for i, (r, _, _, _) in enumerate(rules)}
        # per text: does the model predict a failure for some object?
        for ti, t in enumerate(obs["texts"]):
            if "ok" not in t.get("parse", {}):
                continue
            mine = [(o, mo) for (tj, o), mo in zip(tobjs, out["objs"]) if tj == ti]
            for o, mo in mine:
                if not mo["accepts"]:
                    return f"text {ti}: assignment trace of {o['rule']}@{o['pos']} is not in Events of the rule body: {o['trace']}"
            predicted_err = [mo["store"]["err"] for _, mo in mine if "err" in mo["store"]]
            m = t["model"]
            if m.get("other") == "Watchdog":
                continue
            if "ok" not in m:
                kind = "multAssign" if m.get("err", {}).get("err_type") == "Multiple assignments" else "crash"
                if kind not in predicted_err:
                    return f"text {ti}: implementation fails ({m}) but the model store predicts {predicted_err or 'success'}"
                continue
            if predicted_err:
                return f"text {ti}: model store predicts {predicted_err} but the implementation built the model"
            real = {(x["rule"], x["pos"]): x for x in m["ok"]}
            for o, mo in mine:
                x = real.get((o["rule"], o["pos"]))
                if x is None:
                    return f"text {ti}: object {o['rule']}@{o['pos']} of the parse tree is not in the model"
                attrs = rules[ridx[o["rule"]]][2]
                for a, slot in zip(attrs, mo["store"]["ok"]):
                    v = x["attrs"].get(a)
                    if "list" in slot:
                        if v != slot["list"]:
                            return f"text {ti}: {o['rule']}@{o['pos']}.{a} = {v} (implementation) vs list {slot['list']} (model)"
                    elif "scalar" in slot:
                        if v != slot["scalar"]:
                            return f"text {ti}: {o['rule']}@{o['pos']}.{a} = {v} (implementation) vs {slot['scalar']} (model)"
                    else:
                        if isinstance(v, list) or truthy(v):
                            return f"text {ti}: {o['rule']}@{o['pos']}.{a} = {v} (implementation) but nothing was assigned (model: default)"
        return None

    # ---- the property, decided directly on the implementation ------------
    def oracle(self, case, obs):
        g = obs["grammar"]
        bodies = {r: rule_body(case, r) for r in case["rules"]}
        expected_rej = any(bool_rejection_expected(b) for b in bodies.values())
        if g.get("other") == "Watchdog":
            return None  # a hang is not an observation of this property (counted in the evidence)
        if "ok" not in g:
            if "err" in g and g["err"]["kind"] in ("bool-multi", "bool-rep") and expected_rej:
                return None
            return f"valid grammar not loaded: {g}"
        # static half: list exactly when more than one value can be collected
        for r, b in bodies.items():
            for a in rule_attrs(b):
                mult = g["ok"].get(r, {}).get(a)
                if mult is None:
                    return f"rule {r}: attribute {a} missing in the metaclass"
                can_many = count_spec(b, a) >= 2
                if (mult in MANY) != can_many:
                    return (f"rule {r}: attribute {a} has multiplicity {mult} but one object can collect "
                            f"{'more than one value' if can_many else 'at most one value'} for it")
        # dynamic half
        for ti, (t, tc) in enumerate(zip(obs["texts"], case["texts"])):
            p = t.get("parse", {})
            if "ok" not in p:
                if "syntax" in p or p.get("other") == "Watchdog":
                    continue
                return f"text {ti} {t['text']!r}: parser crashed: {p}"
            vals = [x[1] for x in tc["tokens"] if x[0] == "val"]
            if p["ok"]["assigned"] != vals:
                return (f"text {ti} {t['text']!r}: accepted, value tokens {vals} but the assignments of the parse "
                        f"matched {p['ok']['assigned']}")
            m = t["model"]
            if m.get("other") == "Watchdog":
                continue
            if "ok" not in m:
                et = m.get("err", {}).get("err_type")
                if et == "Multiple assignments":
                    return f"text {ti} {t['text']!r}: accepted by the grammar but fails with 'Multiple assignments': {m['err']['msg']}"
                return f"text {ti} {t['text']!r}: accepted by the grammar but building the model fails: {m}"
            real = {(x["rule"], x["pos"]): x for x in m["ok"]}
            tree = {(o["rule"], o["pos"]): o for o in p["ok"]["objs"]}
            if set(real) != set(tree):
                return f"text {ti} {t['text']!r}: objects of the parse {sorted(tree)} vs objects of the model {sorted(real)}"
            for key, o in tree.items():
                x = real[key]
                matched = {}
                for e in o["trace"]:
                    matched.setdefault(e["a"], []).extend(e["vs"])
                for a, v in x["attrs"].items():
                    want = matched.get(a, [])
                    if isinstance(v, list):
                        if v != want:
                            return (f"text {ti} {t['text']!r}: {key[0]}.{a} = {v} but the assignments matched "
                                    f"{want} (in input order)")
                    elif len(want) >= 2:
                        return (f"text {ti} {t['text']!r}: {key[0]}.{a} = {v} is single-valued but the assignments "
                                f"matched {len(want)} values {want}: values were lost")
                    elif len(want) == 1:
                        if v != want[0]:
                            return f"text {ti} {t['text']!r}: {key[0]}.{a} = {v} but the assignment matched {want[0]}"
                    elif truthy(v):
                        return f"text {ti} {t['text']!r}: {key[0]}.{a} = {v} although nothing was assigned (default not falsy)"
                for a in matched:
                    if a not in x["attrs"]:
                        return f"text {ti}: attribute {a} matched but not an attribute of {key[0]}"
        return None

    # ---- evidence --------------------------------------------------------
    def nontrivial(self, case, obs):
        if "ok" not in obs["grammar"]:
            return False
        multi = False
        for r in case["rules"]:
            b = rule_body(case, r)
            for a in rule_attrs(b):
                sites = [n for n in walk_nodes(b) if n["k"] == "asgn" and n["a"] == a]
                if len(sites) >= 2 or count_spec(b, a) >= 2:
                    multi = True
        if not multi:
            return False
        for t in obs.get("texts", []):
            p = t.get("parse", {})
            if "ok" in p and "ok" in t.get("model", {}):
                for o in p["ok"]["objs"]:
                    per = {}
                    for e in o["trace"]:
                        per.setdefault(e["a"], []).extend(e["vs"])
                    for vs in per.values():
                        if len(vs) >= 2 or any(not truthy(v) for v in vs):
                            return True
        return False

    def extra_evidence(self, cases, obs, outs):
        d = {"grammars_accepted": 0, "grammars_rejected": 0, "texts": 0, "texts_accepted": 0, "texts_mutated": 0,
             "objects_checked": 0, "events": 0, "falsy_values": 0, "list_attrs": 0, "scalar_attrs": 0,
             "attrs_with_2plus_values_in_some_text": 0, "watchdog": 0}
        d["exact_multiplicity_agreement"] = [0, 0]
        for c, o, mo in zip(cases, obs, outs):
            if isinstance(o, dict) and "ok" in o.get("grammar", {}) and isinstance(mo, dict) and "rules" in mo:
                for (r, _, attrs, _), ro in zip(self._rules(c), mo["rules"]):
                    for a, mm_ in zip(attrs, ro["mults"]):
                        d["exact_multiplicity_agreement"][1] += 1
                        d["exact_multiplicity_agreement"][0] += o["grammar"]["ok"].get(r, {}).get(a) == mm_
        for c, o in zip(cases, obs):
            if not isinstance(o, dict) or "grammar" not in o:
                continue
            d["watchdog"] += o["grammar"].get("other") == "Watchdog"
            if "ok" in o["grammar"]:
                d["grammars_accepted"] += 1
                for r, ms in o["grammar"]["ok"].items():
                    for a, m in ms.items():
                        d["list_attrs" if m in MANY else "scalar_attrs"] += 1
            else:
                d["grammars_rejected"] += 1
            for t, tc in zip(o.get("texts", []), c["texts"]):
                d["texts"] += 1
                d["texts_mutated"] += tc.get("origin") == "mutated"
                p = t.get("parse", {})
                d["watchdog"] += p.get("other") == "Watchdog" or t.get("model", {}).get("other") == "Watchdog"
                if "ok" in p:
                    d["texts_accepted"] += 1
                    for ob in p["ok"]["objs"]:
                        d["objects_checked"] += 1
                        per = {}
                        for e in ob["trace"]:
                            d["events"] += 1
                            per.setdefault(e["a"], []).extend(e["vs"])
                            d["falsy_values"] += sum(1 for v in e["vs"] if not truthy(v))
                        d["attrs_with_2plus_values_in_some_text"] += sum(1 for vs in per.values() if len(vs) >= 2)
        return {"distribution": d}

    def sample_view(self, case, obs):
        return {"grammar": obs.get("grammar_text"), "auto_init": case.get("auto_init"),
                "texts": [t.get("text") for t in obs.get("texts", [])][:3],
                "impl": {"grammar": obs.get("grammar"),
                         "first_text": (obs.get("texts") or [None])[0]}}

    # ---- shrinking -------------------------------------------------------
    def shrink(self, case):
        rng = Rng("shrink:" + canon(case["rules"]))
        texts = case["texts"]
        if len(texts) > 1:
            for i in range(len(texts)):
                yield dict(case, texts=[texts[i]])
        for rule in list(case["rules"]):
            for smaller in shrink_body(case["rules"][rule]):
                rules = dict(case["rules"], **{rule: smaller})
                if not has_asgn(rules[rule]) or loops_forever(normalize(rules[rule])):
                    continue
                if "Sub" in rules and not uses_sub(rules["Model"]):
                    rules = {"Model": rules["Model"]}
                if uses_sub(rules["Model"]) and "Sub" not in rules:
                    continue
                c = {"rules": rules, "auto_init": case.get("auto_init", True), "texts": []}
                c["texts"] = gen_texts(c, rng.fork("t"), 4)
                c["texts"] += [dict(t, origin="kept") for t in texts[:2]]
                yield c
        # shorter texts
        if len(texts) == 1:
            toks = texts[0]["tokens"]
            for j in range(len(toks)):
                yield dict(case, texts=[{"tokens": toks[:j] + toks[j + 1:], "origin": "shrunk"}])


def shrink_body(n):
    """Smaller bodies: a child instead of the node, one element less."""
    k = n["k"]
    for c in kids(n):
        yield c
    if k in ("seq", "alt", "un") and len(n["xs"]) > 1:
        for i in range(len(n["xs"])):
            yield dict(n, xs=n["xs"][:i] + n["xs"][i + 1:])
    if k in ("seq", "alt", "un"):
        for i, x in enumerate(n["xs"]):
            for s in shrink_body(x):
                yield dict(n, xs=n["xs"][:i] + [s] + n["xs"][i + 1:])
    elif k in ("opt", "rep"):
        for s in shrink_body(n["x"]):
            yield dict(n, x=s)
    elif k == "asgn":
        if n.get("sep"):
            yield {kk: v for kk, v in n.items() if kk != "sep"}
        if n["rhs"] != "INT" and n["op"] != "?=":
            yield dict(n, rhs="INT")


def small_family(rng):
    """All bodies built from two assignment sites of attribute `a` (operators =, +=, *=) and one of `b`,
    combined by one or two of sequence / choice / unordered group, each part optionally under ? * +
    — the shapes on which the inference must tell one from many."""
    def site(attr, op, kw):
        return {"k": "seq", "xs": [{"k": "kw", "s": kw}, {"k": "asgn", "a": attr, "op": op, "rhs": "INT"}]}

    def wraps(x):
        yield x
        yield {"k": "opt", "x": x}
        yield {"k": "rep", "plus": False, "x": x}
        yield {"k": "rep", "plus": True, "x": x}

    cases = []
    for op1 in ("=", "+="):
        for op2 in ("=", "*="):
            s1, s2, s3 = site("a", op1, "@01"), site("a", op2, "@02"), site("b", "=", "@03")
            for k1 in ("seq", "alt", "un"):
                for k2 in ("seq", "alt", "un"):
                    for w in range(4):
                        inner = list(wraps({"k": k2, "xs": [s2, s3]}))[w]
                        for shape in ({"k": k1, "xs": [s1, inner]}, {"k": k1, "xs": [inner, s1]},
                                      {"k": k1, "xs": [{"k": "opt", "x": s1}, inner, s3]}):
                            cases.append(shape)
    for body in cases:
        c = {"rules": {"Model": body}, "auto_init": rng.chance(0.5), "texts": []}
        c["texts"] = gen_texts(c, rng, 3)
        c["origin"] = "family"
        yield c
