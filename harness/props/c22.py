"""C22 — whitespace and comments between tokens do not change the model.

Implementation side.  Every generated grammar (with / without a Comment rule, `noskipws` / `skipws` / `ws=`
rule modifiers, metamodel `skipws` / `ws`) is compiled by the real textX; every text is loaded with
`model_from_str`.  The whitespace sets of `ws=` modifiers and of the metamodel are structured random sets over
blank / tab / carriage return / new-line (+ now and then an unusual character), written as escape sequences,
literally or mixed, in any order, in single or double quotes; part of the texts is laid out *mode-aware* (the
separator in front of a token is taken from the set in force there), so that rules whose set lacks the blank
have accepted texts with non-empty gaps.  For an accepted text the token boundaries are taken from the real parse tree and the
whitespace context of every `Match.parse` call of that run is recorded (a recording wrapper around
`arpeggio.Match.parse`, harness process only).  Then

* sentence 1 of the property (direct oracle): at every *gap-extension site* (DESIGN.md C22 Reading: a
  non-empty gap the accepting parse skipped in one go, or the very start / end of the input; not inside a
  comment) whitespace characters of the documented active set, and text matched by the Comment rule, are
  inserted; acceptance and the model dump must not change.  A site / string pair is inside the hypothesis
  only if no terminal consumes or inspects the gap material (`tok_compat`, the `LexicalGrammar` condition,
  decided on the real `re` / string matchers) and every *other* scan that crossed the site (failed
  alternatives, predicates — they may run under another rule's modifier) also skips the inserted characters.
  *Alphabet sweep*: under every mode put in force by a `ws=` modifier / the metamodel's `ws`, every character
  of the set is inserted at some site of that mode (and two standard whitespace characters outside it);
* sentence 2 (direct oracle): in every accepted parse — originals and variants, including variants that
  insert whitespace *outside* the active set — the material in front of every terminal must consist of
  characters of the set that the grammar's rule modifiers put in force there (none under `noskipws`) and of
  Comment matches.  The mode in force is computed from the grammar's modifiers along the parse-tree path
  (documented scoping), not from the parser's state;
* correspondence (tie X): the Lean mirror `Peg.Arp` is run (driver `Drivers/PegWs.lean`) on the dumped real
  parser model for the original and for every variant; tree / failure position must equal the real
  parser's; the Lean evaluation of the theorem's side conditions (`tokCompatB`, `modesSkipB`) must equal the
  harness's, and wherever `gapExtOkB` holds the mirror's outcomes must be related as `C22_partial_ws` says;
  the rule modifiers as written are sent to `Peg.ruleMods` (mirror of `visit_rule_param` / `visit_rule_params`,
  `Peg/WsParam.lean`): skipws / ws of the compiled rule node must equal the model's.

Set-up beyond one grammar string (added after the seeded changes C22-5 / C22-6):

* the grammar may be spread over a main file and up to two imported files (packages, an import of an import),
  loaded with `metamodel_from_file`; every file has a Comment rule of its own or none (regex, alias `Comment: X;`,
  choice of two rules; different files use different comment syntaxes).  "The grammar's Comment rule" is decided
  from the documented search order (current file first, then the imported files in the order of import); text
  matched only by another file's Comment rule is inserted too and must not be skipped (sentence 2);
* a case lists the meta-models created in the same process before (`history`) and after (`later`) the one under
  test — the same grammar under another configuration or an unrelated one, with memoization / skipws / ws /
  ignore_case / autokwd options; `reset_process_state` puts the module-level state of textX / Arpeggio back before
  every case, so a case (and its replay) sees exactly the history it lists;
* `add_clash`: two alternatives with different whitespace modes (noskipws / ws= / inherited) that reach one
  non-terminal sub-rule at the same position — whatever a parser keeps per position is filled under one mode and
  consulted under the other;
* correspondence: `Peg.commentOwner` (lookup of `Comment` through the namespaces, `Peg/Setup.lean`) vs the file
  whose Comment rule *is* the parser's comments model; `Peg.parserCfgAfter` (configuration of the parser after a
  history) vs skipws / ws / memoization of the real parser.

Known finding (Arpeggio, dependency): `comment_positions` is keyed by position only.  Classifier: the
failure disappears when the real parser is re-run with the cache key extended by (skipws, ws).
"""
import copy as _copy
import os
import re
import shutil
import tempfile

from harness.core import Check, Rng, use_repo
from harness import gen_grammar as G
from harness import peg
from harness.txutil import dump_model, outcome, with_timeout

DEFAULT_WS = "\t\n\r "
DEFAULT_MODE = (True, DEFAULT_WS)
WS_STD = [" ", "\t", "\r", "\n"]
WS_EXOTIC = ["~", "\x0b", "\xa0"]   # not whitespace for Arpeggio's default, not part of any generated token
ESC_OF = {"\n": "\\n", "\r": "\\r", "\t": "\\t"}
ESC_CHARS = {"n": "\n", "r": "\r", "t": "\t"}
CFGS = [{}, {}, {}, {"ws": " "}, {"ws": " \t\n"}, {"skipws": False}, {"ws": "\n "}]
MAX_VARIANTS = 7
MAX_SWEEP = 5
KF_ID = "C22-comment-cache-ignores-ws-context"

# ---------------------------------------------------------------------------------------------------
# process state (a case is observed after exactly the history of meta-models it lists itself)
# ---------------------------------------------------------------------------------------------------
_PRISTINE = None
_PLAINT = (int, bool, str, float, type(None), tuple, frozenset, bytes)


def _state_cells():
    """(owner, owner name, attribute, value) for every module-level and class-level attribute of the textX and
    Arpeggio modules that holds plain data (dict / list / set, numbers, strings, tuples, None) or a functools cache"""
    import sys as _sys

    out = []
    for mname, mod in sorted(_sys.modules.items()):
        if mod is None or not (mname == "textx" or mname.startswith("textx.") or mname == "arpeggio"
                               or mname.startswith("arpeggio.")):
            continue
        for k, v in list(vars(mod).items()):
            if k.startswith("__"):
                continue
            if type(v) in (dict, list, set) or type(v) in _PLAINT or (
                    hasattr(v, "cache_clear") and getattr(v, "__module__", None) == mname):
                out.append((mod, mname, k, v))
            elif isinstance(v, type) and getattr(v, "__module__", None) == mname:
                for ck, cv in list(vars(v).items()):
                    if not ck.startswith("__") and (type(cv) in (dict, list, set) or type(cv) in _PLAINT):
                        out.append((v, f"{mname}.{v.__name__}", ck, cv))
    return out


def reset_process_state():
    """Bring the module-level / class-level plain state of the textX and Arpeggio modules (e.g. `lang.textX_parsers`,
    the cache of grammar parsers), functools caches and the regex cache back to what they were when the code under
    test had just been imported (same technique as the C20 / C05 checks).  What earlier cases of the same worker
    process left behind neither masks nor fakes a failure, and a replay (fresh process) sees what the run saw."""
    global _PRISTINE
    use_repo()
    import arpeggio  # noqa: F401
    import textx  # noqa: F401
    import textx.lang  # noqa: F401
    import textx.metamodel  # noqa: F401
    import textx.model  # noqa: F401
    import textx.scoping  # noqa: F401

    re.purge()
    cells = _state_cells()
    if _PRISTINE is None:
        _PRISTINE = {}
        for owner, oname, k, v in cells:
            if not hasattr(v, "cache_clear"):
                _PRISTINE[(oname, k)] = (v, _copy.copy(v))
        return
    for owner, oname, k, v in cells:
        if hasattr(v, "cache_clear"):
            v.cache_clear()
            continue
        ref = _PRISTINE.get((oname, k))
        if ref is None:
            continue
        saved = ref[1]
        if type(saved) in _PLAINT:
            if type(v) is not type(saved) or v != saved:
                setattr(owner, k, saved)
            continue
        if ref[0] is not v or v == saved:
            continue
        if type(v) is list:
            v[:] = saved
        else:
            v.clear()
            v.update(saved)


# ---------------------------------------------------------------------------------------------------
# recording wrapper around Match.parse (harness process only; calls the original code)
# ---------------------------------------------------------------------------------------------------
_REC = {"log": None, "parser": None, "ctx": False}


class CtxDict(dict):
    """comment_positions keyed by (position, skipws, ws) instead of position only (classifier)."""

    def __init__(self, parser):
        super().__init__()
        self.parser = parser

    def _k(self, pos):
        return (pos, bool(self.parser.skipws), self.parser.ws)

    def __contains__(self, pos):
        return dict.__contains__(self, self._k(pos))

    def __getitem__(self, pos):
        return dict.__getitem__(self, self._k(pos))

    def __setitem__(self, pos, v):
        dict.__setitem__(self, self._k(pos), v)


def install_hooks():
    import arpeggio as A

    if getattr(A.Match, "_c22_hooked", False):
        return
    orig_parse = A.Match.parse

    def parse(self, parser):
        log = _REC["log"]
        if log is None:
            return orig_parse(self, parser)
        if _REC["parser"] is not parser:
            _REC["parser"] = parser
        if _REC["ctx"] and type(parser.comment_positions) is dict:
            parser.comment_positions = CtxDict(parser)
        q = parser.position
        who = "EOF" if isinstance(self, A.EndOfFile) else id(self)
        mode = (bool(parser.skipws), parser.ws)
        inc = bool(parser.in_parse_comments)
        parser._c22_r = None
        try:
            res = orig_parse(self, parser)
        except A.NoMatch:
            r = parser._c22_r
            log.append((q, parser.position if r is None else r, None, mode, inc, who))
            raise
        r = parser._c22_r
        log.append((q, parser.position if r is None else r, parser.position, mode, inc, who))
        return res

    A.Match.parse = parse
    for cls in (A.StrMatch, A.RegExMatch, A.EndOfFile):
        def mk(orig):
            def _parse(self, parser):
                parser._c22_r = parser.position
                return orig(self, parser)
            return _parse
        cls._parse = mk(cls._parse)
    A.Match._c22_hooked = True


def patient(fn, secs):
    """`with_timeout`, but a wall-clock limit that fires on a loaded machine is no evidence: a Timeout is
    confirmed once with a generous limit before it becomes an observation"""
    r = with_timeout(fn, secs)
    if isinstance(r, dict) and r.get("other") == "Timeout":
        r = with_timeout(fn, 20)
    return r


def run_text(mm, text, ctx=False):
    """mm.model_from_str(text) with recording.  Returns (load outcome, parser or None, log)."""
    install_hooks()
    _REC["log"], _REC["parser"], _REC["ctx"] = [], None, ctx
    try:
        o = outcome(lambda: dump_model(mm.model_from_str(text)))
        if "err" in o:
            e = o["err"]
            o = {"err": [e["cls"], e["line"], e["col"]]}
        return o, _REC["parser"], _REC["log"]
    finally:
        _REC["log"], _REC["parser"], _REC["ctx"] = None, None, False


# ---------------------------------------------------------------------------------------------------
# documented whitespace modes
# ---------------------------------------------------------------------------------------------------
def doc_ws(value):
    """the set a `ws='…'` modifier denotes: the characters written between the quotes, `\\n` `\\r` `\\t`
    standing for new-line, carriage return and tab (grammar.md: `ws='\\n'` = new-line only); own decoder,
    independent of textX's"""
    out, i = "", 0
    while i < len(value):
        if value[i] == "\\" and i + 1 < len(value) and value[i + 1] in ESC_CHARS:
            out += ESC_CHARS[value[i + 1]]
            i += 2
        else:
            out += value[i]
            i += 1
    return out


# ---------------------------------------------------------------------------------------------------
# structured whitespace sets and the ways of writing them (the property's "active whitespace set" ranges
# over every set a grammar / a metamodel can put in force, not over the four values of the base generator)
# ---------------------------------------------------------------------------------------------------
def ws_chars(rng, allow_empty=False):
    """random whitespace set as a list of characters in written order (a character may be repeated)"""
    chars = [c for c in WS_STD if rng.chance(0.5)]
    if rng.chance(0.15):
        chars.append(rng.choice(WS_EXOTIC))
    if not chars and not (allow_empty and rng.chance(0.3)):
        chars = [rng.choice(WS_STD)]
    chars = list(rng.shuffle(chars))
    if chars and rng.chance(0.1):
        chars.append(rng.choice(chars))
    return chars


def ws_spelling(rng):
    """a whitespace set as written in a `ws='…'` modifier: new-line / carriage return / tab as escape
    sequences (the usual way), literally, or mixed; everything else literally"""
    style = rng.weighted([("esc", 6), ("lit", 2), ("mixed", 2)])
    out = ""
    for c in ws_chars(rng, allow_empty=True):
        if c in ESC_OF and (style == "esc" or (style == "mixed" and rng.chance(0.5))):
            out += ESC_OF[c]
        else:
            out += c
    return out


def respell(g, rng):
    """Replace most `ws=` values of the base generator (4 fixed values) by structured ones, give some more
    rules a `ws=` modifier, vary quote character and the order of the modifiers."""
    for rl in g["rules"]:
        p = rl["params"]
        if ("ws" in p and rng.chance(0.7)) or ("ws" not in p and rng.chance(0.12)):
            p["ws"] = ws_spelling(rng)
        if "ws" in p:
            if rng.chance(0.2):
                p["wsq"] = '"'
            if "skipws" in p and rng.chance(0.3):
                p["ws_first"] = True


# ---------------------------------------------------------------------------------------------------
# grammars over several files (`import`), the Comment rule in force, ways of writing the Comment rule
# ---------------------------------------------------------------------------------------------------
IMPORT_NAMES = [("base", "common"), ("lib.base", "lib.common"), ("base", "lib.common"), ("lib.base", "common"),
                ("lib.base", "lib.sub.common")]
BASE_RULES = ["ID", "STRING", "BOOL", "INT", "FLOAT", "STRICTFLOAT", "NUMBER", "BASETYPE", "OBJECT"]


def expr_refs(e, acc):
    if e["k"] == "ref":
        acc.add(e["name"])
    for x in e.get("xs", []):
        expr_refs(x, acc)
    for key in ("x", "rhs", "sep"):
        if isinstance(e.get(key), dict):
            expr_refs(e[key], acc)
    return acc


def comment_samples_of(regexes):
    return [smp for rx in regexes for smp in G.COMMENT_SAMPLES[rx]]


def render_comment(kind, regexes, tag):
    """the Comment rule of one grammar file: a regex match, a plain reference to another rule (alias), or an
    ordered choice of two rules; the helper rules get names that are unique over the files of the grammar"""
    if kind == "alias":
        return f"Comment: Cmt{tag};\nCmt{tag}: /{regexes[0]}/;\n"
    if kind == "alts":
        return f"Comment: Cmt{tag}a | Cmt{tag}b;\nCmt{tag}a: /{regexes[0]}/;\nCmt{tag}b: /{regexes[1]}/;\n"
    return f"Comment: /{regexes[0]}/;\n"


def relative_import(importer, target):
    """how `target` (dotted name relative to the root directory) is written in an import statement of `importer`:
    names are relative to the directory of the importing file (`_new_import`); None if not expressible"""
    if "." not in importer:
        return target
    pkg = importer.rsplit(".", 1)[0] + "."
    return target[len(pkg):] if target.startswith(pkg) else None


def layout_files(g, rng, focus=False):
    """Distribute the rules of `g` over a main grammar file and up to two imported files, give every file its own
    Comment rule or none, and decide how the grammar is loaded.  Returns the fields of the case that describe it:

      grammar      text of the main grammar (the first rule is the model's top rule)
      imports      {dotted name: text} of the imported files ({}: single grammar)
      from_file    loaded with metamodel_from_file (always with imports), else metamodel_from_str
      files        [{"name", "defines": [rule names], "imports": [dotted names, in the order of import]}], main first
      comment      regex of the Comment rule *in force*: rule references are searched for in the current file first
                   and then in the imported files in the order of import (docs/grammar.md, Grammar modularization)
      comment_samples, foreign (regexes of Comment rules of other files that are not in force)

    The generator only references later rules, so contiguous segments of the rule list can be put into files that
    import the files of later segments."""
    rules = g["rules"]
    n = len(rules)
    nimp = rng.weighted([(0, 0 if focus else 14), (1, 3), (2, 3)])
    from_file = nimp > 0 or rng.chance(0.12)
    if from_file:
        # a grammar file is read in text mode: Python's universal-newline translation turns a carriage return
        # written literally into a line feed before textX sees it; in files the character is written as `\r`
        for r in rules:
            if "\r" in r["params"].get("ws", ""):
                r["params"]["ws"] = r["params"]["ws"].replace("\r", "\\r")
    # a file cannot use rules of a file that imports it: cut only where no later rule refers back ('(' Model ')' ...);
    # a cut behind the last rule (an imported file with nothing but its Comment rule) is always possible
    index = {r["name"]: i for i, r in enumerate(rules)}
    back = [min([index[nm] for nm in expr_refs(r["body"], set()) if nm in index] + [i]) for i, r in enumerate(rules)]
    valid = [c for c in range(1, n + 1) if all(b >= c for b in back[c:])]
    cuts = sorted(rng.choice(valid) for _ in range(nimp))
    bounds = [0] + cuts + [n]
    segs = [rules[a:b] for a, b in zip(bounds, bounds[1:])]
    names = ["main"] + list(rng.choice(IMPORT_NAMES))[:nimp]
    where = {r["name"]: i for i, seg in enumerate(segs) for r in seg}
    need = [set() for _ in segs]
    for i, seg in enumerate(segs):
        for r in seg:
            for nm in expr_refs(r["body"], set()):
                if where.get(nm, i) != i:
                    need[i].add(where[nm])
    imports = [[] for _ in segs]
    if nimp == 2 and (2 in need[1] or rng.chance(0.35)):
        # the first imported file imports the second one (it must when its rules use rules of it)
        if relative_import(names[1], names[2]) is None:
            names[2] = names[1].rsplit(".", 1)[0] + ".common"
        imports[1] = [2]
    main_imps = [1] if nimp else []
    if nimp == 2 and (2 in need[0] or not imports[1] or rng.chance(0.7)):
        main_imps.append(2)
    imports[0] = rng.shuffle(main_imps)
    # Comment rules: main keeps what the base generator decided; every imported file has its own with p = 0.6;
    # different files use different comment syntaxes
    pool = rng.shuffle([rx for rx in G.COMMENTS if rx != g.get("comment")])
    has = [bool(g.get("comment"))] + [rng.chance(0.85 if focus else 0.6) for _ in range(nimp)]
    if focus and not has[0]:
        has[0] = rng.chance(0.6)
    prim = {}
    for i in range(len(segs)):
        if has[i]:
            prim[i] = g["comment"] if (i == 0 and g.get("comment")) else pool.pop()
    cdefs = {}
    for i in sorted(prim):
        kind = rng.weighted([("plain", 6), ("alias", 2), ("alts", 2 if pool and len(prim) < 3 else 0)])
        regs = [prim[i]] + ([pool.pop()] if kind == "alts" else [])
        cdefs[i] = (kind, regs)
    texts, files = [], []
    for i, seg in enumerate(segs):
        head = "".join(f"import {relative_import(names[i], names[j])}\n" for j in imports[i])
        body = G.render_grammar({"rules": seg, "comment": None}) if seg else ""
        defines = [r["name"] for r in seg]
        if i in cdefs:
            kind, regs = cdefs[i]
            tag = "MAB"[i]
            body += render_comment(kind, regs, tag)
            defines += ["Comment"] + {"plain": [], "alias": [f"Cmt{tag}"], "alts": [f"Cmt{tag}a", f"Cmt{tag}b"]}[kind]
        if not body.strip():    # a grammar file needs at least one rule
            body = f"Unused{i}: 'zz';\n"
            defines.append(f"Unused{i}")
        texts.append(head + body)
        files.append({"name": names[i], "defines": defines, "imports": [names[j] for j in imports[i]]})
    owner = next((i for i in [0] + imports[0] if i in cdefs), None)
    inforce = cdefs[owner][1] if owner is not None else []
    foreign = [rx for i, (_k, regs) in sorted(cdefs.items()) if i != owner for rx in regs if rx not in inforce]
    return {"grammar": texts[0], "imports": {names[i]: texts[i] for i in range(1, len(segs))},
            "from_file": from_file, "files": files,
            "comment": "|".join(f"(?:{rx})" for rx in inforce) if len(inforce) > 1 else (inforce[0] if inforce else None),
            "comment_samples": comment_samples_of(inforce), "comment_res": inforce, "foreign": foreign,
            "comment_owner": names[owner] if owner is not None else None}


# ---------------------------------------------------------------------------------------------------
# one sub-rule reached at one input position under two whitespace modes (backtracking re-parses it)
# ---------------------------------------------------------------------------------------------------
CLASH_INNER = [".", ",", "::", "->"]
CLASH_CONT = ["=", ":", "=>", ";", "kw", "<-"]
CLASH_TOKS = [{"k": "ref", "name": "ID"}, {"k": "ref", "name": "INT"}, {"k": "re", "v": r"[a-c]+"},
              {"k": "re", "v": r"\d+"}, {"k": "re", "v": r"[xy]"}]


def add_clash(g, kinds, rng):
    """`E: CA | CB;  CA[m1]: k=K 'x' v=INT;  CB[m2]: k=K 'y' v=INT;  K: t '.' t;` hooked into a common rule: the
    alternatives reach the non-terminal rule `K` at the same position under different whitespace modes (one of
    `noskipws`, a `ws=` set, the inherited mode).  Whatever the parser keeps per position (comment cache, memo
    tables should a parser memoize) is filled under the mode of the first alternative and consulted under the
    mode of the second one.  Returns False when the grammar has no common rule to hook it into."""
    hosts = [r for r in g["rules"] if kinds.get(r["name"]) == "common"]
    if not hosts:
        return False
    host = rng.choice(hosts)
    inner = rng.choice(CLASH_INNER)
    t1, t2 = dict(rng.choice(CLASH_TOKS)), dict(rng.choice(CLASH_TOKS))
    step = {"k": "seq", "xs": [{"k": "str", "v": inner}, t2]}
    if rng.chance(0.5):
        kbody = {"k": "seq", "xs": [t1, {"k": "rep", "op": "*", "x": step, "sep": None, "eol": False}]}
    else:
        kbody = {"k": "seq", "xs": [t1] + step["xs"]}
    ca, cb = rng.sample([c for c in CLASH_CONT if c != inner], 2)

    def mode(which):
        if which == "noskip":
            return {"skipws": False}
        if which == "ws":
            return {"ws": ws_spelling(rng)}
        if which == "skip":
            return {"skipws": True}
        return {}

    m1, m2 = rng.choice([("noskip", None), (None, "noskip"), ("ws", None), (None, "ws"), ("noskip", "ws"),
                         ("ws", "noskip"), ("ws", "ws"), ("skip", "noskip"), ("noskip", "skip")])

    def alt(name, cont, m):
        val = {"k": "ref", "name": rng.choice(["INT", "ID", "BOOL"])}
        return {"name": name, "params": mode(m), "body": {"k": "seq", "xs": [
            {"k": "asgn", "attr": "k", "op": "=", "rhs": {"k": "ref", "name": "KeyC"}, "sep": None, "eol": False},
            {"k": "str", "v": cont},
            {"k": "asgn", "attr": "v", "op": "=", "rhs": val, "sep": None, "eol": False}]}}

    new = [{"name": "EntryC", "params": {}, "body": {"k": "alt", "xs": [{"k": "ref", "name": "TightC"},
                                                                       {"k": "ref", "name": "LooseC"}]}},
           alt("TightC", ca, m1), alt("LooseC", cb, m2),
           {"name": "KeyC", "params": {}, "body": kbody}]
    hook = {"k": "asgn", "attr": "clash", "op": rng.choice(["*=", "+=", "="]), "rhs": {"k": "ref", "name": "EntryC"},
            "sep": None, "eol": False}
    host["body"] = {"k": "seq", "xs": [host["body"], hook] if rng.chance(0.6) else [hook, host["body"]]}
    g["rules"] += new
    return True


# ---------------------------------------------------------------------------------------------------
# histories: meta-models created in the same process before (and after) the one under test
# ---------------------------------------------------------------------------------------------------
HIST_POOL = [
    ("Sum: terms+=INT['+'];\n", "1 + 2 + 3"),
    ("Model: a+=A | b=B;\nA[noskipws]: x=X 'c';\nB: x=X 'd';\nX: 'a' v='b';\nComment: /#.*$/;\n", "a b d # c"),
    ("Doc[ws=' ']: lines+=Line;\nLine[skipws]: 'l' name=ID ';';\nComment: /\\/\\*(.|\\n)*?\\*\\//;\n", "l a ; /* c */ l b ;"),
]


def hist_cfg(rng, memo_p):
    """configuration of a meta-model of the history: every parser option of metamodel_from_str / _from_file
    (debug stays off: it writes dot files into the working directory)"""
    c = {}
    if rng.chance(memo_p):
        c["memoization"] = True
    if rng.chance(0.2):
        c["skipws"] = False
    if rng.chance(0.25):
        c["ws"] = "".join(ws_chars(rng))
    if rng.chance(0.15):
        c["ignore_case"] = True
    if rng.chance(0.15):
        c["autokwd"] = True
    return c


def gen_steps(rng, k, texts, memo_p=0.5):
    """k earlier / later meta-models: the grammar under test itself with another configuration (`same`) or an
    unrelated one, each loading one text"""
    out = []
    for _ in range(k):
        if rng.chance(0.5):
            out.append({"same": True, "cfg": hist_cfg(rng, memo_p), "text": rng.choice(texts) if texts else ""})
        else:
            gr, t = rng.choice(HIST_POOL)
            out.append({"grammar": gr, "cfg": hist_cfg(rng, memo_p), "text": t})
    return out


def base_mode(cfg):
    return (bool(cfg.get("skipws", True)), cfg.get("ws", DEFAULT_WS) or DEFAULT_WS)


class ModeDeriver(G.Deriver):
    """Derivation that knows the whitespace mode in force at every token (documented scoping: metamodel
    setting, overridden by the modifiers of the rules entered; `eolterm` removes the end-of-line characters
    for the duration of the repetition).  Tokens are (text, (skipws, ws)) pairs."""

    def __init__(self, g, rng, cfg):
        super().__init__(g, rng)
        self.mode = base_mode(cfg)
        self.eol = False

    def _tag(self, toks):
        skip, ws = self.mode
        if self.eol:
            ws = ws.replace("\n", "").replace("\r", "")
        return [t if isinstance(t, tuple) else (t, (skip, ws)) for t in toks]

    def d(self, e, depth):
        k = e["k"]
        saved = (self.mode, self.eol)
        try:
            if k == "ref" and e["name"] in self.rules:
                p = self.rules[e["name"]].get("params") or {}
                self.mode = (p.get("skipws", self.mode[0]), doc_ws(p["ws"]) if "ws" in p else self.mode[1])
            elif k in ("rep", "asgn") and e.get("eol"):
                self.eol = True
            return self._tag(super().d(e, depth))
        finally:
            self.mode, self.eol = saved


def mode_layout(toks, rng, cfg, comment):
    """Join mode-tagged tokens with material that is skippable where it stands: characters of the set in force
    for the token behind the gap (nothing under `noskipws`), now and then a comment (`comment`: sample texts)."""
    out = ""
    eof_mode = base_mode(cfg)
    for i, (t, (skip, ws)) in enumerate(list(toks) + [("", eof_mode)]):
        last = i == len(toks)
        sep = ""
        if skip and ws:
            c = rng.weighted([("one", 6 if i else 1), ("two", 2), ("none", 1 if i and not last else 8)])
            if c != "none":
                sep = rng.choice(ws) + (rng.choice(ws) if c == "two" else "")
        if comment and rng.chance(0.12):
            smp = rng.choice(comment)
            body = smp.rstrip("\n ")
            tail = smp[len(body):]
            # the line end / blank behind the comment must be skippable itself
            if all(skip and ch in ws for ch in tail):
                sep = sep + body + tail + (rng.choice(ws) if skip and ws and rng.chance(0.3) else "")
        out += sep + t
    return out


def mode_texts(g, cfg, rng, n):
    d = ModeDeriver(g, rng, cfg)
    return [mode_layout(d.tokens(), rng, cfg, comment_samples_of(G.comment_pool(g))) for _ in range(n)]


def terminals_with_modes(tree, params, cfg):
    """[(position, length, (skipws, ws))] of the terminals of a real parse tree, in text order; the mode is
    the documented one: metamodel setting, overridden by the modifiers of the rules on the path."""
    use_repo()
    from arpeggio import EndOfFile, NonTerminal, Terminal

    out = []

    def walk(node, mode):
        p = params.get(getattr(node, "rule_name", "") or "")
        if p:
            mode = (p.get("skipws", mode[0]), doc_ws(p["ws"]) if "ws" in p else mode[1])
        if isinstance(node, Terminal):
            who = "EOF" if isinstance(node.rule, EndOfFile) else id(node.rule)
            out.append((node.position, len(node.value), mode, who))
        elif isinstance(node, NonTerminal):
            for c in node:
                walk(c, mode)

    base = base_mode(cfg)
    # the root of the tree is textX's wrapper `<top rule> EOF` (it carries the top rule's name but not its
    # modifiers): EOF, and the whitespace in front of it, are under the metamodel's setting
    if isinstance(tree, NonTerminal):
        for c in tree:
            walk(c, base)
    else:
        walk(tree, base)
    out.sort(key=lambda t: (t[0], t[1]))
    return out


def skippable(text, a, b, mode, comment_re):
    """Is text[a:b] made of characters of the set (when skipping is on) and Comment matches only?
    (the property's own notion of what may be skipped)"""
    skip, ws = mode
    pos = a
    while pos < b:
        if skip and text[pos] in ws:
            pos += 1
            continue
        if comment_re is not None:
            m = comment_re.match(text, pos)
            if m and m.end() > pos and m.end() <= b:
                pos = m.end()
                continue
        return False
    return True


def analyse(text, parser, log, params, cfg, comment_re):
    """Token boundaries, pure gaps and sentence-2 verdict of one accepted parse."""
    terms = terminals_with_modes(parser.parse_tree, params, cfg)
    succ = {(q, r, e, who) for (q, r, e, _m, inc, who) in log if e is not None and not inc}
    gaps = []
    prev_end = 0
    bad = None
    for (pos, ln, mode, who) in terms:
        if pos < prev_end:
            continue
        # the scan of this very terminal (an empty regex match leaves no terminal behind although it skipped
        # whitespace under its own mode: the terminal behind such a gap did not skip it)
        pure = (prev_end, pos, pos + ln, who) in succ
        if pure:
            gaps.append({"a": prev_end, "b": pos, "e": pos + ln, "mode": [mode[0], mode[1]]})
            if bad is None and pos > prev_end and not skippable(text, prev_end, pos, mode, comment_re):
                bad = {"a": prev_end, "b": pos, "gap": text[prev_end:pos], "mode": [mode[0], mode[1]]}
        prev_end = pos + ln
    return gaps, bad


def tok_compat(rows, rows2, p, k, n):
    """LexicalGrammar condition on the real matchers (mirrors Peg.tokCompatB)."""
    for r1, r2 in zip(rows, rows2):
        if not r1 and not r2:
            continue
        for q in range(n + 1):
            q2 = q if q < p else q + k
            a = r1[q] if q < len(r1) else -1
            b = r2[q2] if q2 < len(r2) else -1
            if a != b:
                return False
            if a >= 0 and q < p and q + a > p:
                return False
    return True


def written_params(p):
    """the modifiers of one rule in the order render_grammar writes them (request for Peg.ruleMods)"""
    items = []
    if "skipws" in p:
        items.append({"flag": "skipws" if p["skipws"] else "noskipws"})
    if "ws" in p:
        items.insert(0 if p.get("ws_first") else len(items), {"ws": p["ws"]})
    return items


# directory operations on the disk of this VM take ~40 ms each: the grammar files go to the RAM disk when there is one
TMP_BASE = "/dev/shm" if os.path.isdir("/dev/shm") and os.access("/dev/shm", os.W_OK) else None


def write_files(case, root):
    """the grammar files of a case under `root`; returns the path of the main file"""
    for name, text in (case.get("imports") or {}).items():
        path = os.path.join(root, *name.split(".")) + ".tx"
        os.makedirs(os.path.dirname(path), exist_ok=True)
        with open(path, "w", newline="") as f:
            f.write(text)
    main = os.path.join(root, "main.tx")
    with open(main, "w", newline="") as f:
        f.write(case["grammar"])
    return main


def build(case, cfg=None):
    """the meta-model of the case: from a string, or from files in a temporary directory (removed afterwards: the
    files are read while the meta-model is built)"""
    use_repo()
    from textx import metamodel_from_file, metamodel_from_str

    cfg = case["cfg"] if cfg is None else cfg
    if not (case.get("from_file") or case.get("imports")):
        return metamodel_from_str(case["grammar"], **cfg)
    root = tempfile.mkdtemp(prefix="c22-", dir=TMP_BASE)
    try:
        return metamodel_from_file(write_files(case, root), **cfg)
    finally:
        shutil.rmtree(root, ignore_errors=True)


def run_step(case, step):
    """one meta-model of the history: built, one text loaded, forgotten; whatever it raises is its own business"""
    use_repo()
    from textx import metamodel_from_str

    def go():
        mm = build(case, step["cfg"]) if step.get("same") else metamodel_from_str(step["grammar"], **step["cfg"])
        mm.model_from_str(step.get("text", ""))

    try:
        with_timeout(lambda: outcome(go), 5)
    except Exception:
        pass


def comment_owner(mm, parser):
    """name of the grammar file (namespace) whose Comment rule is the parser's comments model; None: no comments
    model; "?": a comments model that is not the Comment rule of any file"""
    cm = parser.comments_model
    if cm is None:
        return None
    for ns_name, ns in mm.namespaces.items():
        cls = ns.get("Comment")
        if cls is not None and getattr(cls, "_tx_peg_rule", None) is cm:
            return "main" if ns_name is None else ns_name
    return "?"


def eol_in_grammar(case):
    return "eolterm" in case["grammar"] or any("eolterm" in t for t in (case.get("imports") or {}).values())


class Prop(Check):
    ID = "C22"
    LEAN_MODULE = "TextxVerif.Props.C22"
    THEOREMS = [
        "Peg.C22_skip_maximal", "Peg.C22_skip_unique", "Peg.C22_skip_never_outside", "Peg.C22_skip_idempotent",
        "Peg.C22_token_shift", "Peg.C22_partial_ws", "Peg.C22_partial_ws_accepts",
        "Peg.C22_identity_cache_invariant", "Peg.C22_only_active_set",
        "Peg.C22_full_false_active_set", "Peg.C22_full_false_gap_extension",
        "Peg.C22_ws_param_denotes", "Peg.C22_ws_param_skip", "Peg.C22_ws_param_literal",
        "Peg.C22_tree_terminals_are_tokens", "Peg.C22_no_terminal_overlaps_gap", "Peg.C22_slice_extendGap",
        "Peg.C22_term_value_ext", "Peg.C22_build_shift", "Peg.C22_model_unchanged", "Peg.C22_ws_param_tx",
        "Peg.C22_comment_own_first", "Peg.C22_comment_import_order", "Peg.C22_comment_none",
        "Peg.C22_parser_cfg_history", "Peg.C22_default_cfg_no_memo",
    ]
    DRIVER = "Drivers/PegWs.lean"
    QUICK_CASES = 240
    THOROUGH_CASES = 6000
    CASE_TIMEOUT = 30
    RULE = ("generated grammars (common/abstract/match rules, all operators, separators, eolterm, predicates, suppression, "
            "noskipws/skipws/ws= rule modifiers, Comment rule in ~60%; 22%: two alternatives with different whitespace modes "
            "sharing a non-terminal sub-rule; 30%: rules spread over a main file + 1-2 imported files (packages, import of an "
            "import, import order), each file with its own Comment rule (regex / alias / choice of two; distinct syntaxes) or "
            "none, 12% of the single grammars loaded from a file; 25% (75% with a mode clash): history of 1-2 meta-models "
            "created before in the same process (same grammar or another one; memoization, skipws, ws, ignore_case, autokwd "
            "options), 10%: a meta-model created afterwards; process state reset before every case; ws= sets: random subsets of blank/tab/CR/LF (+ rarely "
            "an unusual character, the empty set), written with escape sequences / literally / mixed, any order, repeated "
            "characters, single or double quotes, before or after the skipws flag) x metamodel ws/skipws options (fixed list "
            "+ random sets) x 4 texts (1-2 laid out mode-aware: separators from the set in force at each token; 1-2 with "
            "blank / random layout; 1 mutated); for the first 2 accepted texts: alphabet sweep (every character of every "
            "non-default set in force inserted at a site of that mode, 2 standard whitespace characters outside it, 1 in "
            "front of a noskipws terminal) + up to 7 variants: whitespace of the documented active set and "
            "Comment text inserted at gap-extension sites (gap start / end / interior, input start / end), text matched only by "
            "the Comment rule of another file of the grammar (must not be skipped), whitespace "
            "outside the active set, and insertions at glued boundaries (mirror only); non-trivial = at least one "
            "in-hypothesis gap-extension variant of an accepted text was loaded and compared")
    MODELLED = ("hand-modelled: Arpeggio's interpreter incl. whitespace skipping, _parse_comments, comment_positions cache, "
                "ws/skipws/eolterm contexts (Peg/Arp.lean, dependency mirrored statement by statement); tie X: mirror run on "
                "the dumped real parser model, original and every variant, tree / failure position vs the real parser; "
                "the theorem's side conditions evaluated in Lean vs in the harness; token matching (str compare, re.match) "
                "is an input table; textx/lang.py visit_rule_param / visit_rule_params (skipws / noskipws / ws= -> mode of the "
                "rule) hand-modelled in Peg/WsParam.lean, tie X: modifiers as written -> Peg.ruleMods vs skipws / ws of the "
                "compiled rule node, every rule with modifiers; Comment wiring (visit_textx_model + TextXMetaModel.__getitem__: current "
                "file, base types, imported files in import order) and the parser options taken from the meta-model across a "
                "history (language_from_str, textX_parsers cache) hand-modelled in Peg/Setup.lean, tie X: grammar files as "
                "written -> Peg.commentOwner vs the file whose Comment rule is the parser's comments model, configurations of "
                "the history -> Peg.parserCfgAfter vs skipws / ws / memoization of the parser, every case; the rest of lang.py "
                "(promotion / wrapping) is exercised through the compiled parser model and the documented-mode oracle, not modelled")
    ASSUMPTIONS = [
        "token tables: the mirror takes re.match / string comparison results as input (LexicalGrammar = tokCompatB on them)",
        "C22_partial_ws covers memoization off and parser models all of whose modes skip the inserted characters; "
        "comment-text insertion (C22_partial_comment) is checked by the harness only",
        "documented mode of a terminal = metamodel skipws/ws overridden by the modifiers of the rules on its parse-tree "
        "path; eolterm's removal of end-of-line characters is not reconstructed (sentence-2 oracle allows them)",
        "the grammar's Comment rule = the rule found by the documented search order (current file, then imported files in "
        "the order of import; files imported by an imported file only are not searched); in grammar files a carriage "
        "return of a ws value is written as \\r (text-mode reading translates a literal one)",
        "histories: debug stays off (it writes dot files); the meta-model under test is never created with "
        "memoization=True (Arpeggio's memo tables ignore the whitespace mode: C19's known finding "
        "C19-memo-key-ignores-ws-context)",
        "documented set of ws='...' = the characters between the quotes with \\n \\r \\t decoded (own decoder); "
        "C22_ws_param_denotes assumes no literal backslash other than in these three escape sequences",
    ]

    # ---- generation ------------------------------------------------------------------------------
    def gen(self, rng, n, tier, focus=False):
        for i in range(n):
            r = rng.fork(i)
            gg = G.GrammarGen(r, links=False, comment_p=0.45, suppress=r.chance(0.3))
            g = gg.grammar()
            cfg = r.choice(CFGS)
            rw = r.fork("ws")
            respell(g, rw)
            if rw.chance(0.15):
                cfg = {"ws": "".join(ws_chars(rw))}
            # structure of the whole set-up (own random stream): a sub-rule reached under two whitespace modes, the grammar spread over imported files with Comment
            # rules of their own, meta-models created before / after the one under test in the same process
            rs = r.fork("setup")
            clash = rs.chance(0.6 if focus else 0.22) and add_clash(g, gg.kinds, rs)
            lay = layout_files(g, rs, focus=focus and rs.chance(0.5))
            g["comment"] = lay["comment_res"][0] if lay["comment_res"] else None
            g["comment_alts"] = lay["comment_res"] if len(lay["comment_res"]) > 1 else None
            params = {rl["name"]: rl["params"] for rl in g["rules"] if rl.get("params")}
            # texts whose layout follows the mode in force at every token (otherwise grammars whose sets lack the
            # blank have hardly any accepted text with a non-empty gap), then blank / random layouts and a mutation
            aware = mode_texts(g, cfg, rw, 2 if (params or cfg) else 1)
            texts = aware + G.sentences(g, r, 3 - len(aware), 1)
            case = {"grammar": lay["grammar"], "cfg": cfg, "texts": texts, "params": params,
                    "comment": lay["comment"], "vseed": r.next() % (1 << 30)}
            if lay["comment"]:
                case["comment_samples"] = lay["comment_samples"]
            if lay["imports"] or lay["from_file"]:
                case.update(imports=lay["imports"], from_file=True)
            case["files"], case["comment_owner"], case["foreign"] = lay["files"], lay["comment_owner"], lay["foreign"]
            # a parser that memoizes reuses what it parsed under the other mode: histories with memoization=True
            # go preferably with the grammars that can tell
            if rs.chance(0.75 if (clash or focus) else 0.25):
                case["history"] = gen_steps(rs, rs.randint(1, 2), texts, memo_p=0.65 if clash else 0.4)
            if rs.chance(0.1):
                case["later"] = gen_steps(rs, 1, texts)
            yield case

    # ---- implementation --------------------------------------------------------------------------
    def variants(self, case, text, gaps, log, rng, comment_re):
        """candidate insertions [(p, ins, kind)]; kind: 'ws' | 'comment' | 'outside' | 'glued'"""
        n = len(text)
        scans = [(q, r, e, m) for (q, r, e, m, inc, _w) in log if not inc]
        cspans = [(r, e) for (_q, r, e, _m, inc, _w) in log if inc and e is not None and e > r]
        has_eol = eol_in_grammar(case)
        out = []
        sites = []
        for gp in gaps:
            a, b = gp["a"], gp["b"]
            if a == b and not (a == 0 or b == n):
                continue
            ps = {a, b}
            if b - a >= 2:
                ps.add(a + 1 + rng.below(b - a - 1))
            for p in sorted(ps):
                if any(s < p < e for (s, e) in cspans):
                    continue
                sites.append((p, gp))
        rng_sites = rng.shuffle(sites)
        by_mode = {}
        for (p, gp) in rng_sites:
            skip_t, ws_t = gp["mode"]
            crossing = [(q, r, e, m) for (q, r, e, m) in scans if q <= p <= r]
            if not crossing or not skip_t:
                continue
            # the accepting scan of the terminal behind the gap; every other scan that crossed the site
            # (failed alternatives, predicates, re-parses under another modifier) must skip the insertion too.
            # A scan in the very same parser mode as the accepting one skips whatever the accepting one skips.
            own = {m for (q, r, e, m) in crossing if (q, r, e) == (gp["a"], gp["b"], gp["e"])}
            own_mode = next(iter(own)) if len(own) == 1 else None
            others = [m for (q, r, e, m) in crossing if m != own_mode]
            if any(not m[0] for m in others):
                continue  # a noskipws scan crossed the site: no character is skippable for it
            cand = set(ws_t)
            for m in others:
                cand &= set(m[1])
            if has_eol and own_mode is not None:
                cand &= set(own_mode[1])  # eolterm scopes are not reconstructed from the tree
            cand = sorted(cand)
            by_mode.setdefault((skip_t, ws_t), []).append((p, cand))
            if cand:
                c1 = rng.choice(cand)
                out.append((p, c1 if rng.chance(0.6) else c1 + rng.choice(cand), "ws"))
            if comment_re is not None and cand:
                smp = rng.choice(case.get("comment_samples") or G.COMMENT_SAMPLES[case["comment"]])
                ins = self.comment_insertion(smp, cand, comment_re, text, p)
                if ins is not None:
                    out.append((p, ins, "comment"))
            # text matched by the Comment rule of another grammar file only (a file that is imported, but whose
            # Comment rule is not the one found first): not a comment of this language (judged by sentence 2)
            for rx in case.get("foreign") or []:
                if cand and rng.chance(0.5):
                    fre = re.compile(rx, re.MULTILINE)
                    ins = self.comment_insertion(rng.choice(G.COMMENT_SAMPLES[rx]), cand, fre, text, p)
                    if ins is not None and (comment_re is None or not comment_re.match(text[:p] + ins + text[p:], p)):
                        out.append((p, ins, "foreign"))
            outside = [c for c in DEFAULT_WS if c not in ws_t]
            if outside and rng.chance(0.35):
                out.append((p, rng.choice(outside), "outside"))
        # alphabet sweep: under every mode that a `ws` modifier / the metamodel's `ws` puts in force, *every*
        # character of the set is inserted somewhere (sentence 1) and every other standard whitespace character
        # too (sentence 2: it must not be skipped)
        sweep_in, sweep_out = [], []
        for (skip_t, ws_t), ss in sorted(by_mode.items()):
            if (skip_t, ws_t) == DEFAULT_MODE:
                continue
            for c in sorted(set(ws_t)):
                ok = [p for (p, cand) in ss if c in cand]
                if ok:
                    sweep_in.append((rng.choice(ok), c, "ws"))
            for c in rng.sample([c for c in DEFAULT_WS if c not in ws_t], 2):
                sweep_out.append((rng.choice(ss)[0], c, "outside"))
        # under noskipws nothing is skipped: any standard whitespace character in front of a terminal of such a
        # rule (glued boundaries included) must not be skipped (judged by sentence 2 only)
        nos = [gp["b"] for gp in gaps if not gp["mode"][0] and 0 < gp["b"] < n]
        if nos:
            sweep_out.append((rng.choice(nos), rng.choice(DEFAULT_WS), "outside"))
        sweep = rng.shuffle(sweep_in)[:MAX_SWEEP] + rng.shuffle(sweep_out)[:2]
        # glued boundaries / noskipws gaps: outside the hypothesis, mirror correspondence only
        glued = [gp["a"] for gp in gaps if gp["a"] == gp["b"] and 0 < gp["a"] < n]
        if glued and rng.chance(0.5):
            out.append((rng.choice(glued), rng.choice([" ", "\n"]), "glued"))
        noskip = [gp for gp in gaps if not gp["mode"][0] and gp["a"] < gp["b"]]
        if noskip and rng.chance(0.5):
            gp = rng.choice(noskip)
            out.append((gp["b"], " ", "outside"))
        seen, head, rest = set(), [], []
        for lst, dst in ((sweep, head), (out, rest)):
            for v in lst:
                if (v[0], v[1]) not in seen:
                    seen.add((v[0], v[1]))
                    dst.append(v)
        # the sweep first, then a mix of the random ones (a comment, a whitespace string, something outside, …)
        kinds = ["comment", "ws", "foreign", "outside", "glued", "comment", "ws", "ws"]
        keep = []
        for k in kinds:
            v = next((v for v in rest if v[2] == k and v not in keep), None)
            if v is not None:
                keep.append(v)
        return head + keep[:max(4 if case.get("foreign") else 3, MAX_VARIANTS - len(head))]

    @staticmethod
    def comment_insertion(smp, cand, cre, text, p):
        """the sample comment as it can be inserted at p: its line end / trailing blank must be skippable there
        (a line comment needs a line end behind it), and `cre` must match exactly the comment at p"""
        body = smp.rstrip("\n ")
        tail = smp[len(body):]
        if tail and not all(ch in cand for ch in tail):
            return None
        if not tail:
            m = cre.match(body + "zz")
            if m and m.end() > len(body):     # runs to the end of the line
                if "\n" not in cand:
                    return None
                tail = "\n"
        m = cre.match(text[:p] + body + tail + text[p:], p)
        return body + tail if m and m.end() - p == len(body) else None

    def impl(self, case):
        use_repo()
        reset_process_state()
        for h in case.get("history") or []:
            run_step(case, h)
        o = outcome(lambda: build(case))
        for h in case.get("later") or []:
            run_step(case, h)
        if "ok" not in o:
            return {"grammar_error": o}
        mm = o["ok"]
        try:
            p0 = mm._parser_blueprint.clone()
            nodes, top, comments, objs = peg.dump_parser(p0)
        except peg.Unsupported as e:
            return {"unsupported": str(e)}
        params = case.get("params", {})
        cfg = case["cfg"]
        comment_re = re.compile(case["comment"], re.MULTILINE) if case.get("comment") else None
        rng = Rng(case.get("vseed", 0))
        res = {"nodes": nodes, "top": top, "comments": comments, "skipws": bool(p0.skipws), "ws": p0.ws,
               "memo": bool(p0.memoization), "comment_owner": comment_owner(mm, p0), "texts": []}
        expanded = 0
        for t in case["texts"]:
            d = {"text": t, "variants": []}

            def one(text):
                load, parser, log = run_text(mm, text)
                info = {"load": load}
                if "ok" in load and parser is not None and parser.parse_tree is not None:
                    gaps, bad = analyse(text, parser, log, params, cfg, comment_re)
                    info["gaps"], info["bad"] = gaps, bad
                    info["log"] = log
                return info

            info = patient(lambda: one(t), 5)
            if "load" not in info:
                d["load"] = info
                res["texts"].append(d)
                continue
            d["load"], d["bad"] = info["load"], info.get("bad")
            d["parse"] = with_timeout(lambda: peg.real_parse(mm._parser_blueprint.clone(), t, objs))
            d["toks"] = peg.tok_tables(nodes, objs, t)
            if d["bad"]:
                d["bad_ctx"] = self.bad_under_ctx(mm, t, params, cfg, comment_re)
            explicit = case.get("variants", {}).get(t)
            if "gaps" in info and (expanded < 2 or explicit):
                expanded += 1
                vs = [tuple(v) for v in explicit] if explicit else \
                    self.variants(case, t, info["gaps"], info["log"], rng.fork(t), comment_re)
                for (p, ins, kind) in vs:
                    t2 = t[:p] + ins + t[p:]
                    v = {"p": p, "ins": ins, "kind": kind, "text": t2}
                    i2 = patient(lambda: one(t2), 5)
                    v["load"] = i2.get("load", i2)
                    v["bad"] = i2.get("bad")
                    v["parse"] = with_timeout(lambda: peg.real_parse(mm._parser_blueprint.clone(), t2, objs))
                    v["toks"] = peg.tok_tables(nodes, objs, t2)
                    v["compat"] = tok_compat(d["toks"], v["toks"], p, len(ins), len(t))
                    v["hyp"] = kind in ("ws", "comment") and v["compat"]
                    if v["bad"]:
                        v["bad_ctx"] = self.bad_under_ctx(mm, t2, params, cfg, comment_re)
                    if v["hyp"] and v["load"] != d["load"]:
                        l3, _p, _l = run_text(mm, t2, ctx=True)
                        l0, _p, _l = run_text(mm, t, ctx=True)
                        v["ctx_same"] = (l3 == l0)
                    d["variants"].append(v)
            res["texts"].append(d)
        return res

    @staticmethod
    def bad_under_ctx(mm, text, params, cfg, comment_re):
        """sentence-2 verdict when the comment cache key is extended by the whitespace context"""
        load, parser, log = run_text(mm, text, ctx=True)
        if "ok" not in load or parser is None or parser.parse_tree is None:
            return None
        return analyse(text, parser, log, params, cfg, comment_re)[1]

    # ---- Lean side -------------------------------------------------------------------------------
    def model_req(self, case, obs):
        if "texts" not in obs:
            return None
        reqs = []
        for d in obs["texts"]:
            if "toks" not in d:
                continue
            longest = max([len(d["text"])] + [len(v["text"]) for v in d["variants"]])
            fuel = min(20000, 60 + 8 * (longest + 2) * (len(obs["nodes"]) + 2))
            reqs.append({"op": "gapext", "nodes": obs["nodes"], "top": obs["top"], "comments": obs["comments"],
                         "memo": obs["memo"], "skipws": obs["skipws"], "ws": obs["ws"], "input": d["text"],
                         "toks": d["toks"], "fuel": fuel,
                         "exts": [{"p": v["p"], "ins": v["ins"], "toks": v["toks"]} for v in d["variants"]]})
        req = {"op": "multi", "reqs": reqs, "mods": [written_params(p) for p in case.get("params", {}).values()]}
        # set-up of the parser (Peg/Setup.lean): the grammar files as written -> the file whose Comment rule is in
        # force; the configurations of the meta-models created before -> skipws / ws / memoization of this parser
        if case.get("files"):
            req["files"] = case["files"]
        keys = ("skipws", "ws", "memoization", "debug")
        req["cfg"] = {k: v for k, v in case["cfg"].items() if k in keys}
        req["hist"] = [{k: v for k, v in h["cfg"].items() if k in keys} for h in case.get("history") or []]
        return req

    @staticmethod
    def _same(real, model):
        if not isinstance(real, dict):
            return False
        if "ok" in real:
            return model.get("ok") == real["ok"]
        if "nomatch" in real:
            return model.get("nomatch") == real["nomatch"]
        if real.get("other") in ("RecursionError", "Timeout", "MemoryError"):
            return True  # resource limits of the harness run are not observations of the parser's result
        return False

    def compare(self, case, obs, out):
        if "outs" not in out or "mods" not in out:
            return f"model rejected the request: {str(out)[:200]}"
        # the rule modifiers as written vs the mode the compiled rule carries (Peg.ruleMods = visit_rule_param(s))
        names = list(case.get("params", {}))
        if len(out["mods"]) != len(names):
            return "answer count mismatch (mods)"
        for name, m in zip(names, out["mods"]):
            for i, nd in enumerate(obs["nodes"]):
                if nd.get("root") and nd["rule"] == name and i != obs["top"] and nd["k"] in ("seq", "choice"):
                    # the set is only ever used through `in`: its order / repetitions are not observable
                    def as_set(w):
                        return None if w is None else sorted(set(w))
                    if m.get("rejected") or (nd.get("skipws"), as_set(nd.get("ws"))) != (m["skipws"], as_set(m["ws"])):
                        return (f"rule {name}: modifiers {written_params(case['params'][name])} compiled to "
                                f"skipws={nd.get('skipws')}, ws={nd.get('ws')!r} but Peg.ruleMods gives {m}")
        # set-up: Comment rule in force, parser configuration after the history
        if "files" in case:
            if "comment_owner" not in out:
                return "model gave no comment_owner"
            if out["comment_owner"] != obs.get("comment_owner"):
                return (f"comments model of the parser is the Comment rule of file {obs.get('comment_owner')!r} but "
                        f"Peg.commentOwner gives {out['comment_owner']!r} for {case['files']}")
        pc = out.get("pcfg")
        if pc is None:
            return "model gave no parser configuration"
        if (pc["skipws"], pc["ws"], pc["memo"]) != (obs["skipws"], obs["ws"], obs["memo"]):
            return (f"parser of a meta-model configured with {case['cfg']} after the history "
                    f"{[h['cfg'] for h in case.get('history') or []]} has skipws={obs['skipws']}, ws={obs['ws']!r}, "
                    f"memoization={obs['memo']} but Peg.parserCfgAfter gives {pc}")
        ds = [d for d in obs["texts"] if "toks" in d]
        if len(ds) != len(out["outs"]):
            return "answer count mismatch"
        for d, o in zip(ds, out["outs"]):
            if "orig" not in o:
                return f"model rejected the request: {str(o)[:200]}"
            if not self._same(d["parse"], o["orig"]):
                return f"text {d['text']!r}: real {str(d['parse'])[:300]} vs mirror {str(o['orig'])[:300]}"
            for v, e in zip(d["variants"], o["exts"]):
                if e["input"] != v["text"]:
                    return f"extendGap differs from the harness insertion: {e['input']!r} vs {v['text']!r}"
                if not self._same(v["parse"], e["out"]):
                    return (f"variant {v['text']!r} (of {d['text']!r}): real {str(v['parse'])[:300]} vs mirror "
                            f"{str(e['out'])[:300]}")
                if e["rows"] and e["compat"] != v["compat"]:
                    return f"variant {v['text']!r}: tokCompatB={e['compat']} but harness tok_compat={v['compat']}"
                if e["ok"] and not e["rel"]:
                    return f"variant {v['text']!r}: side conditions of C22_partial_ws hold but the mirror outcomes are not related"
        return None

    # ---- direct oracle ---------------------------------------------------------------------------
    def oracle(self, case, obs):
        if "texts" not in obs:
            return None
        for d in obs["texts"]:
            if d.get("bad"):
                b = d["bad"]
                return (f"text {d['text']!r} accepted although {b['gap']!r} in front of the terminal at {b['b']} is not "
                        f"skippable under the mode in force there (skipws={b['mode'][0]}, ws={b['mode'][1]!r})")
            for v in d["variants"]:
                if v.get("bad"):
                    b = v["bad"]
                    return (f"variant {v['text']!r} accepted although {b['gap']!r} in front of the terminal at {b['b']} is "
                            f"not skippable under the mode in force there (skipws={b['mode'][0]}, ws={b['mode'][1]!r})")
                if v["hyp"] and v["load"] != d["load"]:
                    return (f"inserting {v['ins']!r} ({v['kind']}) at {v['p']} of {d['text']!r}: "
                            f"{str(d['load'])[:160]} became {str(v['load'])[:160]}")
        return None

    def classify(self, case, obs, failure):
        if "texts" not in obs:
            return None
        bad = False
        for d in obs["texts"]:
            if d.get("bad"):
                bad = True
                if d.get("bad_ctx") is not None:
                    return None
            for v in d["variants"]:
                if v.get("bad"):
                    bad = True
                    if v.get("bad_ctx") is not None:
                        return None
                if v["hyp"] and v["load"] != d["load"]:
                    bad = True
                    if not v.get("ctx_same"):
                        return None
        if bad and obs.get("comments") is not None:
            return KF_ID
        if not bad:
            # correspondence disagreement only: never classified
            return None
        return None

    def nontrivial(self, case, obs):
        return any(v["hyp"] and "ok" in d["load"] for d in obs.get("texts", []) for v in d["variants"])

    def sample_view(self, case, obs):
        v = {"grammar": case["grammar"], "cfg": case["cfg"]}
        for k in ("imports", "history", "later"):
            if case.get(k):
                v[k] = case[k]
        if "texts" in obs:
            v["texts"] = [{"text": d["text"], "load": str(d.get("load"))[:100],
                           "variants": [[x["p"], x["ins"], x["kind"], x["hyp"], x["load"] == d["load"]] for x in d["variants"]]}
                          for d in obs["texts"]]
        else:
            v["obs"] = obs
        return v

    def extra_evidence(self, cases, obs, outs):
        ts = [d for o in obs for d in o.get("texts", [])]
        vs = [v for d in ts for v in d["variants"]]
        kinds = {}
        for v in vs:
            kinds[v["kind"]] = kinds.get(v["kind"], 0) + 1
        lean_ok = sum(1 for o in outs if o and "outs" in o for x in o["outs"] for e in x.get("exts", []) if e.get("ok"))
        return {"texts": len(ts), "accepted_texts": sum(1 for d in ts if "ok" in d.get("load", {})),
                "variants": len(vs), "variants_by_kind": kinds,
                "variants_in_hypothesis": sum(1 for v in vs if v["hyp"]),
                "variants_not_lexical": sum(1 for v in vs if not v["compat"]),
                "variants_inside_C22_partial_ws": lean_ok,
                "grammar_errors": sum(1 for o in obs if "grammar_error" in o),
                "grammars_with_comment": sum(1 for c in cases if c.get("comment")),
                "grammars_with_imports": sum(1 for c in cases if c.get("imports")),
                "grammars_from_file": sum(1 for c in cases if c.get("from_file")),
                "grammars_with_foreign_comment_rule": sum(1 for c in cases if c.get("foreign")),
                "comment_in_force_from_import": sum(1 for c in cases if c.get("comment_owner") not in (None, "main")),
                "cases_with_history": sum(1 for c in cases if c.get("history")),
                "cases_with_memoizing_history": sum(1 for c in cases if any(h["cfg"].get("memoization")
                                                                            for h in c.get("history") or [])),
                "cases_with_later_metamodels": sum(1 for c in cases if c.get("later")),
                "grammars_with_mode_clash": sum(1 for c in cases if "EntryC" in c["grammar"] or
                                                any("EntryC" in t for t in (c.get("imports") or {}).values())),
                "grammars_with_modifiers": sum(1 for c in cases if c.get("params")),
                "ws_modifiers": sum(1 for c in cases for p in c.get("params", {}).values() if "ws" in p),
                "ws_modifiers_by_escape": {e: sum(1 for c in cases for p in c.get("params", {}).values()
                                                  if e in p.get("ws", "")) for e in ("\\n", "\\r", "\\t")},
                "ws_modifiers_mixed_spelling": sum(1 for c in cases for p in c.get("params", {}).values()
                                                   if "\\" in p.get("ws", "") and
                                                   any(ch not in " " for ch in re.sub(r"\\[nrt]", "", p["ws"]))),
                "rule_modifier_sets_compared_with_Peg_ruleMods": sum(len(o.get("mods", [])) for o in outs if o)}

    def shrink(self, case):
        if len(case["texts"]) > 1:
            for t in case["texts"]:
                yield dict(case, texts=[t])

    def extra_search(self, rng, tier, broken):
        # first the set-ups that depend on more than one grammar / meta-model (imports with several Comment rules,
        # mode clashes after a history), then the ordinary mix
        n = 150 if tier == "quick" else 1500
        for c in self.gen(rng.fork("focus"), n, tier, focus=True):
            yield c
        for c in self.gen(rng, n, tier):
            yield c
