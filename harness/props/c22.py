"""C22 — whitespace and comments between tokens do not change the model.

Implementation side.  Every generated grammar (with / without a Comment rule, `noskipws` / `skipws` / `ws=`
rule modifiers, metamodel `skipws` / `ws`) is compiled by the real textX; every text is loaded with
`model_from_str`.  The whitespace sets of `ws=` modifiers and of the metamodel are structured random sets over
blank / tab / carriage return / new-line (+ now and then an unusual character), written as escape sequences,
literally or mixed, in any order, in single or double quotes; part of the texts is laid out *mode-aware* (the
separator in front of a token is taken from the set in force there), so that rules whose set lacks the blank
have accepted texts with non-empty gaps.  For an accepted text the token boundaries are taken from the real parse tree and the
whitespace context of every `Match.parse` call of that run is recorded (a recording wrapper around
`arpeggio.Match.parse`, harness process only).  Then

* sentence 1 of the property (direct oracle): at every *gap-extension site* (DESIGN.md C22 Reading: a
  non-empty gap the accepting parse skipped in one go, or the very start / end of the input; not inside a
  comment) whitespace characters of the documented active set, and text matched by the Comment rule, are
  inserted; acceptance and the model dump must not change.  A site / string pair is inside the hypothesis
  only if no terminal consumes or inspects the gap material (`tok_compat`, the `LexicalGrammar` condition,
  decided on the real `re` / string matchers) and every *other* scan that crossed the site (failed
  alternatives, predicates — they may run under another rule's modifier) also skips the inserted characters.
  *Alphabet sweep*: under every mode put in force by a `ws=` modifier / the metamodel's `ws`, every character
  of the set is inserted at some site of that mode (and two standard whitespace characters outside it);
* sentence 2 (direct oracle): in every accepted parse — originals and variants, including variants that
  insert whitespace *outside* the active set — the material in front of every terminal must consist of
  characters of the set that the grammar's rule modifiers put in force there (none under `noskipws`) and of
  Comment matches.  The mode in force is computed from the grammar's modifiers along the parse-tree path
  (documented scoping), not from the parser's state;
* correspondence (tie X): the Lean mirror `Peg.Arp` is run (driver `Drivers/PegWs.lean`) on the dumped real
  parser model for the original and for every variant; tree / failure position must equal the real
  parser's; the Lean evaluation of the theorem's side conditions (`tokCompatB`, `modesSkipB`) must equal the
  harness's, and wherever `gapExtOkB` holds the mirror's outcomes must be related as `C22_partial_ws` says;
  the rule modifiers as written are sent to `Peg.ruleMods` (mirror of `visit_rule_param` / `visit_rule_params`,
  `Peg/WsParam.lean`): skipws / ws of the compiled rule node must equal the model's.

Known finding (Arpeggio, dependency): `comment_positions` is keyed by position only.  Classifier: the
failure disappears when the real parser is re-run with the cache key extended by (skipws, ws).
"""
import re

from harness.core import Check, Rng, use_repo
from harness import gen_grammar as G
from harness import peg
from harness.txutil import dump_model, outcome, with_timeout

DEFAULT_WS = "\t\n\r "
DEFAULT_MODE = (True, DEFAULT_WS)
WS_STD = [" ", "\t", "\r", "\n"]
WS_EXOTIC = ["~", "\x0b", "\xa0"]   # not whitespace for Arpeggio's default, not part of any generated token
ESC_OF = {"\n": "\\n", "\r": "\\r", "\t": "\\t"}
ESC_CHARS = {"n": "\n", "r": "\r", "t": "\t"}
CFGS = [{}, {}, {}, {"ws": " "}, {"ws": " \t\n"}, {"skipws": False}, {"ws": "\n "}]
MAX_VARIANTS = 7
MAX_SWEEP = 5
KF_ID = "C22-comment-cache-ignores-ws-context"

# ---------------------------------------------------------------------------------------------------
# recording wrapper around Match.parse (harness process only; calls the original code)
# ---------------------------------------------------------------------------------------------------
_REC = {"log": None, "parser": None, "ctx": False}


class CtxDict(dict):
    """comment_positions keyed by (position, skipws, ws) instead of position only (classifier)."""

    def __init__(self, parser):
        super().__init__()
        self.parser = parser

    def _k(self, pos):
        return (pos, bool(self.parser.skipws), self.parser.ws)

    def __contains__(self, pos):
        return dict.__contains__(self, self._k(pos))

    def __getitem__(self, pos):
        return dict.__getitem__(self, self._k(pos))

    def __setitem__(self, pos, v):
        dict.__setitem__(self, self._k(pos), v)


def install_hooks():
    import arpeggio as A

    if getattr(A.Match, "_c22_hooked", False):
        return
    orig_parse = A.Match.parse

    def parse(self, parser):
        log = _REC["log"]
        if log is None:
            return orig_parse(self, parser)
        if _REC["parser"] is not parser:
            _REC["parser"] = parser
        if _REC["ctx"] and type(parser.comment_positions) is dict:
            parser.comment_positions = CtxDict(parser)
        q = parser.position
        who = "EOF" if isinstance(self, A.EndOfFile) else id(self)
        mode = (bool(parser.skipws), parser.ws)
        inc = bool(parser.in_parse_comments)
        parser._c22_r = None
        try:
            res = orig_parse(self, parser)
        except A.NoMatch:
            r = parser._c22_r
            log.append((q, parser.position if r is None else r, None, mode, inc, who))
            raise
        r = parser._c22_r
        log.append((q, parser.position if r is None else r, parser.position, mode, inc, who))
        return res

    A.Match.parse = parse
    for cls in (A.StrMatch, A.RegExMatch, A.EndOfFile):
        def mk(orig):
            def _parse(self, parser):
                parser._c22_r = parser.position
                return orig(self, parser)
            return _parse
        cls._parse = mk(cls._parse)
    A.Match._c22_hooked = True


def patient(fn, secs):
    """`with_timeout`, but a wall-clock limit that fires on a loaded machine is no evidence: a Timeout is
    confirmed once with a generous limit before it becomes an observation"""
    r = with_timeout(fn, secs)
    if isinstance(r, dict) and r.get("other") == "Timeout":
        r = with_timeout(fn, 20)
    return r


def run_text(mm, text, ctx=False):
    """mm.model_from_str(text) with recording.  Returns (load outcome, parser or None, log)."""
    install_hooks()
    _REC["log"], _REC["parser"], _REC["ctx"] = [], None, ctx
    try:
        o = outcome(lambda: dump_model(mm.model_from_str(text)))
        if "err" in o:
            e = o["err"]
            o = {"err": [e["cls"], e["line"], e["col"]]}
        return o, _REC["parser"], _REC["log"]
    finally:
        _REC["log"], _REC["parser"], _REC["ctx"] = None, None, False


# ---------------------------------------------------------------------------------------------------
# documented whitespace modes
# ---------------------------------------------------------------------------------------------------
def doc_ws(value):
    """the set a `ws='…'` modifier denotes: the characters written between the quotes, `\\n` `\\r` `\\t`
    standing for new-line, carriage return and tab (grammar.md: `ws='\\n'` = new-line only); own decoder,
    independent of textX's"""
    out, i = "", 0
    while i < len(value):
        if value[i] == "\\" and i + 1 < len(value) and value[i + 1] in ESC_CHARS:
            out += ESC_CHARS[value[i + 1]]
            i += 2
        else:
            out += value[i]
            i += 1
    return out


# ---------------------------------------------------------------------------------------------------
# structured whitespace sets and the ways of writing them (the property's "active whitespace set" ranges
# over every set a grammar / a metamodel can put in force, not over the four values of the base generator)
# ---------------------------------------------------------------------------------------------------
def ws_chars(rng, allow_empty=False):
    """random whitespace set as a list of characters in written order (a character may be repeated)"""
    chars = [c for c in WS_STD if rng.chance(0.5)]
    if rng.chance(0.15):
        chars.append(rng.choice(WS_EXOTIC))
    if not chars and not (allow_empty and rng.chance(0.3)):
        chars = [rng.choice(WS_STD)]
    chars = list(rng.shuffle(chars))
    if chars and rng.chance(0.1):
        chars.append(rng.choice(chars))
    return chars


def ws_spelling(rng):
    """a whitespace set as written in a `ws='…'` modifier: new-line / carriage return / tab as escape
    sequences (the usual way), literally, or mixed; everything else literally"""
    style = rng.weighted([("esc", 6), ("lit", 2), ("mixed", 2)])
    out = ""
    for c in ws_chars(rng, allow_empty=True):
        if c in ESC_OF and (style == "esc" or (style == "mixed" and rng.chance(0.5))):
            out += ESC_OF[c]
        else:
            out += c
    return out


def respell(g, rng):
    """Replace most `ws=` values of the base generator (4 fixed values) by structured ones, give some more
    rules a `ws=` modifier, vary quote character and the order of the modifiers."""
    for rl in g["rules"]:
        p = rl["params"]
        if ("ws" in p and rng.chance(0.7)) or ("ws" not in p and rng.chance(0.12)):
            p["ws"] = ws_spelling(rng)
        if "ws" in p:
            if rng.chance(0.2):
                p["wsq"] = '"'
            if "skipws" in p and rng.chance(0.3):
                p["ws_first"] = True


def base_mode(cfg):
    return (bool(cfg.get("skipws", True)), cfg.get("ws", DEFAULT_WS) or DEFAULT_WS)


class ModeDeriver(G.Deriver):
    """Derivation that knows the whitespace mode in force at every token (documented scoping: metamodel
    setting, overridden by the modifiers of the rules entered; `eolterm` removes the end-of-line characters
    for the duration of the repetition).  Tokens are (text, (skipws, ws)) pairs."""

    def __init__(self, g, rng, cfg):
        super().__init__(g, rng)
        self.mode = base_mode(cfg)
        self.eol = False

    def _tag(self, toks):
        skip, ws = self.mode
        if self.eol:
            ws = ws.replace("\n", "").replace("\r", "")
        return [t if isinstance(t, tuple) else (t, (skip, ws)) for t in toks]

    def d(self, e, depth):
        k = e["k"]
        saved = (self.mode, self.eol)
        try:
            if k == "ref" and e["name"] in self.rules:
                p = self.rules[e["name"]].get("params") or {}
                self.mode = (p.get("skipws", self.mode[0]), doc_ws(p["ws"]) if "ws" in p else self.mode[1])
            elif k in ("rep", "asgn") and e.get("eol"):
                self.eol = True
            return self._tag(super().d(e, depth))
        finally:
            self.mode, self.eol = saved


def mode_layout(toks, rng, cfg, comment):
    """Join mode-tagged tokens with material that is skippable where it stands: characters of the set in force
    for the token behind the gap (nothing under `noskipws`), now and then a comment."""
    out = ""
    eof_mode = base_mode(cfg)
    for i, (t, (skip, ws)) in enumerate(list(toks) + [("", eof_mode)]):
        last = i == len(toks)
        sep = ""
        if skip and ws:
            c = rng.weighted([("one", 6 if i else 1), ("two", 2), ("none", 1 if i and not last else 8)])
            if c != "none":
                sep = rng.choice(ws) + (rng.choice(ws) if c == "two" else "")
        if comment and rng.chance(0.12):
            smp = rng.choice(G.COMMENT_SAMPLES[comment])
            body = smp.rstrip("\n ")
            tail = smp[len(body):]
            # the line end / blank behind the comment must be skippable itself
            if all(skip and ch in ws for ch in tail):
                sep = sep + body + tail + (rng.choice(ws) if skip and ws and rng.chance(0.3) else "")
        out += sep + t
    return out


def mode_texts(g, cfg, rng, n):
    d = ModeDeriver(g, rng, cfg)
    return [mode_layout(d.tokens(), rng, cfg, g.get("comment")) for _ in range(n)]


def terminals_with_modes(tree, params, cfg):
    """[(position, length, (skipws, ws))] of the terminals of a real parse tree, in text order; the mode is
    the documented one: metamodel setting, overridden by the modifiers of the rules on the path."""
    use_repo()
    from arpeggio import EndOfFile, NonTerminal, Terminal

    out = []

    def walk(node, mode):
        p = params.get(getattr(node, "rule_name", "") or "")
        if p:
            mode = (p.get("skipws", mode[0]), doc_ws(p["ws"]) if "ws" in p else mode[1])
        if isinstance(node, Terminal):
            who = "EOF" if isinstance(node.rule, EndOfFile) else id(node.rule)
            out.append((node.position, len(node.value), mode, who))
        elif isinstance(node, NonTerminal):
            for c in node:
                walk(c, mode)

    base = base_mode(cfg)
    # the root of the tree is textX's wrapper `<top rule> EOF` (it carries the top rule's name but not its
    # modifiers): EOF, and the whitespace in front of it, are under the metamodel's setting
    if isinstance(tree, NonTerminal):
        for c in tree:
            walk(c, base)
    else:
        walk(tree, base)
    out.sort(key=lambda t: (t[0], t[1]))
    return out


def skippable(text, a, b, mode, comment_re):
    """Is text[a:b] made of characters of the set (when skipping is on) and Comment matches only?
    (the property's own notion of what may be skipped)"""
    skip, ws = mode
    pos = a
    while pos < b:
        if skip and text[pos] in ws:
            pos += 1
            continue
        if comment_re is not None:
            m = comment_re.match(text, pos)
            if m and m.end() > pos and m.end() <= b:
                pos = m.end()
                continue
        return False
    return True


def analyse(text, parser, log, params, cfg, comment_re):
    """Token boundaries, pure gaps and sentence-2 verdict of one accepted parse."""
    terms = terminals_with_modes(parser.parse_tree, params, cfg)
    succ = {(q, r, e, who) for (q, r, e, _m, inc, who) in log if e is not None and not inc}
    gaps = []
    prev_end = 0
    bad = None
    for (pos, ln, mode, who) in terms:
        if pos < prev_end:
            continue
        # the scan of this very terminal (an empty regex match leaves no terminal behind although it skipped
        # whitespace under its own mode: the terminal behind such a gap did not skip it)
        pure = (prev_end, pos, pos + ln, who) in succ
        if pure:
            gaps.append({"a": prev_end, "b": pos, "e": pos + ln, "mode": [mode[0], mode[1]]})
            if bad is None and pos > prev_end and not skippable(text, prev_end, pos, mode, comment_re):
                bad = {"a": prev_end, "b": pos, "gap": text[prev_end:pos], "mode": [mode[0], mode[1]]}
        prev_end = pos + ln
    return gaps, bad


def tok_compat(rows, rows2, p, k, n):
    """LexicalGrammar condition on the real matchers (mirrors Peg.tokCompatB)."""
    for r1, r2 in zip(rows, rows2):
        if not r1 and not r2:
            continue
        for q in range(n + 1):
            q2 = q if q < p else q + k
            a = r1[q] if q < len(r1) else -1
            b = r2[q2] if q2 < len(r2) else -1
            if a != b:
                return False
            if a >= 0 and q < p and q + a > p:
                return False
    return True


def written_params(p):
    """the modifiers of one rule in the order render_grammar writes them (request for Peg.ruleMods)"""
    items = []
    if "skipws" in p:
        items.append({"flag": "skipws" if p["skipws"] else "noskipws"})
    if "ws" in p:
        items.insert(0 if p.get("ws_first") else len(items), {"ws": p["ws"]})
    return items


def build(case):
    use_repo()
    from textx import metamodel_from_str

    return metamodel_from_str(case["grammar"], **case["cfg"])


def eol_in_grammar(gtext):
    return "eolterm" in gtext


class Prop(Check):
    ID = "C22"
    LEAN_MODULE = "TextxVerif.Props.C22"
    THEOREMS = [
        "Peg.C22_skip_maximal", "Peg.C22_skip_unique", "Peg.C22_skip_never_outside", "Peg.C22_skip_idempotent",
        "Peg.C22_token_shift", "Peg.C22_partial_ws", "Peg.C22_partial_ws_accepts",
        "Peg.C22_identity_cache_invariant", "Peg.C22_only_active_set",
        "Peg.C22_full_false_active_set", "Peg.C22_full_false_gap_extension",
        "Peg.C22_ws_param_denotes", "Peg.C22_ws_param_skip", "Peg.C22_ws_param_literal",
        "Peg.C22_tree_terminals_are_tokens", "Peg.C22_no_terminal_overlaps_gap", "Peg.C22_slice_extendGap",
        "Peg.C22_term_value_ext", "Peg.C22_build_shift", "Peg.C22_model_unchanged", "Peg.C22_ws_param_tx",
    ]
    DRIVER = "Drivers/PegWs.lean"
    QUICK_CASES = 240
    THOROUGH_CASES = 6000
    CASE_TIMEOUT = 30
    RULE = ("generated grammars (common/abstract/match rules, all operators, separators, eolterm, predicates, suppression, "
            "noskipws/skipws/ws= rule modifiers, Comment rule in ~45%; ws= sets: random subsets of blank/tab/CR/LF (+ rarely "
            "an unusual character, the empty set), written with escape sequences / literally / mixed, any order, repeated "
            "characters, single or double quotes, before or after the skipws flag) x metamodel ws/skipws options (fixed list "
            "+ random sets) x 4 texts (1-2 laid out mode-aware: separators from the set in force at each token; 1-2 with "
            "blank / random layout; 1 mutated); for the first 2 accepted texts: alphabet sweep (every character of every "
            "non-default set in force inserted at a site of that mode, 2 standard whitespace characters outside it, 1 in "
            "front of a noskipws terminal) + up to 7 variants: whitespace of the documented active set and "
            "Comment text inserted at gap-extension sites (gap start / end / interior, input start / end), whitespace "
            "outside the active set, and insertions at glued boundaries (mirror only); non-trivial = at least one "
            "in-hypothesis gap-extension variant of an accepted text was loaded and compared")
    MODELLED = ("hand-modelled: Arpeggio's interpreter incl. whitespace skipping, _parse_comments, comment_positions cache, "
                "ws/skipws/eolterm contexts (Peg/Arp.lean, dependency mirrored statement by statement); tie X: mirror run on "
                "the dumped real parser model, original and every variant, tree / failure position vs the real parser; "
                "the theorem's side conditions evaluated in Lean vs in the harness; token matching (str compare, re.match) "
                "is an input table; textx/lang.py visit_rule_param / visit_rule_params (skipws / noskipws / ws= -> mode of the "
                "rule) hand-modelled in Peg/WsParam.lean, tie X: modifiers as written -> Peg.ruleMods vs skipws / ws of the "
                "compiled rule node, every rule with modifiers; the rest of lang.py (Comment wiring, promotion / wrapping) is "
                "exercised through the compiled parser model and the documented-mode oracle, not modelled")
    ASSUMPTIONS = [
        "token tables: the mirror takes re.match / string comparison results as input (LexicalGrammar = tokCompatB on them)",
        "C22_partial_ws covers memoization off and parser models all of whose modes skip the inserted characters; "
        "comment-text insertion (C22_partial_comment) is checked by the harness only",
        "documented mode of a terminal = metamodel skipws/ws overridden by the modifiers of the rules on its parse-tree "
        "path; eolterm's removal of end-of-line characters is not reconstructed (sentence-2 oracle allows them)",
        "documented set of ws='...' = the characters between the quotes with \\n \\r \\t decoded (own decoder); "
        "C22_ws_param_denotes assumes no literal backslash other than in these three escape sequences",
    ]

    # ---- generation ------------------------------------------------------------------------------
    def gen(self, rng, n, tier):
        for i in range(n):
            r = rng.fork(i)
            gg = G.GrammarGen(r, links=False, comment_p=0.45, suppress=r.chance(0.3))
            g = gg.grammar()
            cfg = r.choice(CFGS)
            rw = r.fork("ws")
            respell(g, rw)
            if rw.chance(0.15):
                cfg = {"ws": "".join(ws_chars(rw))}
            params = {rl["name"]: rl["params"] for rl in g["rules"] if rl.get("params")}
            # texts whose layout follows the mode in force at every token (otherwise grammars whose sets lack the
            # blank have hardly any accepted text with a non-empty gap), then blank / random layouts and a mutation
            aware = mode_texts(g, cfg, rw, 2 if (params or cfg) else 1)
            texts = aware + G.sentences(g, r, 3 - len(aware), 1)
            yield {"grammar": G.render_grammar(g), "cfg": cfg, "texts": texts, "params": params,
                   "comment": g.get("comment"), "vseed": r.next() % (1 << 30)}

    # ---- implementation --------------------------------------------------------------------------
    def variants(self, case, text, gaps, log, rng, comment_re):
        """candidate insertions [(p, ins, kind)]; kind: 'ws' | 'comment' | 'outside' | 'glued'"""
        n = len(text)
        scans = [(q, r, e, m) for (q, r, e, m, inc, _w) in log if not inc]
        cspans = [(r, e) for (_q, r, e, _m, inc, _w) in log if inc and e is not None and e > r]
        has_eol = eol_in_grammar(case["grammar"])
        out = []
        sites = []
        for gp in gaps:
            a, b = gp["a"], gp["b"]
            if a == b and not (a == 0 or b == n):
                continue
            ps = {a, b}
            if b - a >= 2:
                ps.add(a + 1 + rng.below(b - a - 1))
            for p in sorted(ps):
                if any(s < p < e for (s, e) in cspans):
                    continue
                sites.append((p, gp))
        rng_sites = rng.shuffle(sites)
        by_mode = {}
        for (p, gp) in rng_sites:
            skip_t, ws_t = gp["mode"]
            crossing = [(q, r, e, m) for (q, r, e, m) in scans if q <= p <= r]
            if not crossing or not skip_t:
                continue
            # the accepting scan of the terminal behind the gap; every other scan that crossed the site
            # (failed alternatives, predicates, re-parses under another modifier) must skip the insertion too.
            # A scan in the very same parser mode as the accepting one skips whatever the accepting one skips.
            own = {m for (q, r, e, m) in crossing if (q, r, e) == (gp["a"], gp["b"], gp["e"])}
            own_mode = next(iter(own)) if len(own) == 1 else None
            others = [m for (q, r, e, m) in crossing if m != own_mode]
            if any(not m[0] for m in others):
                continue  # a noskipws scan crossed the site: no character is skippable for it
            cand = set(ws_t)
            for m in others:
                cand &= set(m[1])
            if has_eol and own_mode is not None:
                cand &= set(own_mode[1])  # eolterm scopes are not reconstructed from the tree
            cand = sorted(cand)
            by_mode.setdefault((skip_t, ws_t), []).append((p, cand))
            if cand:
                c1 = rng.choice(cand)
                out.append((p, c1 if rng.chance(0.6) else c1 + rng.choice(cand), "ws"))
            if comment_re is not None and cand:
                smp = rng.choice(case.get("comment_samples") or G.COMMENT_SAMPLES[case["comment"]])
                body = smp.rstrip("\n ")
                tail = smp[len(body):]
                if all(ch in cand for ch in tail) or not tail:
                    if not tail and case["comment"] in (r"#.*$", r"\/\/.*?$"):
                        tail = "\n" if "\n" in cand else None
                    if tail is not None:
                        t2 = text[:p] + body + tail + text[p:]
                        m = comment_re.match(t2, p)
                        if m and m.end() - p == len(body):
                            out.append((p, body + tail, "comment"))
            outside = [c for c in DEFAULT_WS if c not in ws_t]
            if outside and rng.chance(0.35):
                out.append((p, rng.choice(outside), "outside"))
        # alphabet sweep: under every mode that a `ws` modifier / the metamodel's `ws` puts in force, *every*
        # character of the set is inserted somewhere (sentence 1) and every other standard whitespace character
        # too (sentence 2: it must not be skipped)
        sweep_in, sweep_out = [], []
        for (skip_t, ws_t), ss in sorted(by_mode.items()):
            if (skip_t, ws_t) == DEFAULT_MODE:
                continue
            for c in sorted(set(ws_t)):
                ok = [p for (p, cand) in ss if c in cand]
                if ok:
                    sweep_in.append((rng.choice(ok), c, "ws"))
            for c in rng.sample([c for c in DEFAULT_WS if c not in ws_t], 2):
                sweep_out.append((rng.choice(ss)[0], c, "outside"))
        # under noskipws nothing is skipped: any standard whitespace character in front of a terminal of such a
        # rule (glued boundaries included) must not be skipped (judged by sentence 2 only)
        nos = [gp["b"] for gp in gaps if not gp["mode"][0] and 0 < gp["b"] < n]
        if nos:
            sweep_out.append((rng.choice(nos), rng.choice(DEFAULT_WS), "outside"))
        sweep = rng.shuffle(sweep_in)[:MAX_SWEEP] + rng.shuffle(sweep_out)[:2]
        # glued boundaries / noskipws gaps: outside the hypothesis, mirror correspondence only
        glued = [gp["a"] for gp in gaps if gp["a"] == gp["b"] and 0 < gp["a"] < n]
        if glued and rng.chance(0.5):
            out.append((rng.choice(glued), rng.choice([" ", "\n"]), "glued"))
        noskip = [gp for gp in gaps if not gp["mode"][0] and gp["a"] < gp["b"]]
        if noskip and rng.chance(0.5):
            gp = rng.choice(noskip)
            out.append((gp["b"], " ", "outside"))
        seen, head, rest = set(), [], []
        for lst, dst in ((sweep, head), (out, rest)):
            for v in lst:
                if (v[0], v[1]) not in seen:
                    seen.add((v[0], v[1]))
                    dst.append(v)
        # the sweep first, then a mix of the random ones (a comment, a whitespace string, something outside, …)
        kinds = ["comment", "ws", "outside", "glued", "comment", "ws", "ws"]
        keep = []
        for k in kinds:
            v = next((v for v in rest if v[2] == k and v not in keep), None)
            if v is not None:
                keep.append(v)
        return head + keep[:max(3, MAX_VARIANTS - len(head))]

    def impl(self, case):
        use_repo()
        o = outcome(lambda: build(case))
        if "ok" not in o:
            return {"grammar_error": o}
        mm = o["ok"]
        try:
            p0 = mm._parser_blueprint.clone()
            nodes, top, comments, objs = peg.dump_parser(p0)
        except peg.Unsupported as e:
            return {"unsupported": str(e)}
        params = case.get("params", {})
        cfg = case["cfg"]
        comment_re = re.compile(case["comment"], re.MULTILINE) if case.get("comment") else None
        rng = Rng(case.get("vseed", 0))
        res = {"nodes": nodes, "top": top, "comments": comments, "skipws": bool(p0.skipws), "ws": p0.ws,
               "memo": bool(p0.memoization), "texts": []}
        expanded = 0
        for t in case["texts"]:
            d = {"text": t, "variants": []}

            def one(text):
                load, parser, log = run_text(mm, text)
                info = {"load": load}
                if "ok" in load and parser is not None and parser.parse_tree is not None:
                    gaps, bad = analyse(text, parser, log, params, cfg, comment_re)
                    info["gaps"], info["bad"] = gaps, bad
                    info["log"] = log
                return info

            info = patient(lambda: one(t), 5)
            if "load" not in info:
                d["load"] = info
                res["texts"].append(d)
                continue
            d["load"], d["bad"] = info["load"], info.get("bad")
            d["parse"] = with_timeout(lambda: peg.real_parse(mm._parser_blueprint.clone(), t, objs))
            d["toks"] = peg.tok_tables(nodes, objs, t)
            if d["bad"]:
                d["bad_ctx"] = self.bad_under_ctx(mm, t, params, cfg, comment_re)
            explicit = case.get("variants", {}).get(t)
            if "gaps" in info and (expanded < 2 or explicit):
                expanded += 1
                vs = [tuple(v) for v in explicit] if explicit else \
                    self.variants(case, t, info["gaps"], info["log"], rng.fork(t), comment_re)
                for (p, ins, kind) in vs:
                    t2 = t[:p] + ins + t[p:]
                    v = {"p": p, "ins": ins, "kind": kind, "text": t2}
                    i2 = patient(lambda: one(t2), 5)
                    v["load"] = i2.get("load", i2)
                    v["bad"] = i2.get("bad")
                    v["parse"] = with_timeout(lambda: peg.real_parse(mm._parser_blueprint.clone(), t2, objs))
                    v["toks"] = peg.tok_tables(nodes, objs, t2)
                    v["compat"] = tok_compat(d["toks"], v["toks"], p, len(ins), len(t))
                    v["hyp"] = kind in ("ws", "comment") and v["compat"]
                    if v["bad"]:
                        v["bad_ctx"] = self.bad_under_ctx(mm, t2, params, cfg, comment_re)
                    if v["hyp"] and v["load"] != d["load"]:
                        l3, _p, _l = run_text(mm, t2, ctx=True)
                        l0, _p, _l = run_text(mm, t, ctx=True)
                        v["ctx_same"] = (l3 == l0)
                    d["variants"].append(v)
            res["texts"].append(d)
        return res

    @staticmethod
    def bad_under_ctx(mm, text, params, cfg, comment_re):
        """sentence-2 verdict when the comment cache key is extended by the whitespace context"""
        load, parser, log = run_text(mm, text, ctx=True)
        if "ok" not in load or parser is None or parser.parse_tree is None:
            return None
        return analyse(text, parser, log, params, cfg, comment_re)[1]

    # ---- Lean side -------------------------------------------------------------------------------
    def model_req(self, case, obs):
        if "texts" not in obs:
            return None
        reqs = []
        for d in obs["texts"]:
            if "toks" not in d:
                continue
            longest = max([len(d["text"])] + [len(v["text"]) for v in d["variants"]])
            fuel = min(20000, 60 + 8 * (longest + 2) * (len(obs["nodes"]) + 2))
            reqs.append({"op": "gapext", "nodes": obs["nodes"], "top": obs["top"], "comments": obs["comments"],
                         "memo": obs["memo"], "skipws": obs["skipws"], "ws": obs["ws"], "input": d["text"],
                         "toks": d["toks"], "fuel": fuel,
                         "exts": [{"p": v["p"], "ins": v["ins"], "toks": v["toks"]} for v in d["variants"]]})
        return {"op": "multi", "reqs": reqs, "mods": [written_params(p) for p in case.get("params", {}).values()]}

    @staticmethod
    def _same(real, model):
        if not isinstance(real, dict):
            return False
        if "ok" in real:
            return model.get("ok") == real["ok"]
        if "nomatch" in real:
            return model.get("nomatch") == real["nomatch"]
        if real.get("other") in ("RecursionError", "Timeout", "MemoryError"):
            return True  # resource limits of the harness run are not observations of the parser's result
        return False

    def compare(self, case, obs, out):
        if "outs" not in out or "mods" not in out:
            return f"model rejected the request: {str(out)[:200]}"
        # the rule modifiers as written vs the mode the compiled rule carries (Peg.ruleMods = visit_rule_param(s))
        names = list(case.get("params", {}))
        if len(out["mods"]) != len(names):
            return "answer count mismatch (mods)"
        for name, m in zip(names, out["mods"]):
            for i, nd in enumerate(obs["nodes"]):
                if nd.get("root") and nd["rule"] == name and i != obs["top"] and nd["k"] in ("seq", "choice"):
                    # the set is only ever used through `in`: its order / repetitions are not observable
                    def as_set(w):
                        return None if w is None else sorted(set(w))
                    if m.get("rejected") or (nd.get("skipws"), as_set(nd.get("ws"))) != (m["skipws"], as_set(m["ws"])):
                        return (f"rule {name}: modifiers {written_params(case['params'][name])} compiled to "
                                f"skipws={nd.get('skipws')}, ws={nd.get('ws')!r} but Peg.ruleMods gives {m}")
        ds = [d for d in obs["texts"] if "toks" in d]
        if len(ds) != len(out["outs"]):
            return "answer count mismatch"
        for d, o in zip(ds, out["outs"]):
            if "orig" not in o:
                return f"model rejected the request: {str(o)[:200]}"
            if not self._same(d["parse"], o["orig"]):
                return f"text {d['text']!r}: real {str(d['parse'])[:300]} vs mirror {str(o['orig'])[:300]}"
            for v, e in zip(d["variants"], o["exts"]):
                if e["input"] != v["text"]:
                    return f"extendGap differs from the harness insertion: {e['input']!r} vs {v['text']!r}"
                if not self._same(v["parse"], e["out"]):
                    return (f"variant {v['text']!r} (of {d['text']!r}): real {str(v['parse'])[:300]} vs mirror "
                            f"{str(e['out'])[:300]}")
                if e["rows"] and e["compat"] != v["compat"]:
                    return f"variant {v['text']!r}: tokCompatB={e['compat']} but harness tok_compat={v['compat']}"
                if e["ok"] and not e["rel"]:
                    return f"variant {v['text']!r}: side conditions of C22_partial_ws hold but the mirror outcomes are not related"
        return None

    # ---- direct oracle ---------------------------------------------------------------------------
    def oracle(self, case, obs):
        if "texts" not in obs:
            return None
        for d in obs["texts"]:
            if d.get("bad"):
                b = d["bad"]
                return (f"text {d['text']!r} accepted although {b['gap']!r} in front of the terminal at {b['b']} is not "
                        f"skippable under the mode in force there (skipws={b['mode'][0]}, ws={b['mode'][1]!r})")
            for v in d["variants"]:
                if v.get("bad"):
                    b = v["bad"]
                    return (f"variant {v['text']!r} accepted although {b['gap']!r} in front of the terminal at {b['b']} is "
                            f"not skippable under the mode in force there (skipws={b['mode'][0]}, ws={b['mode'][1]!r})")
                if v["hyp"] and v["load"] != d["load"]:
                    return (f"inserting {v['ins']!r} ({v['kind']}) at {v['p']} of {d['text']!r}: "
                            f"{str(d['load'])[:160]} became {str(v['load'])[:160]}")
        return None

    def classify(self, case, obs, failure):
        if "texts" not in obs:
            return None
        bad = False
        for d in obs["texts"]:
            if d.get("bad"):
                bad = True
                if d.get("bad_ctx") is not None:
                    return None
            for v in d["variants"]:
                if v.get("bad"):
                    bad = True
                    if v.get("bad_ctx") is not None:
                        return None
                if v["hyp"] and v["load"] != d["load"]:
                    bad = True
                    if not v.get("ctx_same"):
                        return None
        if bad and obs.get("comments") is not None:
            return KF_ID
        if not bad:
            # correspondence disagreement only: never classified
            return None
        return None

    def nontrivial(self, case, obs):
        return any(v["hyp"] and "ok" in d["load"] for d in obs.get("texts", []) for v in d["variants"])

    def sample_view(self, case, obs):
        v = {"grammar": case["grammar"], "cfg": case["cfg"]}
        if "texts" in obs:
            v["texts"] = [{"text": d["text"], "load": str(d.get("load"))[:100],
                           "variants": [[x["p"], x["ins"], x["kind"], x["hyp"], x["load"] == d["load"]] for x in d["variants"]]}
                          for d in obs["texts"]]
        else:
            v["obs"] = obs
        return v

    def extra_evidence(self, cases, obs, outs):
        ts = [d for o in obs for d in o.get("texts", [])]
        vs = [v for d in ts for v in d["variants"]]
        kinds = {}
        for v in vs:
            kinds[v["kind"]] = kinds.get(v["kind"], 0) + 1
        lean_ok = sum(1 for o in outs if o and "outs" in o for x in o["outs"] for e in x.get("exts", []) if e.get("ok"))
        return {"texts": len(ts), "accepted_texts": sum(1 for d in ts if "ok" in d.get("load", {})),
                "variants": len(vs), "variants_by_kind": kinds,
                "variants_in_hypothesis": sum(1 for v in vs if v["hyp"]),
                "variants_not_lexical": sum(1 for v in vs if not v["compat"]),
                "variants_inside_C22_partial_ws": lean_ok,
                "grammar_errors": sum(1 for o in obs if "grammar_error" in o),
                "grammars_with_comment": sum(1 for c in cases if c.get("comment")),
                "grammars_with_modifiers": sum(1 for c in cases if c.get("params")),
                "ws_modifiers": sum(1 for c in cases for p in c.get("params", {}).values() if "ws" in p),
                "ws_modifiers_by_escape": {e: sum(1 for c in cases for p in c.get("params", {}).values()
                                                  if e in p.get("ws", "")) for e in ("\\n", "\\r", "\\t")},
                "ws_modifiers_mixed_spelling": sum(1 for c in cases for p in c.get("params", {}).values()
                                                   if "\\" in p.get("ws", "") and
                                                   any(ch not in " " for ch in re.sub(r"\\[nrt]", "", p["ws"]))),
                "rule_modifier_sets_compared_with_Peg_ruleMods": sum(len(o.get("mods", [])) for o in outs if o)}

    def shrink(self, case):
        if len(case["texts"]) > 1:
            for t in case["texts"]:
                yield dict(case, texts=[t])

    def extra_search(self, rng, tier, broken):
        return list(self.gen(rng, 150 if tier == "quick" else 1500, tier))
