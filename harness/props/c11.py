"""C11 — RREL reference resolution follows the documented expression semantics.

Implementation side: `textx.scoping.rrel.find` on a loaded model (mode "find"),
a complete model load with the RREL expression written in the grammar (mode
"grammar") or registered as scope provider string (mode "reg"), on generated
object graphs: a containment tree of named / unnamed objects of three classes
with two list attributes, one single-valued attribute and single / list
reference attributes that point anywhere (cycles included).  The expression is
rendered to text, parsed by the real RREL parser, and the *parsed tree* (node
identities included) is what the Lean model (`Rrel.find`, Drivers/Rrel.lean)
is run on.  The direct oracle decides the property from its statement: it
computes the set of objects reachable by one expansion of the expression
(declaratively: relational composition, union, reflexive-transitive closure —
no visited set, no search order) and checks the clauses of the statement.
"""
import json
import os

from harness.core import Check, use_repo

# --------------------------------------------------------------------------
# the language of the generated models
# --------------------------------------------------------------------------
BODY = ("('a' '[' a*=Item ']')? ('b' '[' b*=Item ']')? ('s' s=Item)? "
        "('r' r=[Item:INT])? ('rs' rs+=[Item:INT])? refs*=Ref")

GRAMMAR = """
Model: BODY;
Item: A | B | C;
Named: A | B;
A: 'A' name=ID '{' BODY '}';
B: 'B' name=ID '{' BODY '}';
C: 'C' '{' BODY '}';
Ref: 'ref' ref=[CLS:FQN|RREL];
FQN[split='SPLIT']: (ID | 'SPLIT')+;
"""

NAV_ATTRS = ["a", "b", "s", "r", "rs"]
TYPES = ["A", "B", "C", "Item", "Named", "Model", "Ref"]
NAMES = ["x", "y", "z"]
SPLITS = [".", "/", "::"]
CONF = {"A": {"A", "Item", "Named"}, "B": {"B", "Item", "Named"}, "C": {"C", "Item"},
        "Model": {"Model"}, "Ref": {"Ref"}}


def grammar_text(cls, rrel, split):
    g = GRAMMAR.replace("BODY", BODY).replace("CLS", cls).replace("SPLIT", split)
    return g.replace("|RREL]", ("|" + rrel + "]") if rrel else "]")


# --------------------------------------------------------------------------
# heaps.  node = {"cls", "name"?, "a":[..], "b":[..], "s":node|None, "r":idx|None,
# "rs":[idx..], "refs":[{"cls":"Ref","text":..}]}; objects are numbered in
# pre-order over a, b, s, refs (the root is 0).
# --------------------------------------------------------------------------
def heap_list(tree):
    """[(node, parent index)] in pre-order."""
    out = []

    def go(n, parent):
        i = len(out)
        out.append((n, parent))
        for c in n.get("a") or []:
            go(c, i)
        for c in n.get("b") or []:
            go(c, i)
        if n.get("s") is not None:
            go(n["s"], i)
        for c in n.get("refs") or []:
            go(c, i)

    go(tree, None)
    return out


def render_body(n, ind):
    pad = "  " * ind
    out = []
    if n.get("a"):
        out.append(pad + "a [\n" + "".join(render_item(c, ind + 1) for c in n["a"]) + pad + "]\n")
    if n.get("b"):
        out.append(pad + "b [\n" + "".join(render_item(c, ind + 1) for c in n["b"]) + pad + "]\n")
    if n.get("s") is not None:
        out.append(pad + "s\n" + render_item(n["s"], ind + 1))
    if n.get("r") is not None:
        out.append(pad + f"r {n['r']}\n")
    if n.get("rs"):
        out.append(pad + "rs " + " ".join(str(t) for t in n["rs"]) + "\n")
    for r in n.get("refs") or []:
        out.append(pad + "ref " + r["text"] + "\n")
    return "".join(out)


def render_item(n, ind):
    pad = "  " * ind
    head = pad + n["cls"] + ((" " + n["name"]) if n["cls"] != "C" else "")
    return head + " {\n" + render_body(n, ind + 1) + pad + "}\n"


# --------------------------------------------------------------------------
# expressions (generated AST -> text)
#  seq  = [path..]     path = {"lead": None | "^" | n (dots), "elems": [elem..]}
#  elem = {"k":"nav","name","mode":"c"|"t"|"f","fixed"?} | {"k":"parent","type"}
#       | {"k":"br","seq":seq} | {"k":"star","e":elem}
# --------------------------------------------------------------------------
def render_elem(e):
    k = e["k"]
    if k == "nav":
        if e["mode"] == "c":
            return e["name"]
        if e["mode"] == "t":
            return "~" + e["name"]
        return "'" + e["fixed"] + "'~" + e["name"]
    if k == "parent":
        return "parent(" + e["type"] + ")"
    if k == "br":
        return "(" + render_seq(e["seq"]) + ")"
    if k == "star":
        return render_elem(e["e"]) + "*"
    raise ValueError(k)


def render_path(p):
    lead = p.get("lead")
    s = "" if lead is None else ("^" if lead == "^" else "." * lead)
    return s + ".".join(render_elem(e) for e in p["elems"])


def render_seq(seq):
    return ",".join(render_path(p) for p in seq)


def render_expr(x):
    return ("+" + x["flags"] + ":" if x.get("flags") else "") + render_seq(x["seq"])


# --------------------------------------------------------------------------
# the documented semantics, declaratively (the direct oracle's yardstick)
# A state is (object index, number of name parts still to consume, number of
# entries of a given path already accounted for).  `Spec.seq(seq, first, S)` is the
# set of states reachable from the set S by one expansion of `seq`.
# --------------------------------------------------------------------------
class Spec:
    def __init__(self, tree, names, path=None, extra=(), m=False):
        """`extra`: further model trees (builtin models), numbered after `tree`;
        `m`: the expression has the '+m:' flag (they are searched from a model root)"""
        self.objs = []
        self.off = []  # per object: number of the root of its tree
        self.extra_roots = []
        for k, t in enumerate([tree] + list(extra or ())):
            base = len(self.objs)
            if k > 0:
                self.extra_roots.append(base)
            for n, par in heap_list(t):
                self.objs.append((n, None if par is None else par + base))
                self.off.append(base)
        self.m = m
        self.names = names
        self.given = path  # None: paths are not tracked (third component stays 0)

    # --- object graph -----------------------------------------------------
    def parent(self, o):
        return self.objs[o][1]

    def root(self, o):
        while self.parent(o) is not None:
            o = self.parent(o)
        return o

    def index_of(self, node):
        for i, (n, _) in enumerate(self.objs):
            if n is node:
                return i
        raise KeyError

    def attr(self, o, name):
        n = self.objs[o][0]
        if n["cls"] == "Ref":
            return []
        if name in ("a", "b"):
            return [self.index_of(c) for c in n.get(name) or []]
        if name == "s":
            return [self.index_of(n["s"])] if n.get("s") is not None else []
        if name == "r":
            return [n["r"] + self.off[o]] if n.get("r") is not None else []
        if name == "rs":
            return [t + self.off[o] for t in n.get("rs") or []]
        return []

    def cands(self, e, src, n):
        """elements of attribute e.name of src the step may move to"""
        ts = self.attr(src, e["name"])
        if e["mode"] == "t":
            return ts
        if e["mode"] == "f":
            return [t for t in ts if self.name_of(t) == e["fixed"]]
        if n == 0:
            return []
        return [t for t in ts if self.name_of(t) == self.names[len(self.names) - n]]

    def nav_source(self, e, src, n):
        """the object whose attribute is followed: `src`, or with '+m:' and a model root
        the first of (src, other models…) in which the step finds anything"""
        if self.m and self.parent(src) is None:
            for st in [src] + self.extra_roots:
                if self.cands(e, st, n):
                    return st
        return src

    def name_of(self, o):
        return self.objs[o][0].get("name")

    def conforms(self, o, t):
        return t is None or t in CONF[self.objs[o][0]["cls"]]

    # --- one step -----------------------------------------------------------
    def named(self, st, tgt):
        """account for a named object in the path"""
        o, n, j = st
        if self.given is None:
            return (tgt, n, 0)
        if j < len(self.given) and self.given[j] == tgt:
            return (tgt, n, j + 1)
        return None

    def elem(self, e, first, S):
        k = e["k"]
        out = set()
        if k == "nav":
            for (o, n, j) in S:
                src = self.nav_source(e, self.root(o) if first else o, n)
                for t in self.cands(e, src, n):
                    if e["mode"] == "t":
                        out.add((t, n, j))
                    elif e["mode"] == "f":
                        st = self.named((o, n, j), t)
                        if st:
                            out.add(st)
                    else:
                        st = self.named((o, n - 1, j), t)
                        if st:
                            out.add(st)
            return out
        if k == "parent":
            for (o, n, j) in S:
                p = self.parent(o)
                while p is not None and not self.conforms(p, e["type"]):
                    p = self.parent(p)
                if p is not None:
                    out.add((p, n, j))
            return out
        if k == "dots":
            for (o, n, j) in S:
                p, c = o, e["n"]
                while c > 1 and p is not None:
                    p = self.parent(p)
                    c -= 1
                if p is not None:
                    out.add((p, n, j))
            return out
        if k == "br":
            return self.seq(e["seq"], first, S)
        if k == "star":
            body = e["e"]["seq"] if e["e"]["k"] == "br" else [{"lead": None, "elems": [e["e"]]}]
            return self.star(body, first, S)
        raise ValueError(k)

    def starts(self, seq):
        """(start_locally, start_at_root) of a sequence"""
        loc = root = False
        for p in seq:
            l, r = self.path_starts(p)
            loc, root = loc or l, root or r
        return loc, root

    def path_starts(self, p):
        if p.get("lead") is not None:
            return True, False
        e = p["elems"][0]
        while e["k"] == "star":
            e = e["e"]
        if e["k"] == "nav":
            return False, True
        if e["k"] == "parent":
            return True, False
        return self.starts(e["seq"])

    def star(self, body, first, S):
        loc, root = self.starts(body)
        res = set()
        if first:
            for (o, n, j) in S:
                if loc:
                    res.add((o, n, j))
                if root:
                    res.add((self.root(o), n, j))
        else:
            res |= S
        frontier = self.seq(body, first, S)
        seen = set()
        while frontier - seen:
            new = frontier - seen
            seen |= new
            frontier = self.seq(body, False, new)
        return res | seen

    def path(self, p, first, S):
        elems = list(p["elems"])
        lead = p.get("lead")
        if lead == "^":
            elems = [{"k": "star", "e": {"k": "br", "seq": [{"lead": 2, "elems": []}]}}] + elems
        elif lead is not None:
            elems = [{"k": "dots", "n": lead}] + elems
        for i, e in enumerate(elems):
            S = self.elem(e, first and i == 0, S)
            if not S:
                break
        return S

    def seq(self, seq, first, S):
        out = set()
        for p in seq:
            out |= self.path(p, first, S)
        return out

    def targets(self, seq, start, cls):
        """objects reachable by one expansion that consumed every name part,
        (accounted for the whole path,) and conform to cls"""
        S = self.seq(seq, True, {(start, len(self.names), 0)})
        need = 0 if self.given is None else len(self.given)
        return {o for (o, n, j) in S if n == 0 and j == need and self.conforms(o, cls)}


def spec_of(case, ns, path=None):
    return Spec(case["heap"], ns, path, extra=case.get("extra"), m="m" in case["expr"].get("flags", ""))


def split_name(text, split):
    return [p for p in text.split(split) if p]


# --------------------------------------------------------------------------
# running the real code
# --------------------------------------------------------------------------
_MM = {}


def metamodel(cls, rrel, split, reg=None, builtin=None):
    """metamodel of the model language; r / rs are resolved by object number"""
    key = (cls, rrel, split, reg)
    if builtin is None and key in _MM:
        return _MM[key]
    use_repo()
    from textx import get_model, metamodel_from_str

    if builtin is None:
        mm = metamodel_from_str(grammar_text(cls, rrel, split))
    else:
        mm = metamodel_from_str(grammar_text(cls, rrel, split), builtin_models=builtin)

    def by_number(obj, attr, obj_ref):
        return model_objects(get_model(obj))[int(obj_ref.obj_name)]

    sp = {"*.r": by_number, "*.rs": by_number}
    if reg is not None:
        sp["Ref.ref"] = reg
    mm.register_scope_providers(sp)
    if builtin is not None:
        return mm
    if len(_MM) > 64:
        _MM.clear()
    _MM[key] = mm
    return mm


def model_objects(model):
    """objects of a loaded model in the numbering of heap_list"""
    out = []

    def go(o):
        out.append(o)
        for c in getattr(o, "a", None) or []:
            go(c)
        for c in getattr(o, "b", None) or []:
            go(c)
        if getattr(o, "s", None) is not None:
            go(o.s)
        for c in getattr(o, "refs", None) or []:
            go(c)

    go(model)
    return out


def dump_tree(expr):
    """the parsed RRELExpression as a term over the Lean model's constructors;
    node identities become small numbers"""
    use_repo()
    from textx.scoping import rrel as R

    ids = {}

    def nid(n):
        return ids.setdefault(id(n), len(ids))

    def seq(s):
        assert type(s) is R.RRELSequence
        return {"k": "seq", "i": nid(s), "alts": [path(p) for p in s.paths]}

    def path(p):
        assert type(p) is R.RRELPath
        return {"k": "cat", "es": [elem(e) for e in p.path_elements]}

    def elem(e):
        t = type(e)
        if t is R.RRELNavigation:
            mode = "c" if e.consume_name else ("f" if e.fixed_name is not None else "t")
            return {"k": "nav", "i": nid(e), "name": e.name, "mode": mode, "fixed": e.fixed_name or ""}
        if t is R.RRELParent:
            return {"k": "parent", "i": nid(e), "type": e.type}
        if t is R.RRELDots:
            return {"k": "dots", "i": nid(e), "n": e.num}
        if t is R.RRELBrackets:
            return {"k": "br", "i": nid(e), "e": seq(e.seq)}
        if t is R.RRELZeroOrMore:
            return {"k": "star", "i": nid(e), "e": seq(e.path_element.seq)}
        raise TypeError(t.__name__)

    return {"top": [path(p) for p in expr.seq.paths], "m": bool(expr.importURI), "p": bool(expr.use_proxy)}


class HeapMismatch(Exception):
    pass


def check_heap(case, model, mm, others):
    want = model_heap(case["heap"], case.get("extra"))
    want.pop("extra_roots")
    got = real_heap(model, mm, others)
    if want != got:
        for k in want:
            if want[k] != got[k]:
                raise HeapMismatch(f"{k}: described {want[k]} loaded {got[k]}")


def run_case(case):
    use_repo()
    from textx.exceptions import TextXError, TextXSemanticError
    from textx.scoping import Postponed
    from textx.scoping import rrel as R

    mode = case["mode"]
    text = render_body(case["heap"], 0)
    etext = render_expr(case["expr"])
    split = case.get("split", ".")
    cls = case.get("cls")
    out = {"expr": etext}

    others = []  # builtin models ('+m:')

    def found(res_obj, path, model):
        allobjs = model_objects(model) + [o for m in others for o in model_objects(m)]
        num = {id(o): i for i, o in enumerate(allobjs)}
        return {"res": "found", "obj": num.get(id(res_obj), -1),
                "path": None if path is None else [num.get(id(p), -1) for p in path]}

    try:
        if mode == "find":
            mm = metamodel("Item", "a", split)
            if case.get("extra"):
                from textx.scoping import ModelRepository

                repo = ModelRepository()
                for t in case["extra"]:
                    others.append(mm.model_from_str(render_body(t, 0)))
                    repo.add_model(others[-1])
                mm = metamodel("Item", "a", split, builtin=repo)
            model = mm.model_from_str(text)
            objs = model_objects(model)
            check_heap(case, model, mm, others)
            tree = R.parse(etext)
            out["tree"] = dump_tree(tree)
            name = case["name"] if case.get("as_list") is None else list(case["as_list"])
            if case.get("unres"):
                # as during model construction: some reference attributes are not resolved yet
                flagged = [(objs[i], a) for i, a in case["unres"]]

                class Resolver:
                    def has_unresolved_crossrefs(self, obj, attr_name=None):
                        return any(o is obj and (attr_name is None or a == attr_name) for o, a in flagged)

                model._tx_reference_resolver = Resolver()
            try:
                r = R.find(objs[case["from"]], name, tree, None if cls is None else mm[cls],
                           split_string=split, use_proxy=tree.use_proxy)
            finally:
                if case.get("unres"):
                    del model._tx_reference_resolver
            if r is None:
                out["res"] = "none"
            elif isinstance(r, Postponed):
                out["res"] = "postponed"
            elif isinstance(r, R.ReferenceProxy):
                out.update(found(r._tx_obj, r._tx_path, model))
            else:
                out.update(found(r, None, model))
        else:
            if mode == "grammar":
                mm = metamodel(cls or "Item", etext, split)
                sp = mm["Ref"]._tx_attrs["ref"].scope_provider
            else:
                mm = metamodel(cls or "Item", None, split, reg=etext)
                sp = mm.scope_providers["Ref.ref"]
            tree = getattr(sp, "rrel_tree", None) or sp.scope_provider.rrel_tree
            out["tree"] = dump_tree(tree)
            try:
                model = mm.model_from_str(text)
            except TextXSemanticError as e:
                if "Unknown object" in str(e):
                    out["res"] = "none"
                    return out
                raise
            objs = model_objects(model)
            check_heap(case, model, mm, others)
            ref = objs[case["from"]].ref
            if isinstance(ref, R.ReferenceProxy):
                out.update(found(ref._tx_obj, ref._tx_path, model))
            else:
                out.update(found(ref, None, model))
    except TextXError as e:
        out.update(res="error", type=type(e).__name__, msg=str(e)[:200])
    except RecursionError:
        out.update(res="error", type="RecursionError", msg="")
    except Exception as e:  # any other exception of the code under test is an observation
        out.update(res="error", type=type(e).__name__, msg=str(e)[:200])
    return out


# --------------------------------------------------------------------------
# generators
# --------------------------------------------------------------------------
def gen_heap(rng, max_objs=14, deep=False):
    count = [0]
    limit = 4 if deep else 3
    cont = [1.0, 0.9, 0.8, 0.6] if deep else [1.0, 0.75, 0.5]
    width = 2 if deep else 3

    def item(depth):
        count[0] += 1
        cls = rng.weighted([("A", 4), ("B", 3), ("C", 1)])
        n = {"cls": cls}
        if cls != "C":
            n["name"] = rng.weighted([("x", 4), ("y", 3), ("z", 2)])
        fill(n, depth)
        return n

    def fill(n, depth):
        n["a"], n["b"], n["s"] = [], [], None
        if depth >= limit:
            return
        p = cont[depth]
        if rng.chance(p):
            for _ in range(rng.randint(1, width)):
                if count[0] < max_objs:
                    n["a"].append(item(depth + 1))
        if rng.chance(p * 0.6):
            for _ in range(rng.randint(1, 2)):
                if count[0] < max_objs:
                    n["b"].append(item(depth + 1))
        if rng.chance(0.2) and count[0] < max_objs:
            n["s"] = item(depth + 1)

    root = {"cls": "Model"}
    fill(root, 0)
    return root


def add_refs(rng, root, ref_at=None, ref_text=None):
    """cross references by object number (numbers include a Ref object, if any)"""
    objs = heap_list(root)
    if ref_at is not None:
        objs[ref_at][0].setdefault("refs", []).append({"cls": "Ref", "text": ref_text})
        objs = heap_list(root)
    items = [i for i, (n, _) in enumerate(objs) if n["cls"] in ("A", "B", "C")]
    if not items:
        return
    for i, (n, _) in enumerate(objs):
        if n["cls"] == "Ref":
            continue
        if rng.chance(0.3):
            n["r"] = rng.choice(items)
        if rng.chance(0.2):
            n["rs"] = [rng.choice(items) for _ in range(rng.randint(1, 3))]


def gen_elem(rng, depth, allow_star=True):
    k = rng.weighted([("nav", 60), ("parent", 8), ("br", 12 if depth < 2 else 0), ("star", 20 if allow_star else 0)])
    if k == "nav":
        mode = rng.weighted([("c", 55), ("t", 37), ("f", 8)])
        e = {"k": "nav", "mode": mode,
             "name": rng.weighted([("a", 8), ("b", 5), ("s", 2), ("r", 3), ("rs", 3), ("q", 1)])}
        if mode == "f":
            e["fixed"] = rng.choice(NAMES)
        return e
    if k == "parent":
        return {"k": "parent", "type": rng.choice(TYPES)}
    if k == "br":
        return {"k": "br", "seq": gen_seq(rng, depth + 1)}
    return {"k": "star", "e": gen_elem(rng, depth, allow_star=False)}


def gen_path(rng, depth):
    lead = rng.weighted([(None, 55), ("^", 20), (1, 9), (2, 11), (3, 5)])
    lo = 0 if (lead is not None and rng.chance(0.15)) else 1
    n = 0 if lo == 0 else rng.weighted([(1, 5), (2, 4), (3, 2)])
    return {"lead": lead, "elems": [gen_elem(rng, depth) for _ in range(n)]}


def gen_seq(rng, depth=0):
    return [gen_path(rng, depth) for _ in range(rng.weighted([(1, 6), (2, 3), (3, 1)]))]


def all_names(maxlen=3):
    out = [[]]
    res = []
    for _ in range(maxlen):
        out = [p + [n] for p in out for n in NAMES]
        res += out
    return res


def gen_focus_seq(rng):
    """expressions around the places where the visited set, the first-element rule and
    repetition interact: a leading '*' (or '^') over navigation, then name steps"""
    def navs(k, modes):
        return [{"k": "nav", "mode": rng.weighted(modes), "name": rng.weighted([("a", 6), ("b", 3), ("r", 2), ("rs", 2), ("s", 1)])}
                for _ in range(k)]

    gen_focus_seq.dist = None
    kind = rng.weighted([("star-nav", 5), ("star-br", 3), ("caret", 3), ("nested", 2), ("br-alt", 7)])
    tail = navs(rng.randint(1, 2), [("c", 8), ("t", 2)])
    if kind == "br-alt":
        # nested alternatives that can both match: their order decides the result
        attrs = rng.sample(["a", "b", "s", "r", "rs"], rng.randint(2, 3))
        amode = rng.weighted([("c", 7), ("t", 3)])
        alts = [{"lead": rng.weighted([(None, 8), (2, 1), (1, 1)]),
                 "elems": [{"k": "nav", "mode": amode, "name": a}]} for a in attrs]
        head = [{"k": "br", "seq": alts}]
        if rng.chance(0.5) and amode == "c":
            tail = []
        lead = rng.weighted([(None, 7), ("^", 3)])
        if lead is None:
            # the same alternatives written out, for choosing a name several of them match
            gen_focus_seq.dist = [{"lead": a["lead"], "elems": a["elems"] + tail} for a in alts]
    elif kind == "star-nav":
        head = [{"k": "star", "e": navs(1, [("t", 7), ("c", 3)])[0]}]
        lead = None
    elif kind == "star-br":
        alts = [{"lead": rng.weighted([(None, 6), (2, 3)]), "elems": navs(rng.randint(1, 2), [("t", 6), ("c", 4)])}
                for _ in range(rng.randint(1, 2))]
        head = [{"k": "star", "e": {"k": "br", "seq": alts}}]
        lead = None
    elif kind == "caret":
        head = [{"k": "star", "e": navs(1, [("c", 6), ("t", 4)])[0]}] if rng.chance(0.6) else []
        lead = "^"
    else:
        inner = {"k": "star", "e": navs(1, [("t", 7), ("c", 3)])[0]}
        head = [{"k": "star", "e": {"k": "br", "seq": [{"lead": None, "elems": [inner] + navs(1, [("t", 5), ("c", 5)])}]}}]
        lead = None
    seq = [{"lead": lead, "elems": head + tail}]
    if rng.chance(0.25):
        seq.insert(rng.below(2), gen_path(rng, 1))
    return seq


def ancestors(sp, o):
    out = []
    p = sp.parent(o)
    while p is not None:
        out.append(p)
        p = sp.parent(p)
    return out


def gen_case(rng, mode=None, focus=None):
    mode = mode or rng.weighted([("find", 15), ("grammar", 4), ("reg", 1)])
    focus = rng.chance(0.4) if focus is None else focus
    root = gen_heap(rng, deep=focus and rng.chance(0.7))
    flags = rng.weighted([("", 6), ("p", 4)])
    split = rng.weighted([(".", 6), ("/", 2), ("::", 2)])
    n0 = len(heap_list(root))
    at = rng.below(n0)
    if focus and n0 > 1:  # start inside the tree rather than at the root, at an object with children
        at = 1 + rng.below(n0 - 1)
        inner = [i for i, (n, _) in enumerate(heap_list(root)) if i > 0 and (n.get("a") or n.get("b"))]
        if inner and rng.chance(0.8):
            at = rng.choice(inner)
    if mode == "find":
        add_refs(rng, root)
        frm = at
    else:
        add_refs(rng, root, ref_at=at, ref_text="?")
        frm = next(i for i, (n, _) in enumerate(heap_list(root)) if n["cls"] == "Ref")
    extra = []
    if mode == "find" and rng.chance(0.12):  # '+m:' with builtin models
        flags = rng.weighted([("m", 5), ("pm", 3), ("mp", 2)])
        for _ in range(rng.randint(1, 2)):
            t = gen_heap(rng, max_objs=5)
            add_refs(rng, t)
            extra.append(t)
    elif mode == "find" and rng.chance(0.03):  # the flag without other models
        flags = "m"
    mflag = "m" in flags
    # expression, class and name: mostly such that a target exists
    want = rng.chance(0.8)
    names = all_names()
    for attempt in range(6):
        seq = gen_focus_seq(rng) if focus else gen_seq(rng)
        cls = rng.weighted([(None, 3), ("Item", 4), ("Named", 2), ("A", 3), ("B", 2), ("C", 1)])
        if focus:
            cls = rng.weighted([(None, 4), ("Item", 4), ("Named", 2), ("A", 1), ("B", 1)])
        if mode != "find" and cls is None:
            cls = "Item"
        ns = rng.choice(names)
        if not want:
            break
        good = [c for c in rng.shuffle(names) if Spec(root, c, extra=extra, m=mflag).targets(seq, frm, cls)]
        if good and focus:
            # prefer matches below the start object (reached through the start object itself)
            sp0 = Spec(root, [])
            below = {i for i in range(len(sp0.objs)) if i != frm and frm in ancestors(sp0, i)}
            deep = [c for c in good if Spec(root, c, extra=extra, m=mflag).targets(seq, frm, cls) & below]
            if deep and rng.chance(0.7):
                good = deep
        dist = gen_focus_seq.dist if focus else None
        if good and dist:
            # nested alternatives: prefer names that at least two of them match
            both = [c for c in good
                    if sum(1 for q in dist if Spec(root, c, extra=extra, m=mflag).targets([q], frm, cls)) > 1]
            if both:
                good = both
        if good and rng.chance(0.6):
            # prefer names with several matching objects: then the search order decides
            multi = [c for c in good if len(Spec(root, c, extra=extra, m=mflag).targets(seq, frm, cls)) > 1]
            if multi:
                good = multi
        if good:
            # prefer long names
            good.sort(key=lambda c: -len(c))
            ns = good[rng.below(min(len(good), 4))]
            break
    text = split.join(ns)
    if rng.chance(0.1):  # empty parts are dropped
        text = split + text.replace(split, split + split, 1)
    if mode == "find" and rng.chance(0.03):  # degenerate names: no part at all
        text = rng.choice(["", split, split + split])
    case = {"mode": mode, "heap": root, "expr": {"flags": flags, "seq": seq}, "from": frm,
            "name": text, "split": split, "cls": cls}
    if extra:
        case["extra"] = extra
    if mode != "find":
        heap_list(root)[frm][0]["text"] = text
    else:
        if rng.chance(0.2):
            case["as_list"] = split_name(text, split)
        if rng.chance(0.25):  # unresolved reference attributes (Postponed)
            used = set()

            def walk(q):
                for p in q:
                    for e in p["elems"]:
                        while e["k"] == "star":
                            e = e["e"]
                        if e["k"] == "nav":
                            used.add(e["name"])
                        elif e["k"] == "br":
                            walk(e["seq"])

            walk(seq)
            holders = [(i, a) for i, (n, _) in enumerate(heap_list(root)) for a in ("r", "rs")
                       if n.get(a) not in (None, []) and a in used]
            if holders:
                case["unres"] = [list(h) for h in rng.sample(holders, min(len(holders), rng.randint(1, 2)))]
    return case


# --------------------------------------------------------------------------
# the property, decided on an observation
# --------------------------------------------------------------------------
def check_property(case, obs):
    ns = case.get("as_list")
    if ns is None:
        ns = split_name(case["name"], case.get("split", "."))
    seq, frm, cls = case["expr"]["seq"], case["from"], case.get("cls")
    spec = spec_of(case, ns)
    res = obs.get("res")
    if res == "error":
        return f"evaluation raised {obs.get('type')}: {obs.get('msg')}"
    if res == "postponed":
        if case.get("unres"):
            return None  # the answer is deferred; nothing to judge yet
        return "evaluation on a completely resolved model returned Postponed"
    per_alt = [spec.targets([p], frm, cls) for p in seq]
    targets = set().union(*per_alt)
    if res == "none":
        if targets:
            return f"reference does not resolve although object(s) {sorted(targets)} are reachable by an expansion"
        return None
    t = obs["obj"]
    if t not in targets:
        return f"resolved to object {t}, which no expansion reaches with all name parts consumed and a conforming type"
    first = next(i for i, s in enumerate(per_alt) if s)
    if t not in per_alt[first]:
        return f"resolved to object {t} of a later alternative although alternative {first} has a match"
    if "p" in case["expr"].get("flags", ""):
        path = obs.get("path")
        if not path:
            return "no proxy path although '+p:' is given"
        if path[-1] != t:
            return f"proxy path {path} does not end in the target {t}"
        ok = t in spec_of(case, ns, path).targets(seq, frm, cls) or \
            t in spec_of(case, ns, path[:-1]).targets(seq, frm, cls)
        if not ok:
            return f"proxy path {path} is not the list of named objects of an expansion reaching {t}"
    elif obs.get("path") is not None:
        return "proxy returned without '+p:'"
    return None


# --------------------------------------------------------------------------
# shrinking
# --------------------------------------------------------------------------
def _clone(x):
    return json.loads(json.dumps(x))


def _renumber(case, root, keep_from_tag):
    """after removing nodes from a clone whose nodes carry "_old" numbers"""
    objs = heap_list(root)
    new = {n["_old"]: i for i, (n, _) in enumerate(objs)}
    for n, _ in objs:
        if n.get("r") is not None:
            n["r"] = new.get(n["r"])
        if n.get("rs"):
            n["rs"] = [new[t] for t in n["rs"] if t in new]
    if case["from"] not in new:
        return None
    out = dict(case, heap=root)
    out["from"] = new[case["from"]]
    if case.get("unres"):
        out["unres"] = [[new[i], a] for i, a in case["unres"] if i in new]
    for n, _ in objs:
        n.pop("_old", None)
    return out


def shrink_heap(case):
    base = _clone(case["heap"])
    for i, (n, _) in enumerate(heap_list(base)):
        n["_old"] = i
    count = len(heap_list(base))
    for victim in range(1, count):
        root = _clone(base)
        objs = heap_list(root)
        n, p = objs[victim]
        if n["cls"] == "Ref":
            continue
        pn = objs[p][0]
        if pn.get("s") is n:
            pn["s"] = None
        else:
            for k in ("a", "b"):
                if any(c is n for c in pn.get(k) or []):
                    pn[k] = [c for c in pn[k] if c is not n]
        c = _renumber(case, root, None)
        if c is not None and (root.get("a") or root.get("b") or root.get("s") is not None or root.get("refs")):
            yield c  # (an empty model text is not a model object at all)
    for i in range(count):
        root = _clone(case["heap"])
        n = heap_list(root)[i][0]
        if n.get("r") is not None:
            n["r"] = None
            yield dict(case, heap=root)
            root = _clone(case["heap"])
            n = heap_list(root)[i][0]
        if n.get("rs"):
            for j in range(len(n["rs"])):
                r2 = _clone(case["heap"])
                n2 = heap_list(r2)[i][0]
                del n2["rs"][j]
                yield dict(case, heap=r2)


def shrink_seq(seq):
    """smaller sequences"""
    if len(seq) > 1:
        for i in range(len(seq)):
            yield seq[:i] + seq[i + 1:]
    for i, p in enumerate(seq):
        for q in shrink_path(p):
            yield seq[:i] + [q] + seq[i + 1:]


def shrink_path(p):
    es = p["elems"]
    if p.get("lead") is not None and es:
        yield {"lead": None, "elems": es}
    if len(es) > 1 or (es and p.get("lead") is not None):
        for i in range(len(es)):
            yield {"lead": p.get("lead"), "elems": es[:i] + es[i + 1:]}
    for i, e in enumerate(es):
        for f in shrink_elem(e):
            yield {"lead": p.get("lead"), "elems": es[:i] + [f] + es[i + 1:]}
        if e["k"] == "br" and len(e["seq"]) == 1 and e["seq"][0].get("lead") is None:
            yield {"lead": p.get("lead"), "elems": es[:i] + e["seq"][0]["elems"] + es[i + 1:]}


def shrink_elem(e):
    if e["k"] == "star":
        yield e["e"]
        for f in shrink_elem(e["e"]):
            if f["k"] != "star":
                yield {"k": "star", "e": f}
    elif e["k"] == "br":
        for s in shrink_seq(e["seq"]):
            yield {"k": "br", "seq": s}


def shrink_case(case):
    yield from shrink_heap(case)
    for s in shrink_seq(case["expr"]["seq"]):
        yield dict(case, expr=dict(case["expr"], seq=s))
    if case["expr"].get("flags"):
        yield dict(case, expr=dict(case["expr"], flags=""))
    if case.get("extra"):
        for i in range(len(case["extra"])):
            c = dict(case, extra=case["extra"][:i] + case["extra"][i + 1:])
            if not c["extra"]:
                del c["extra"]
            yield c
    if case.get("unres"):
        for i in range(len(case["unres"])):
            yield dict(case, unres=case["unres"][:i] + case["unres"][i + 1:])
    if case.get("cls") is not None and case["mode"] == "find":
        yield dict(case, cls=None)


# --------------------------------------------------------------------------
# the heap as the Lean model sees it
# --------------------------------------------------------------------------
def model_heap(tree, extra=()):
    sp = Spec(tree, [], extra=extra)
    n = len(sp.objs)
    return {
        "extra_roots": sp.extra_roots,
        "parent": [sp.parent(o) for o in range(n)],
        "name": [sp.name_of(o) for o in range(n)],
        "conf": [sorted(CONF[sp.objs[o][0]["cls"]]) for o in range(n)],
        "attrs": [[[a, sp.attr(o, a)] for a in NAV_ATTRS if sp.attr(o, a)] for o in range(n)],
    }


def real_heap(model, mm, others=()):
    """the same view taken from the loaded objects (consistency of the harness's
    own heap description with what textX built)"""
    use_repo()
    from textx import textx_isinstance

    objs = model_objects(model) + [o for m in others for o in model_objects(m)]
    num = {id(o): i for i, o in enumerate(objs)}

    def lst(v):
        if v is None:
            return []
        if isinstance(v, list):
            return [num.get(id(x), -1) for x in v]
        return [num.get(id(v), -1)]

    def tgt(v):  # references may be proxies
        return getattr(v, "_tx_obj", v) if type(v).__name__ == "ReferenceProxy" else v

    out = {"parent": [], "name": [], "conf": [], "attrs": []}
    for o in objs:
        out["parent"].append(num[id(o.parent)] if hasattr(o, "parent") else None)
        out["name"].append(o.name if hasattr(o, "name") else None)
        out["conf"].append(sorted(t for t in TYPES if textx_isinstance(o, mm[t])))
        if type(o).__name__ == "Ref":
            out["attrs"].append([])
        else:
            out["attrs"].append([[a, lst(getattr(o, a))] for a in NAV_ATTRS if hasattr(o, a) and lst(getattr(o, a))])
    return out


class Prop(Check):
    ID = "C11"
    LEAN_MODULE = "TextxVerif.Props.C11"
    THEOREMS = [
        "Rrel.C11_sound",
        "Rrel.C11_complete",
        "Rrel.C11_no_postponed",
        "Rrel.C11_terminates",
        "Rrel.C11_resolves",
        "Rrel.C11_precedence",
        "Rrel.C11_path",
        "Rrel.C11_fuel_stable",
        "Rrel.C11_split",
    ]
    DRIVER = "Drivers/Rrel.lean"
    QUICK_CASES = 500
    THOROUGH_CASES = 20000
    PROCS_THOROUGH = 4
    RULE = ("generated RREL expressions (navigation, '~', fixed-name '~', '.', '..', '^', parent(T), '*', brackets, ',', "
            "with and without '+p:') x generated models (<= 15 nested named/unnamed objects of 3 classes, name collisions, "
            "single/list cross references with cycles) x reference names of 1..3 parts, through rrel.find, grammar-attached "
            "RREL and registered RREL strings; non-trivial = the reference resolves")
    MODELLED = ("hand-modelled: textx/scoping/rrel.py get_next_matches of RRELBase/Navigation/Parent/Dots/Brackets/Sequence/"
                "ZeroOrMore/Path, the visited set of find_object_with_path, find / ReferenceProxy path, the '+m:' start list, "
                "Postponed, name splitting (Rrel.eval in CPS with the visited set threaded, Rrel.find, Rrel.proxyPath, "
                "Rrel.splitName); tie X: outcome, resolved object and proxy path on the parsed expression tree (node "
                "identities from the real parser) vs rrel.find, grammar-attached RREL and registered RREL strings; the heap "
                "description the model gets is cross-checked against the loaded objects; not modelled: prevent_doubles "
                "(unobservable, see Rrel.lean), navigation into primitive-valued attributes, RRELImportURI model loading, "
                "local_models of a multi-file repository (only builtin models feed the '+m:' list), textx_isinstance itself "
                "(a parameter of the model)")
    ASSUMPTIONS = [
        "navigated attributes hold objects, lists of objects or None (not primitives); parent chains are acyclic",
        "node identities of one expression tree are pairwise distinct (Python object identity)",
        "C11_terminates / C11_resolves: the object graph is finite (FinHeap); C11_resolves: no attribute is unresolved",
    ]
    FUEL = 1000000

    def gen(self, rng, n, tier):
        k = produced = 0
        while produced < n:
            r = rng.fork(str(k))
            k += 1
            case = gen_case(r)
            yield case
            produced += 1
            if tier != "quick" and case["mode"] == "find" and r.chance(0.04):
                # the same model and expression with every reference name of up to 3 parts
                for ns in all_names():
                    c = dict(case, name=case["split"].join(ns))
                    c.pop("as_list", None)
                    yield c
                    produced += 1

    def impl(self, case):
        return run_case(case)

    def names(self, case):
        ns = case.get("as_list")
        return ns if ns is not None else split_name(case["name"], case.get("split", "."))

    def model_req(self, case, obs):
        if "tree" not in obs:
            return None
        req = {"op": "find", "unres": case.get("unres") or [], "extra": [], "top": obs["tree"]["top"], "o": case["from"],
               "cls": case.get("cls"), "fuel": self.FUEL}
        if case.get("as_list") is not None:
            req["ns"] = list(case["as_list"])
        else:  # the model splits the reference text itself
            req["text"], req["sep"] = case["name"], case.get("split", ".")
        h = model_heap(case["heap"], case.get("extra"))
        roots = h.pop("extra_roots")
        req.update(h)
        if obs["tree"]["m"]:
            req["extra"] = roots
        return req

    def compare(self, case, obs, out):
        if "err" in out:
            return f"model did not evaluate the request: {out}"
        if obs.get("res") == "error":
            return f"implementation raised {obs.get('type')} ({obs.get('msg')}), model: {out}"
        if obs.get("res") != out.get("res"):
            return f"outcome differs: impl {obs.get('res')} {obs.get('obj')} model {out.get('res')} {out.get('obj')}"
        if out["res"] == "found":
            if obs["obj"] != out["obj"]:
                return f"resolved object differs: impl {obs['obj']} model {out['obj']}"
            if obs.get("path") is not None and obs["path"] != out["proxy"]:
                return f"proxy path differs: impl {obs['path']} model {out['proxy']}"
        return None

    def oracle(self, case, obs):
        return check_property(case, obs)

    def nontrivial(self, case, obs):
        return obs.get("res") == "found"

    def shrink(self, case):
        return shrink_case(case)

    def sample_view(self, case, obs):
        return {"mode": case["mode"], "expr": obs.get("expr"), "model_text": render_body(case["heap"], 0),
                "builtin_models": [render_body(t, 0) for t in case.get("extra") or []],
                "unresolved": case.get("unres") or [],
                "from": case["from"], "name": case["name"], "cls": case.get("cls"),
                "impl": {k: obs.get(k) for k in ("res", "obj", "path", "type")}}

    def extra_search(self, rng, tier, broken):
        return [gen_case(rng.fork("x" + str(k))) for k in range(800 if tier == "quick" else 20000)]
